"""C09 — mock parameter values compare by mathematical value, symmetrically: generator and settings."""
import re, struct

ID = "C09"
HARNESS = "h_c09"
KEEP_FIRST = 0

TRUSTED = [
    "Lean 4 kernel; axioms of every theorem audited (propext, Classical.choice, Quot.sound at most)",
    "translator translate/cxx2lean_c09.py (clang++-14 typed JSON AST -> Lean: the whole equals if-chain, all 17 getters, "
    "compatibleForCopying, toString, setter table; token-structure readers for the withParameter overloads / explicit methods of both "
    "call classes, hasInputParameter, the setData overloads, the 24 integer return-value readers); its output is ALSO run against "
    "the real functions by the h_c09 correspondence of this run, so a translator bug shows as a diff",
    "clang++-14's AST (implicit conversions) agrees with the g++ build on LP64 (checked by the same correspondence)",
    "hand-written callee models in lean/CppUModel/Model/MockValue.lean (SimpleString(const char*) ==, MemCmp, doubles_equal class "
    "logic, comparator call, the StringFrom/HexStringFrom/StringFromBinary renderings), the hand-written list / repository / "
    "name / setObjectPointer model in Model/MockNamedValueList.lean and the re-written-object / data-store model in "
    "Model/MockData.lean: tied to the code by the h_c09 correspondence and by shape checks (translate/c09_shapes.py: 55 function "
    "bodies; retrieveDataFromStore / getData / hasData; a changed body is reported like a broken obligation)",
    "libc: printf %d/%u/%ld/%lu/%lld/%llu/%x/%lx/%llx/%02X mean decimal / lower- and upper-case hexadecimal (modelled, checked by "
    "the correspondence); the %.6g rendering of a finite double and machine addresses are environment inputs of toString",
    "STRCMP_EQUAL fails the test and does not return exactly when the two strings differ (C03 area)",
    "eqapi / eqapix / dset: the wiring of the C layer is read from C19's regenerated Gen/CMockWiring.lean (translate/extract_cmock.py, "
    "run by this check too); that a call matches an expectation iff hasInputParameter says so for its one parameter (C08 area) is "
    "checked by the correspondence of this run only",
    "IEEE-754 double arithmetic of the hardware for finite operands (fabs(a-b) <= t, symmetric in a and b): same hardware on both "
    "sides of the diff",
]
ASSUMPTIONS = [
    "LP64: int/unsigned 32 bits, long/long long 64 bits, two's complement",
    "custom object type names differ from the 13 built-in type names (Mock.WF / Mock.MVal.Valid); otherwise equals reads an inactive "
    "union member",
    "a memory-buffer value holds size_ readable bytes, a string value is a NUL-terminated C string or NULL (setSize() after "
    "setMemoryBuffer() with a larger size is outside the quantifier)",
    "values are built by the public setters (the union member read is the one the LAST setter call on the object wrote); names in the "
    "data store are C strings",
]
RULE = ("all 36 ordered integer type pairs x the boundary lattice squared (exhaustive in both tiers), plus bit-pattern aliases "
        "(v, v +- 2^32, v +- 2^64 reinterpreted in the other type) of random 64-bit values; every getter on every lattice value and on "
        "random values; non-integer pairs sampled (strings incl. empty/NULL/high bytes, buffers incl. size 0, doubles incl. NaN/+-inf/+-0 "
        "with zero/negative/inf/NaN tolerances, bools, pointers, custom objects with and without comparator) and mixed-type pairs; "
        "toString on every lattice value and sampled values of every type (doubles incl. finite ones above FLT_MAX, buffers of "
        "0/127/128/129/300 bytes), compatibleForCopying pairs, all non-integer getters, names, and stateful histories of the value "
        "list (duplicate names) and of four comparator/copier repositories (install, lookup, import, clear, default switch, object "
        "values created in between); non-trivial = an op on two different types, an alias pair, a getter, a rendering or a "
        "lookup; eqapi: every pair of typed API entry points (C++ withParameter overload, explicit C++ method, C interface; "
        "expectation x actual, 18 x 18) with boundary / same-bits value pairs (thorough: lattice squared), the whole "
        "expect/actual/checkExpectations scenario inside a real test; getret: every lattice value of every integer type "
        "stored with andReturnValue and read back through all 24 integer readers (MockActualCall and mock() level, plain and "
        "...OrDefault), each in a fresh test, plus the no-return-value case; eqapix: every parameter kind (bool, double with the "
        "expectation's explicit or default tolerance, string, the three pointer kinds, memory buffer, integers) through all 3 x 3 entry "
        "points, with value/tolerance triples on which the expectation's tolerance and the default disagree, C bools from arbitrary "
        "non-zero ints, and mixed kinds; data: histories on the data store of mock() (setData overloads / setDataObject / C set...Data, "
        "names re-written in place across kinds and interfaces, comparators installed and removed in between) read back through "
        "every integer getter and compared pairwise, every lattice value of int / unsigned written over an older value; cell: one "
        "MockNamedValue object receiving up to 8 setters (default repository switched in between) compared with a fresh value of "
        "the last setter; distinct = distinct op lists")

RANGE = {
    "int": (-2**31, 2**31 - 1), "uint": (0, 2**32 - 1),
    "long": (-2**63, 2**63 - 1), "ulong": (0, 2**64 - 1),
    "llong": (-2**63, 2**63 - 1), "ullong": (0, 2**64 - 1),
}
INT_KINDS = ["int", "uint", "long", "ulong", "llong", "ullong"]
LATTICE = sorted({-2**63, -2**63 + 1, -2**32 - 1, -2**32, -2**32 + 1, -2**31 - 1, -2**31, -2**31 + 1, -2, -1, 0, 1, 2,
                  2**31 - 2, 2**31 - 1, 2**31, 2**31 + 1, 2**32 - 1, 2**32, 2**32 + 1,
                  2**63 - 1, 2**63, 2**63 + 1, 2**64 - 2, 2**64 - 1})


def in_range(kind, v):
    lo, hi = RANGE[kind]
    return lo <= v <= hi


def lattice_of(kind):
    return [v for v in LATTICE if in_range(kind, v)]


def tok(kind, v):
    return "%s:%d" % (kind, v)


def aliases(v):
    """numbers whose low 32 / 64 bits coincide with those of v (what a wrong cast would confuse with v)"""
    out = {v}
    for m in (2**32, 2**64):
        out.add(v % m)
        out.add(v % m - m)
        out.add(v + m)
        out.add(v - m)
    out.add(-v)
    out.add(v + 1)
    out.add(v - 1)
    return out


def dbits(x):
    return struct.pack(">d", x).hex()


def fbits(h):
    return struct.unpack(">d", bytes.fromhex(h))[0]


NAN = "7ff8000000000000"
NAN2 = "fff0000000000001"   # a signalling-style NaN with the sign bit set
FLT_MAX = 3.4028234663852886e38
# finite doubles above FLT_MAX (and just around it) are in the sample: an isinf/isnan that goes through `float` would
# misclassify them
DVALS = [dbits(x) for x in (0.0, -0.0, 1.0, -1.0, 1.005, 1.0049999, 1.0050001, 0.995, 1e308, -1e308, 1.7976931348623157e308,
                            -1.7976931348623157e308, 5e-324, 2.0, 1.0 + 2**-52, 123456.789, FLT_MAX, -FLT_MAX, 3.5e38, -3.5e38,
                            1e39, 1e39 + 1e24, -1e39, 1e200, 1234567.0, 1e-7, float("inf"), float("-inf"))] + [NAN, NAN2]
DTOLS = [dbits(x) for x in (0.0, 0.005, 0.01, 1.0, -1.0, -0.0, 5e-324, 1e308, 1.7976931348623157e308, 3.5e38, 1e39, 1e24,
                            float("inf"), float("-inf"))] + [NAN]
STRS = ["-", "null", "61", "62", "6162", "616263", "6163", "41", "80", "ff", "7f", "61ff", "6180", "610062", "6100", "00",
        "20", "6162636465666768696a6b6c6d6e6f707172737475767778797a", "6162636465666768696a6b6c6d6e6f707172737475767778797b"]
MEMS = ["-", "00", "01", "ff", "0000", "0001", "00ff", "ff00", "6162", "616263", "616200", "000000", "800000", "7f0000",
        "0102030405060708090a0b0c0d0e0f10", "0102030405060708090a0b0c0d0e0f11", "0202030405060708090a0b0c0d0e0f10"]
OBJ_TYPES = ["CmpMod3", "CmpId", "NoCmp", "Other", "CmpMod3x", "T1", "T2"]


def rand_int(rng, kind):
    lo, hi = RANGE[kind]
    x = rng.random()
    if x < 0.35:
        return rng.choice(lattice_of(kind))
    if x < 0.6:
        v = rng.choice(LATTICE) + rng.randint(-3, 3)
    elif x < 0.8:
        v = rng.randint(-2**63, 2**64 - 1)
    else:
        v = rng.randint(-70000, 70000)
    return min(max(v, lo), hi)


def rand_nonint(rng):
    x = rng.random()
    if x < 0.1:
        return "bool:%d" % rng.randint(0, 1)
    if x < 0.32:
        return "dbl:%s:%s" % (rng.choice(DVALS), rng.choice(DTOLS))
    if x < 0.35:
        return "dbld:%s" % rng.choice(DVALS)
    if x < 0.55:
        if rng.random() < 0.25:
            return "str:" + "".join("%02x" % rng.choice([0x61, 0x62, 0x80, 0xff, 0x20, 0x41]) for _ in range(rng.randint(1, 6)))
        return "str:" + rng.choice(STRS)
    if x < 0.72:
        if rng.random() < 0.25:
            return "mem:" + "".join("%02x" % rng.choice([0, 1, 0x61, 0x80, 0xff]) for _ in range(rng.randint(1, 6)))
        return "mem:" + rng.choice(MEMS)
    if x < 0.88:
        return "%s:%d" % (rng.choice(["ptr", "cptr", "fptr"]), rng.randint(0, 4))
    return "%s:%s:%d" % (rng.choice(["obj", "cobj"]), rng.choice(OBJ_TYPES), rng.randint(0, 7))


def same_kind_partner(rng, t):
    """a value of the same type that is equal / nearly equal to t (interesting branch of the same-type comparison)"""
    w = t.split(":")
    k = w[0]
    if k == "bool":
        return "bool:%d" % rng.randint(0, 1)
    if k == "dbld":
        a = fbits(w[1])
        if a == a and abs(a) < 1e300 and rng.random() < 0.6:
            return "dbld:%s" % dbits(a + rng.choice([0.005, -0.005, 0.0049, 0.0051, 0.0, 1.0]))
        return rng.choice(["dbld:%s" % rng.choice(DVALS), "dbl:%s:%s" % (w[1], rng.choice(DTOLS))])
    if k == "dbl":
        if rng.random() < 0.35:            # a value at (about) the tolerance's distance: the `<=` boundary
            a, t = fbits(w[1]), fbits(w[2])
            if a == a and t == t and abs(a) < 1e300 and abs(t) < 1e300:
                b = a + t * rng.choice([1.0, -1.0, 0.9999999, 1.0000001, -0.9999999, -1.0000001, 0.5, 2.0])
                return "dbl:%s:%s" % (dbits(b), rng.choice(DTOLS))
        return "dbl:%s:%s" % (w[1] if rng.random() < 0.3 else rng.choice(DVALS), rng.choice(DTOLS))
    if k == "str":
        if rng.random() < 0.4:
            return t if w[1] != "null" or rng.random() < 0.5 else "str:-"
        if w[1] not in ("-", "null") and rng.random() < 0.5:
            h = w[1]
            return "str:" + rng.choice([h + "61", h[:-2] or "-", h[:-2] + "%02x" % rng.randint(1, 255), h + "00" + "62"])
        return "str:" + rng.choice(STRS)
    if k == "mem":
        if rng.random() < 0.4:
            return t
        if w[1] != "-" and rng.random() < 0.6:
            h = w[1]
            return "mem:" + rng.choice([h + "00", h[:-2] or "-", h[:-2] + "%02x" % rng.randint(0, 255), "%02x" % rng.randint(0, 255) + h[2:]])
        return "mem:" + rng.choice(MEMS)
    if k in ("ptr", "cptr", "fptr"):
        return "%s:%d" % (k, int(w[1]) if rng.random() < 0.5 else rng.randint(0, 4))
    if k in ("obj", "cobj"):
        return "%s:%s:%d" % (rng.choice(["obj", "cobj"]), w[1] if rng.random() < 0.8 else rng.choice(OBJ_TYPES),
                             int(w[2]) if rng.random() < 0.3 else rng.randint(0, 7))
    return t


def chunks(ops, n):
    return [ops[i:i + n] for i in range(0, len(ops), n)]


def generate(rng, tier):
    out = []
    # 1. exhaustive: every ordered pair of integer types x lattice^2 (each op evaluates both directions)
    ops = []
    for ka in INT_KINDS:
        for kb in INT_KINDS:
            for a in lattice_of(ka):
                for b in lattice_of(kb):
                    ops.append("eq %s %s" % (tok(ka, a), tok(kb, b)))
    for c in chunks(ops, 96):
        out.append(("lattice", c))
    # 2. every getter on every lattice value
    ops = ["get %s" % tok(k, v) for k in INT_KINDS for v in lattice_of(k)]
    for c in chunks(ops, 24):
        out.append(("getlattice", c))
    # 3. random values and their bit-pattern aliases in every other type
    n_alias = 6000 if tier == "quick" else 200000
    ops = []
    while len(ops) < n_alias:
        ka = rng.choice(INT_KINDS)
        a = rand_int(rng, ka)
        kb = rng.choice(INT_KINDS)
        cands = [b for b in aliases(a) if in_range(kb, b)]
        if not cands:
            continue
        b = rng.choice(cands)
        ops.append("eq %s %s" % ((tok(ka, a), tok(kb, b)) if rng.random() < 0.5 else (tok(kb, b), tok(ka, a))))
    for c in chunks(ops, 64):
        out.append(("alias", c))
    # 4. getters on random values
    n_get = 600 if tier == "quick" else 15000
    ops = []
    for _ in range(n_get):
        k = rng.choice(INT_KINDS)
        ops.append("get %s" % tok(k, rand_int(rng, k)))
    for _ in range(n_get // 10):
        ops.append("get %s" % rand_nonint(rng))          # model/code correspondence only (not a stored integer)
    for c in chunks(ops, 24):
        out.append(("getrandom", c))
    # 5. non-integer values: same type (equal / nearly equal / unrelated) and mixed types
    n_non = 4000 if tier == "quick" else 120000
    ops = []
    for _ in range(n_non):
        a = rand_nonint(rng)
        x = rng.random()
        if x < 0.6:
            b = same_kind_partner(rng, a)
        elif x < 0.8:
            b = rand_nonint(rng)
        else:
            k = rng.choice(INT_KINDS)
            b = tok(k, rng.choice([0, 1, 2, 3, 4, rand_int(rng, k)]))
        ops.append("eq %s %s" % ((a, b) if rng.random() < 0.5 else (b, a)))
    # doubles: every value pair with a few tolerances
    for a in DVALS:
        for b in DVALS:
            ts = DTOLS if tier == "thorough" else [rng.choice(DTOLS) for _ in range(2)]
            for t in ts:
                ops.append("eq dbl:%s:%s dbl:%s:%s" % (a, t, b, rng.choice(DTOLS)))
    # same representation, different type
    for k in range(0, 4):
        ops += ["eq ptr:%d cptr:%d" % (k, k), "eq ptr:%d obj:NoCmp:%d" % (k, k), "eq cptr:%d cobj:CmpId:%d" % (k, k),
                "eq int:%d bool:%d" % (k % 2, k % 2), "eq ulong:%d ptr:%d" % (k, k), "eq fptr:%d ptr:%d" % (k, k),
                "eq obj:CmpId:%d obj:CmpMod3:%d" % (k, k), "eq obj:CmpId:%d cobj:CmpId:%d" % (k, k)]
    ops += ["eq str:6162 mem:6162", "eq str:- mem:-", "eq str:null ptr:0", "eq dbl:%s:%s int:0" % (dbits(0.0), dbits(0.005)),
            "eq dbl:%s:%s llong:1" % (dbits(1.0), dbits(0.005))]
    for c in chunks(ops, 64):
        out.append(("nonint", c))
    # 6. the rest of MockNamedValue: toString, compatibleForCopying, the other getters, names
    n_rest = 500 if tier == "quick" else 12000
    ops = ["tostr %s" % tok(k, v) for k in INT_KINDS for v in lattice_of(k)]
    ops += ["tostr bool:0", "tostr bool:1", "tostr str:null", "tostr str:-", "tostr mem:-", "tostr ptr:0", "tostr fptr:0",
            "tostr mem:" + "ab" * 127, "tostr mem:" + "cd" * 128, "tostr mem:" + "ef" * 129, "tostr mem:" + "00" * 300,
            "name - -", "name null null", "name 6162 null", "name 610062 6300", "getx mem:-", "getx str:null", "getx str:-"]
    ops += ["tostr dbl:%s:%s" % (v, DTOLS[1]) for v in DVALS] + ["tostr dbld:%s" % v for v in DVALS[:6]]
    ops += ["getx dbl:%s:%s" % (v, rng.choice(DTOLS)) for v in DVALS] + ["getx dbld:%s" % v for v in DVALS[:4]]
    for _ in range(n_rest):
        y = rng.random()
        a = tok(rng.choice(INT_KINDS), 0) if False else None
        if rng.random() < 0.3:
            k = rng.choice(INT_KINDS)
            a = tok(k, rand_int(rng, k))
        else:
            a = rand_nonint(rng)
        if y < 0.35:
            ops.append("tostr %s" % a)
        elif y < 0.6:
            ops.append("getx %s" % a)
        elif y < 0.9:
            if rng.random() < 0.5:
                b = rand_nonint(rng)
            else:
                b = same_kind_partner(rng, a) if a.split(":")[0] not in RANGE else tok(rng.choice(INT_KINDS), 1)
            ops.append("compat %s %s" % (a, b))
        else:
            nm = lambda: rng.choice(["-", "null", "61", "6162", "6100", "ff80", "70617261 6d".replace(" ", "")])
            ops.append("name %s %s" % (nm(), nm()))
    for k in range(0, 3):
        ops += ["compat ptr:%d cptr:%d" % (k, k), "compat cptr:%d ptr:%d" % (k, k), "compat fptr:%d ptr:%d" % (k, k),
                "compat obj:T1:%d cobj:T1:%d" % (k, k), "compat obj:T1:%d obj:T2:%d" % (k, k), "compat int:%d uint:%d" % (k, k),
                "compat long:%d llong:%d" % (k, k)]
    for c in chunks(ops, 32):
        out.append(("rest", c))
    # 7. stateful histories: the value list (first match wins) and the repositories (install / lookup / import / default)
    n_hist = 60 if tier == "quick" else 1500
    NAMES = ["61", "62", "6162", "-", "6100", "41", "ff", "6161"]
    for _ in range(n_hist):
        ops, added = [], []
        for _ in range(rng.choice([4, 10, 25])):
            y = rng.random()
            if y < 0.35:
                nm = rng.choice(added) if added and rng.random() < 0.4 else rng.choice(NAMES)     # duplicates are frequent
                added.append(nm)
                ops.append("ladd %s %s" % (nm, rand_nonint(rng) if rng.random() < 0.6 else tok("int", rng.randint(-3, 3))))
            elif y < 0.9:
                ops.append("lget %s" % (rng.choice(added) if added and rng.random() < 0.7 else rng.choice(NAMES + ["63", "610063"])))
            elif y < 0.96:
                ops.append("llist")
            else:
                ops.append("lclear")
                added = []
        ops.append("llist")
        out.append(("list", ops))
    for _ in range(n_hist):
        ops = []
        focus_r = [rng.randint(0, 3), rng.randint(0, 3)]
        focus_t = [rng.choice(OBJ_TYPES), rng.choice(OBJ_TYPES)]
        for _ in range(rng.choice([5, 12, 30])):
            y = rng.random()
            r = rng.choice(focus_r) if rng.random() < 0.8 else rng.randint(0, 3)
            t = rng.choice(focus_t) if rng.random() < 0.8 else rng.choice(OBJ_TYPES)
            if y < 0.22:
                ops.append("rcmp %d %s %d" % (r, t, rng.randint(1, 4)))
            elif y < 0.34:
                ops.append("rcop %d %s %d" % (r, t, rng.randint(1, 2)))
            elif y < 0.54:
                ops.append("rget %d %s" % (r, t))
            elif y < 0.62:
                ops.append("rimport %d %d" % (r, rng.choice(focus_r) if rng.random() < 0.7 else rng.randint(0, 3)))
            elif y < 0.65:
                ops.append("rclear %d" % r)
            elif y < 0.73:
                ops.append("rdefault %s" % (str(rng.choice(focus_r)) if rng.random() < 0.6 else rng.choice(["0", "1", "2", "3", "none"])))
            elif y < 0.85:
                a = "%s:%s:%d" % (rng.choice(["obj", "cobj"]), t, rng.randint(0, 7))
                b = "%s:%s:%d" % (rng.choice(["obj", "cobj"]), t if rng.random() < 0.8 else rng.choice(OBJ_TYPES), rng.randint(0, 7))
                ops.append("eq %s %s" % (a, b))
            elif y < 0.93:
                ops.append("getx %s:%s:%d" % (rng.choice(["obj", "cobj"]), t, rng.randint(0, 7)))
            else:
                ops.append("tostr %s:%s:%d" % (rng.choice(["obj", "cobj"]), t, rng.randint(0, 7)))
        out.append(("repo", ops))
    # 8. values entering through every typed entry point of both APIs (C++ overload / explicit C++ method / C interface) on
    #    the expectation and on the actual side: the scenario passes exactly when the two are the same integer
    APIS = ["ovl", "exp", "c"]
    crit = [(2**64 - 1, -1), (2**63, -2**63), (2**32 - 1, -1), (2**31, -2**31), (2**32, 0), (2**64 - 1, 2**64 - 1),
            (2**63, 2**63), (2**63 - 1, 2**63 - 1), (2**32 - 1, 2**32 - 1), (2**31 - 1, 2**31 - 1), (-1, -1), (0, 0),
            (-2**63, -2**63), (-2**31, -2**31), (2**63 + 1, -2**63 + 1), (1, 1)]
    ops = []
    for ea in APIS:
        for ke in INT_KINDS:
            for aa in APIS:
                for ka in INT_KINDS:
                    if tier == "thorough":
                        pairs = [(x, y) for x in lattice_of(ke) for y in lattice_of(ka)]
                    else:
                        pairs = [(x, y) for (x, y) in crit + [(y, x) for (x, y) in crit] if in_range(ke, x) and in_range(ka, y)]
                        pairs = list(dict.fromkeys(pairs))
                        for _ in range(2):
                            x = rng.choice(lattice_of(ke))
                            cands = [y for y in aliases(x) if in_range(ka, y)]
                            pairs.append((x, rng.choice(cands) if cands and rng.random() < 0.7 else rng.choice(lattice_of(ka))))
                    for x, y in pairs:
                        ops.append("eqapi %s.%s:%d %s.%s:%d" % (ea, ke, x, aa, ka, y))
    for c in chunks(ops, 48):
        out.append(("eqapi", c))
    # 8b. every parameter kind through every typed entry point (C++ overload / explicit method / C interface, both sides):
    #     the call matches exactly when the EXPECTATION equals the actual value; doubles: the expectation's tolerance
    #     (explicit or the default 0.005) decides, never the actual side's
    def xtok(api, t, expected):
        w = t.split(":")
        if w[0] == "bool" and api == "c" and rng.random() < 0.6:
            t = "bool:%d" % (rng.choice([1, 2, -1, 256, -2**31, 2**31 - 1, 65536]) if w[1] == "1" else 0)
        if w[0] == "dbl" and not expected:
            t = "dbld:" + w[1]
        return api + "." + t

    def xplain(rng):
        while True:
            t = rand_nonint(rng)
            if t.split(":")[0] not in ("obj", "cobj"):
                return t
    ops = []
    tol_cases = []        # (expected value, expected tolerance, actual value): the two tolerances give different verdicts
    for (v, t, w) in [(1.0, 1.0, 1.5), (1.0, 0.0, 1.004), (1.0, 0.001, 1.004), (100.0, 0.1, 100.05), (0.0, float("inf"), 1e300),
                      (5.0, -1.0, 5.0), (1.0, 0.01, 1.0075), (1.0, 0.004, 1.0045), (2.0, 1e308, -1e300), (1.0, float("nan"), 1.0),
                      (float("inf"), float("inf"), 0.0), (0.0, 0.0, float("inf")), (float("inf"), 0.0, float("inf")),
                      (float("inf"), 1.0, float("-inf")), (float("-inf"), float("inf"), float("inf")), (1.0, 0.005, 1.005),
                      (1.0, 0.005, 1.0050001), (1.0, 5e-324, 1.0), (-0.0, 0.0, 0.0)]:
        tol_cases.append(("dbl:%s:%s" % (dbits(v), dbits(t)), "dbld:%s" % dbits(w)))
    for ea in APIS:
        for aa in APIS:
            for (e, a) in tol_cases:
                ops.append("eqapix %s.%s %s.%s" % (ea, e, aa, a))
            fixed = [("bool:1", "bool:1"), ("bool:0", "bool:1"), ("bool:1", "int:1"), ("int:0", "bool:0"), ("str:6162", "str:6162"),
                     ("str:null", "str:-"), ("str:-", "str:null"), ("str:6162", "str:616263"), ("str:61", "mem:61"), ("mem:6162", "mem:6162"),
                     ("mem:6162", "mem:616200"), ("mem:-", "mem:-"), ("mem:00", "mem:-"), ("ptr:2", "ptr:2"), ("ptr:2", "cptr:2"),
                     ("cptr:2", "ptr:2"), ("cptr:3", "cptr:3"), ("fptr:1", "fptr:1"), ("fptr:1", "fptr:2"), ("fptr:2", "ptr:2"),
                     ("ptr:0", "str:null"), ("ptr:0", "ulong:0"), ("dbld:%s" % dbits(1.0), "int:1"), ("long:1", "dbld:%s" % dbits(1.0)),
                     ("dbld:%s" % dbits(1.0), "dbld:%s" % dbits(1.0049)), ("dbld:%s" % dbits(1.0), "dbld:%s" % dbits(1.0051)),
                     ("dbld:%s" % NAN, "dbld:%s" % NAN), ("ullong:%d" % (2**64 - 1), "llong:-1"), ("uint:7", "llong:7")]
            for (e, a) in fixed:
                ops.append("eqapix %s %s" % (xtok(ea, e, True), xtok(aa, a, False)))
    for _ in range(500 if tier == "quick" else 12000):
        e = xplain(rng)
        y = rng.random()
        a = same_kind_partner(rng, e) if y < 0.7 else (xplain(rng) if y < 0.9 else tok(rng.choice(INT_KINDS), rng.choice([0, 1, 2])))
        if rng.random() < 0.1:
            e, a = a, e
        if a.split(":")[0] in ("obj", "cobj") or e.split(":")[0] in ("obj", "cobj"):
            continue
        ops.append("eqapix %s %s" % (xtok(rng.choice(APIS), e, True), xtok(rng.choice(APIS), a, False)))
    for c in chunks(ops, 48):
        out.append(("eqapix", c))
    # 8c. the data store of mock(): names are re-written in place (integers over other kinds and over objects, objects over
    #     integers, the same name through the C++ and the C interface), then read back through every integer getter / compared
    def dtok(rng, api, types=OBJ_TYPES):
        y = rng.random()
        if y < 0.45:
            k = rng.choice(["int", "uint"])
            return tok(k, rand_int(rng, k))
        if y < 0.55:
            return "bool:%d" % (rng.choice([0, 1, 2, -1, 256]) if api == "c" else rng.randint(0, 1))
        if y < 0.65:
            return "dbld:%s" % rng.choice(DVALS)
        if y < 0.75:
            return "str:" + rng.choice(STRS)
        if y < 0.87:
            return "%s:%d" % (rng.choice(["ptr", "cptr", "fptr"]), rng.randint(0, 4))
        return "%s:%s:%d" % (rng.choice(["obj", "cobj"]), rng.choice(types), rng.randint(0, 7))
    DNAMES = ["61", "62", "6162", "41", "ff", "6100", "610062", "6161", "-"]
    for _ in range(60 if tier == "quick" else 900):
        ops, used = [], []
        focus = [rng.choice(DNAMES) for _ in range(rng.choice([1, 2, 3]))]
        ftypes = [rng.choice(OBJ_TYPES) for _ in range(2)]
        if rng.random() < 0.6:
            ops.append("dinstall %s %d" % (ftypes[0], rng.randint(1, 3)))
        for _ in range(rng.choice([4, 10, 24])):
            y = rng.random()
            nm = rng.choice(focus) if rng.random() < 0.8 else rng.choice(DNAMES)
            if y < 0.45:
                api = rng.choice(["cpp", "c"])
                ops.append("dset %s %s %s" % (api, nm, dtok(rng, api, ftypes if rng.random() < 0.8 else OBJ_TYPES)))
                used.append(nm)
            elif y < 0.72:
                ops.append("dget %s" % (rng.choice(used) if used and rng.random() < 0.8 else nm))
            elif y < 0.84:
                ops.append("deq %s %s" % (rng.choice(used) if used else nm, rng.choice(used) if used and rng.random() < 0.7 else nm))
            elif y < 0.88:
                ops.append("dhas %s" % nm)
            elif y < 0.94:
                ops.append("dinstall %s %d" % (rng.choice(ftypes), rng.randint(1, 4)) if rng.random() < 0.7
                           else "dcopier %s %d" % (rng.choice(OBJ_TYPES), rng.randint(1, 2)))
            elif y < 0.97:
                ops.append("dremove")
            else:
                ops.append("dclear")
                used = []
        for nm in dict.fromkeys(used):
            ops.append("dget %s" % nm)
        out.append(("data", ops))
    # every lattice value of the two integer kinds of the data API over an older value of another kind, C++ and C
    ops = []
    for k in ("int", "uint"):
        for v in lattice_of(k):
            api = rng.choice(["cpp", "c"])
            ops += ["dset %s 78 %s" % (rng.choice(["cpp", "c"]), rng.choice(["obj:CmpId:3", "str:6162", "bool:1", "uint:7", "int:-1", "ptr:2"])),
                    "dset %s 78 %s" % (api, tok(k, v)), "dset cpp 79 int:1", "dget 78"]
    for c in chunks(ops, 32):
        out.append(("data", c))
    # 8d. ONE object written several times (setter histories): what survives a later setter (size_, comparator_, copier_)
    for _ in range(50 if tier == "quick" else 1000):
        ops = []
        for _ in range(rng.choice([3, 8, 16])):
            y = rng.random()
            if y < 0.12:
                ops.append("rdefault %s" % rng.choice(["0", "1", "none", "none"]))
            elif y < 0.2:
                ops.append("rcmp %d %s %d" % (rng.randint(0, 1), rng.choice(OBJ_TYPES), rng.randint(1, 4)))
            elif y < 0.25:
                ops.append("rcop %d %s %d" % (rng.randint(0, 1), rng.choice(OBJ_TYPES), rng.randint(1, 2)))
            else:
                toks = []
                for _ in range(rng.randint(1, 5)):
                    z = rng.random()
                    if z < 0.3:
                        k = rng.choice(INT_KINDS)
                        toks.append(tok(k, rand_int(rng, k)))
                    elif z < 0.55:
                        toks.append("%s:%s:%d" % (rng.choice(["obj", "cobj"]), rng.choice(OBJ_TYPES), rng.randint(0, 7)))
                    elif z < 0.7:
                        toks.append("mem:" + rng.choice(MEMS))
                    else:
                        toks.append(rand_nonint(rng))
                    if rng.random() < 0.3 and len(toks) < 5:
                        toks.append("def:%s" % rng.choice(["0", "1", "none", "none"]))
                if toks[-1].startswith("def:"):
                    toks.append("%s:%s:%d" % (rng.choice(["obj", "cobj"]), rng.choice(OBJ_TYPES), rng.randint(0, 7)))
                ops.append("cell " + " ".join(toks))
        out.append(("cell", ops))
    # the comparator of an earlier object setter survives an object setter made WITHOUT a default repository
    ops = []
    for t1 in ("CmpId", "CmpMod3"):
        for t2 in ("NoCmp", "Other", "CmpId", "T1"):
            k1, k2 = rng.randint(0, 7), rng.randint(0, 7)
            mid = rng.choice(["", " int:%d" % rng.randint(-3, 3), " mem:0102", " str:6162"])
            ops.append("cell def:0 %s:%s:%d%s def:none %s:%s:%d" % (rng.choice(["obj", "cobj"]), t1, k1, mid, rng.choice(["obj", "cobj"]), t2, k2))
            ops.append("eq obj:%s:%d obj:%s:%d" % (t2, k2, t2, k1))
    ops.append("rdefault 0")
    out.append(("cell", ops))
    # 9. return values read back through every integer reader of MockActualCall and of mock() (plain and …OrDefault)
    ops = ["getret %s %d" % (tok(k, v), rng.randint(0, 100)) for k in INT_KINDS for v in lattice_of(k)]
    ops += ["getret none %d" % d for d in (0, 1, 41, 100)]
    for _ in range(80 if tier == "quick" else 3000):
        k = rng.choice(INT_KINDS)
        ops.append("getret %s %d" % (tok(k, rand_int(rng, k)), rng.randint(0, 100)) if rng.random() < 0.95 else "getret none %d" % rng.randint(0, 100))
    for c in chunks(ops, 8):
        out.append(("getret", c))
    # 10. malformed stream: tokens the harness must reject (`> skip`) mixed with valid ones
    bad = ["int:2147483648", "int:-2147483649", "uint:-1", "uint:4294967296", "long:9223372036854775808", "ulong:-1",
           "ulong:18446744073709551616", "llong:-9223372036854775809", "ullong:99999999999999999999999", "int:", "int:abc",
           "int:1.5", "bool:2", "dbl:123", "dbl:zz:zz", "str:6", "str:zz", "mem:0", "ptr:99", "fptr:-1", "obj::1", "obj:A+B:1",
           "obj:int:1", "cobj:bool:0", "obj:double:2", "foo:1", "int", "", ":", "int:0x7fffffff", "ulong:0xffffffffffffffff"]
    n_mal = 40 if tier == "quick" else 400
    for _ in range(n_mal):
        ops = []
        for _ in range(rng.randint(1, 12)):
            a = rng.choice(bad) if rng.random() < 0.6 else (tok("int", rng.randint(-5, 5)) if rng.random() < 0.5 else rand_nonint(rng))
            b = rng.choice(bad) if rng.random() < 0.3 else rand_nonint(rng)
            y = rng.random()
            if y < 0.6:
                ops.append(("eq %s %s" % (a, b)).rstrip())
            elif y < 0.85:
                ops.append(("get %s" % a).rstrip())
            else:
                ops.append(rng.choice(["eq", "get", "eq int:1", "frob int:1 int:1", "eq int:1 int:1 int:1", "tostr", "tostr foo:1",
                                       "compat int:1", "name 6", "name zz -", "ladd null int:1", "ladd 61 int:99999999999", "lget null",
                                       "rcmp 9 T1 1", "rcmp 0 T1 0", "rcmp 0 T1 5", "rcop 0 T1 3", "rcmp 0 int 1", "rget 4 T1",
                                       "rimport 0 7", "rdefault 5", "rclear x", "getx", "dbld:12",
                                       "eqapi ovl.int:1", "eqapi foo.int:1 c.int:1", "eqapi ovl.int:4294967296 c.int:1",
                                       "eqapi c.ullong:-1 c.int:1", "eqapi c.bool:1 c.int:1", "eqapi ovl.int c.int:1",
                                       "eqapix ovl.bool:2 ovl.bool:1", "eqapix c.bool:x c.bool:1", "eqapix ovl.dbld:12 ovl.dbld:12",
                                       "eqapix ovl.dbld:3ff0000000000000 ovl.dbl:3ff0000000000000:3ff0000000000000",
                                       "eqapix zz.str:61 ovl.str:61", "eqapix ovl.str:6 ovl.str:61", "eqapix ovl.obj:T1:1 ovl.obj:T1:1",
                                       "eqapix ovl.ptr:99 ovl.ptr:1", "eqapix ovl.mem:0 c.mem:00", "eqapix ovl.int:1",
                                       "dset cpp 61 long:1", "dset c 61 mem:00", "dset java 61 int:1", "dset cpp null int:1", "dset cpp 61 bool:2",
                                       "dset c 61 bool:2", "dset cpp 61 obj:MockSupport:1", "dset cpp 61 obj:int:1", "dget null", "dget zz", "deq 61",
                                       "dget 61", "deq 61 62", "dinstall T1 9", "dinstall int 1", "dcopier T1 3", "dclear now", "cell",
                                       "cell int:1 foo:2", "cell obj:T1:1 int:99999999999", "cell int:1 mem:0102 uint:3", "cell def:none", "cell int:1 def:9 int:2",
                                       "cell obj:CmpId:1 def:none", "cell def:1 obj:CmpId:1 def:none obj:T1:2",
                                       "getret int:1", "getret int:1 101", "getret int:4294967296 1", "getret bool:1 1", "getret none"]))
        out.append(("malformed", ops))
    return out


def translate(ctx):
    from translate import cxx2lean_c09, extract_cmock
    # Gen/CMockWiring.lean (C19's translator, used unchanged): the C forwarders' callees, read by Model/MockEntry.lean
    return list(extract_cmock.run() or []) + list(cxx2lean_c09.run() or [])


def extra(ctx, exe):
    n = sum(len(lattice_of(a)) * len(lattice_of(b)) for a in INT_KINDS for b in INT_KINDS)
    ctx.rep.exhaustive = {"what": "all 36 ordered integer type pairs x (boundary lattice of each type)^2, both directions; "
                                  "all 6 getters on every lattice value of every type",
                          "lattice": [str(v) for v in LATTICE], "comparisons": 2 * n,
                          "getter_calls": 6 * sum(len(lattice_of(k)) for k in INT_KINDS)}


def _kinds(op):
    w = op.split()
    return [t.split(":")[0] for t in w[1:]]


def nontrivial(r):
    for l in r.impl:
        if l.startswith("> get "):
            return True
        if l.startswith("> eq "):
            k = _kinds(l[2:])
            if len(k) == 2 and k[0] != k[1]:
                return True
        if l.split()[:2][-1] in ("tostr", "compat", "getx", "lget", "rget", "rimport", "eqapi", "eqapix", "getret", "dget", "deq", "cell"):
            return True
    return False


def observe(r, rep):
    cur = None
    for l in r.impl:
        if l.startswith("> "):
            cur = l[2:].split()
            if cur and cur[0] == "skip":
                rep.count("op.rejected_token")
            continue
        w = l.split()
        if not cur or not w:
            continue
        if cur[0] == "eq" and w[0] == "r" and len(cur) == 3:
            ka, kb = cur[1].split(":")[0], cur[2].split(":")[0]
            if ka in RANGE and kb in RANGE:
                rep.count("intpair.%s-%s" % (ka, kb))
                try:
                    a, b = int(cur[1].split(":")[1]), int(cur[2].split(":")[1])
                except ValueError:
                    continue
                if a == b:
                    rep.count("int.same_integer" + ("_across_types" if ka != kb else ""))
                elif (a - b) % 2**32 == 0:
                    rep.count("int.differs_but_low32_bits_alias" if (a - b) % 2**64 else "int.differs_but_64_bits_alias")
                else:
                    rep.count("int.different")
            elif ka == kb or (ka in ("obj", "cobj") and kb in ("obj", "cobj")):
                rep.count("same_type.%s.%s" % (ka if ka != "cobj" else "obj", "equal" if w[1] == "1" else "unequal"))
                if ka == "dbl":
                    p = cur[1].split(":") + cur[2].split(":")
                    if any(x.startswith("7ff8") or x.startswith("fff00000000000001"[:16]) for x in (p[1], p[4])):
                        rep.count("dbl.nan_operand")
                    if p[2].startswith("7ff8"):
                        rep.count("dbl.nan_tolerance")
                    if p[1][1:] == "ff0000000000000" or p[4][1:] == "ff0000000000000":
                        rep.count("dbl.infinite_operand")
            else:
                rep.count("mixed_types")
        elif cur[0] in ("get", "getx") and len(w) >= 2:
            rep.count("getter.%s.%s" % (w[0], w[1]))
        elif cur[0] == "tostr" and w[0] == "s" and len(cur) == 2:
            rep.count("toString.%s" % cur[1].split(":")[0].replace("cobj", "obj"))
        elif cur[0] == "eqapi" and w[0] == "p" and len(cur) == 3:
            e, a = cur[1].split(":")[0].split("."), cur[2].split(":")[0].split(".")
            rep.count("eqapi.%s-%s.%s" % (e[0], a[0], "pass" if w[1] == "1" else "fail"))
            if int(cur[1].split(":")[1]) != int(cur[2].split(":")[1]) and (int(cur[1].split(":")[1]) - int(cur[2].split(":")[1])) % 2**32 == 0:
                rep.count("eqapi.same_bits_different_integer")
        elif cur[0] == "eqapix" and w[0] == "p" and len(cur) == 3:
            e, a = cur[1].split(":"), cur[2].split(":")
            ek, ak = e[0].split(".")[1], a[0].split(".")[1]
            rep.count("eqapix.%s-%s.%s" % (ek, ak, "pass" if w[1] == "1" else "fail"))
            rep.count("eqapix.entries.%s-%s" % (e[0].split(".")[0], a[0].split(".")[0]))
            if ek == "dbl" and ak == "dbld":
                try:
                    v, t, x = fbits(e[1]), fbits(e[2]), fbits(a[1])
                    own = (abs(v - x) <= t) if v == v and x == x and t == t else False
                    dflt = (abs(v - x) <= 0.005) if v == v and x == x else False
                    if own != dflt:
                        rep.count("eqapix.dbl.expectation_tolerance_and_default_disagree")
                except (ValueError, OverflowError):
                    pass
            if ek == "bool" and e[0].startswith("c.") and e[1] not in ("0", "1"):
                rep.count("eqapix.c_bool_from_other_nonzero_int")
        elif cur[0] == "dget" and w[0] in ("getIntValue", "getUnsignedIntValue", "getLongIntValue", "getUnsignedLongIntValue",
                                            "getLongLongIntValue", "getUnsignedLongLongIntValue"):
            rep.count("data.getter.%s" % w[1])
        elif cur[0] == "dget" and w[0] == "cmp":
            rep.count("data.read_%s" % ("with_stale_or_live_comparator" if w[1] != "0" else "plain"))
        elif cur[0] == "deq" and w[0] == "r":
            rep.count("data.equals.%s%s" % (w[1], w[2]))
        elif cur[0] == "cell" and w[0] == "cmp" and len(cur) >= 2:
            vals = [t for t in cur[1:] if not t.startswith("def:")]
            last = vals[-1].split(":")[0] if vals else ""
            if "def:none" in cur and last in ("obj", "cobj") and w[1] != "0":
                i = max(j for j, t in enumerate(cur) if t == "def:none")
                if not any(t.startswith("def:") for t in cur[i + 1:]):
                    rep.count("cell.object_set_without_repository_keeps_older_comparator")
            rep.count("cell.last_%s.comparator_%s" % ("object" if last in ("obj", "cobj") else "plain", "set" if w[1] != "0" else "none"))
            rep.count("cell.setters_%d" % len(vals))
        elif cur[0] == "cell" and w[0] == "size" and cur[-1].split(":")[0] != "mem" and w[1] != "0":
            rep.count("cell.size_survives_later_setter")
        elif cur[0] == "getret" and len(w) >= 2 and "." in w[0]:
            rep.count("retreader.%s.%s" % ("orDefault" if "OrDefault" in w[0] else "plain", w[1] if cur[1] != "none" else "none_" + w[1]))
        elif cur[0] == "compat" and w[0] == "c":
            rep.count("compatibleForCopying.%s%s" % (w[1], w[2]))
        elif cur[0] == "lget" and w[0] == "item":
            rep.count("list.lookup_%s" % ("miss" if w[1] == "none" else "hit"))
        elif cur[0] == "rget" and w[0] == "got":
            rep.count("repo.lookup_cmp_%s_cop_%s" % ("hit" if w[1] != "0" else "miss", "hit" if w[2] != "0" else "miss"))
        elif cur[0] in ("ladd", "rcmp", "rcop", "rimport", "rclear", "rdefault", "name", "llist", "dset", "dhas", "dinstall"):
            pass


def signature(r):
    """stable class of a failing case: op, the value types involved and what went wrong (no numbers)"""
    if r.crash:
        return "crash:" + (r.crash.split()[1] if len(r.crash.split()) > 1 else "crash")
    if r.spec and r.spec.startswith("spec FAIL"):
        m = re.match(r"spec FAIL op#\d+ (\w+)((?: \S+)*): (.*)$", r.spec)
        if not m:
            return "spec:" + re.sub(r"\d+", "N", r.spec[10:])[:120]
        kinds = "-".join(t.split(":")[0] for t in m.group(2).split())
        what = m.group(3)
        if m.group(1) == "getret":       # class = the reader and the kind of error
            r = re.match(r"([\w.]+)(\(\d+\))? (returned|failed)", what)
            return "spec:getret:%s:%s" % (r.group(1), "wrong number" if r.group(3) == "returned" else "failed without a return value") \
                if r else "spec:getret:" + re.sub(r"-?\d+", "N", what)[:80]
        if m.group(1) == "eqapi":        # class = the two entry points and the direction of the error
            kinds = "-".join(t.split(".")[0] for t in m.group(2).split())
            what = what.split(":")[0]
        g = re.match(r"(\w+)\(\) returned", what)
        if g:
            what = g.group(1) + " returned a different number"
        else:
            what = re.sub(r"-?\d+", "N", what)
        return "spec:%s:%s:%s" % (m.group(1), kinds, what)
    if not r.agree:
        return "diff"
    return ""


LEVEL_TEXT = ("Machine-checked Lean 4 theorems, for ALL values (every 32/64-bit pattern, every byte string), about a model of "
              "MockNamedValue::equals, all getters and the call site MockCheckedExpectedCall::hasInputParameter that is REGENERATED from "
              "the current source through clang's typed AST on every run: equals IS the property's specification function on every "
              "ordered pair of the 14 value types (equals_eq_spec): the 36 ordered integer type pairs compare equal exactly when they "
              "denote the same integer; integer vs non-integer and different non-integer types never compare equal; bool/pointer "
              "identity, string content, buffer length+content, doubles by the left operand's (= the expectation's) tolerance with NaN "
              "equal to nothing; symmetry for ALL type pairs with exactly the two stated exceptions (two doubles: left tolerance; two "
              "objects: left comparator), each with a witness; every integer getter returns exactly the stored integer or fails, also "
              "through the 24 return-value readers and after any history of writes to the data store of mock() (whole-history "
              "refinement: last write per name). The generated functions and the hand-written callee models are run against the real "
              "code (ASan/UBSan) on the exhaustive boundary lattice and on sampled values in every run, and the implementation's own "
              "answers are judged by an independent oracle.")
LEVEL_NOTE = ("Also proved (same regenerated model + hand-written list/repository/cell/store model): every typed entry point of the "
              "mock API, for every parameter kind and on both sides (C++ withParameter overload, explicit method, C interface: tables "
              "regenerated from the headers/sources and from C19's Gen.CMock), stores exactly its argument under its own type; a "
              "tolerance can only be given on the expectation and is the one used; an object written several times shows the last "
              "setter's value while size_/comparator_/copier_ survive (stated as the code behaves); toString of every kind; "
              "compatibleForCopying; list: first added value of a name wins; repository: latest install wins, import reverses. "
              "Proved: all integer/type-dispatch logic and the wiring tables. Observed only (correspondence + oracle on sampled "
              "inputs): that the callee models (StrCmp/MemCmp loops, doubles_equal class logic, hardware double arithmetic, comparator "
              "dispatch, list and store loops) and the translator's reading of the AST agree with the compiled code; that a call matches "
              "iff hasInputParameter says so. Trusted: Lean kernel, clang's AST, STRCMP_EQUAL semantics, LP64.")
TECHNIQUE = ("Lean 4 proofs over BitVec (toInt/toNat + omega, no bv_decide) about a model regenerated from the clang AST "
             "(cxx2lean) + differential correspondence harness + independent specification oracle")
