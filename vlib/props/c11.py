"""C11 — separate-process mode contains every way a test can die: generator and settings."""
import os, re

ID = "C11"
HARNESS = "h_c11"
KEEP_FIRST = 1
HARNESS_TIMEOUT = 1800

TRUSTED = [
    "Lean 4 kernel; axioms of every theorem audited (propext, Classical.choice, Quot.sound at most)",
    "translator translate/cxx2lean_c11.py: clang++-14 typed JSON AST of SetTestFailureByStatusCode and "
    "GccPlatformSpecificRunTestInASeperateProcess (wait-status macros, EINTR, WUNTRACED, SIGCONT as the installed headers expand "
    "them) executed symbolically into Gen/SeparateProcessLoop.lean (setTestFailureGen, forkFailedGen, childExitGen, waitBodyGen on "
    "BitVec 32 / BitVec 64); its case split of the environment (fork: -1 / 0 / pid; waitpid: EINTR / other error / pid + status) "
    "and its C-to-BitVec typing are trusted, its output is proved equal to the hand model and executed by the driver next to it",
    "hand-written model lean/CppUModel/Model/SeparateProcess.lean (registry loop, child steps, -p path, fork-less build; the wait "
    "loop and status decoding are now proved equal to the regenerated function), tied to the code by the h_c11 correspondence of "
    "this run (stubbed fork/waitpid seams and real children, incl. the wait status each real child ended with)",
    "the statement list of CommandLineTestRunner::initializeTestRun regenerated as Gen initStatements (switch, spelled `else if`); "
    "shape checks of CommandLineArguments::parse (-p) and CommandLineTestRunner::runAllTests",
    "argument vector -> configuration: property C12's parser model CommandLine.parse, used read-only "
    "(Model/SeparateProcessArgv.lean); tied here by the command-line cases of this run (repeat / shuffle options in every "
    "spelling and order next to -p, repeated runs checked repetition by repetition) and to the source by C12's own check",
    "extractor translate/extract_sepproc.py: retry bound and fork/waitpid/EINTR messages read off the regenerated loop, the "
    "if/else-if chain of SetTestFailureByStatusCode as a table, position of the per-test flag in TestRegistry::runAllTests; shape "
    "checks of the fork-less variant, the two seam implementations, UtestShell::runOneTest, TestResult::addFailure/countRun",
    "real-process part calls the tree's own PlatformSpecificFork/WaitPid implementations (saved seam pointers), incl. a scenario "
    "with a 1-2 ms POSIX timer signal handled without SA_RESTART while a child sleeps 400-500 ms",
    "a scenario in which the tree's real fork fails with EAGAIN (case process: setuid 65534 + RLIMIT_NPROC 0; skipped with "
    "`forkfail unsupported` where the environment cannot produce the failure)",
    "fork/waitpid/kill, signal delivery and the encoding of the status word are the kernel's and glibc's: the theorems cover "
    "every sequence of results the parent can be given, part (b) of the harness observes real children",
    "the textbook reading of a status word (Spec.classify) used by theorems and oracle",
]
ASSUMPTIONS = [
    "LP64 Linux/glibc: int is 32 bits, <bits/waitstatus.h> macro definitions, signals 1..31",
    "waitpid returns either -1 or the child's pid (no WNOHANG), so a non-error return is the awaited child",
    "failure and run counters of the registry do not wrap (size_t modelled as Nat); the retry counter and the child's two "
    "failure counts are 64-bit words in the regenerated function (theorems: counter never exceeds bound+1; counts below 2^64)",
    "arithmetic right shift of a negative int (implementation-defined in C) is what gcc/clang do; it is only applied to masked, "
    "non-negative values here (proved: gen_exitstatus)",
    "SIGTSTP/SIGTTIN/SIGTTOU raised by a child in an orphaned process group are discarded by the kernel instead of stopping it: "
    "the oracle accepts zero or one stop event for them, consistent with what waitpid reported",
    "ASan's own handlers for SIGSEGV/SIGBUS/SIGFPE are reset to SIG_DFL by the child before it raises the signal "
    "(otherwise ASan turns the signal into exit(77), a non-zero exit, which is also recorded once)",
]
RULE = ("registries of 1..12 tests in one or several groups (dying tests also 2nd..4th of their group; entries of kind "
        "IgnoredUtestShell with dying bodies, run-ignored on through the API or -ri, or off), separate-process mode "
        "set through the registry API or through CommandLineTestRunner with -p combined with every subset/order of the switches that do not change which tests run (-c -v -vv -ojunit -oteamcity -r1 -b -s<seed> -ri and filters that select everything) and with the repeat / shuffle options in every spelling and order (bare -r / -s directly in front of -p, -r2, -r 2, -r 3, -s 2, ...: the run is repeated, every repetition is checked); a second harness build without "
        "fork/waitpid/kill; per test either a scripted fork/waitpid outcome list "
        "(exit codes, signals with and without core flag, stops, continued-style words, EINTR runs around the retry bound, "
        "waitpid errors, fork failure, trailing results after the child's end, scripts that never end) or a real child that "
        "dies by a signal / _exit(n) / failed check / SIGSTOP in setup, body, teardown or a plugin pre/post action (a plugin "
        "action reporting 1, 2, 255, 256, 257 failures into a result that already holds failures of earlier tests), optionally "
        "with injected EINTR; non-trivial = at least one failure recorded or one retry; distinct = distinct op sequences. "
        "thorough: all 65536 16-bit status words, every EINTR run 0..40 before and after a stop, every signal 1..31 and exit "
        "status 0..255 in every phase")

def retry_bound():
    """the bound the source currently states (regenerated constant), so that the generator keeps hitting the edge"""
    try:
        path = os.path.join(os.path.dirname(os.path.dirname(os.path.dirname(os.path.abspath(__file__)))),
                            "lean", "CppUModel", "Gen", "SeparateProcessConstants.lean")
        m = re.search(r"def retryBound : Nat := (\d+)", open(path).read())
        return min(int(m.group(1)), 200)
    except Exception:
        return 30


def eintr_edge():
    b = retry_bound()
    return sorted(set([0, 1, 2, 7, max(b - 1, 0), b, b + 1, b + 2, b + 3, b + 4, b + 10]))


SIGS_TERM = [1, 2, 3, 4, 5, 6, 7, 8, 9, 10, 11, 12, 13, 14, 15, 16, 24, 25, 26, 27, 29, 30, 31]
PHASES = ["pre", "setup", "body", "teardown", "post"]
ERRNOS = [0, 1, 3, 10, 22, 5, 11, 12]


def st_exit(code, rng=None):
    w = (code & 0xff) << 8
    if rng is not None and rng.random() < 0.2:
        w |= rng.randrange(1, 1 << 16) << 16            # bits 16.. are ignored by every macro
    return w


def st_sig(n, core=False):
    return (n & 0x7f) | (0x80 if core else 0)


def st_stop(sig):
    return ((sig & 0xff) << 8) | 0x7f


def term_word(rng):
    x = rng.random()
    if x < 0.3:
        return st_exit(0, rng)
    if x < 0.55:
        return st_exit(rng.choice([1, 2, 3, 77, 78, 127, 128, 255, rng.randrange(1, 256)]), rng)
    if x < 0.9:
        return st_sig(rng.choice([rng.randrange(1, 32), rng.randrange(1, 127), 9, 11, 6, 126, 64]), rng.random() < 0.3)
    return rng.randrange(0, 1 << 16) & ~0x7f            # exited with random upper byte and bit 7 clear... low 7 bits 0


def nonterm_word(rng):
    x = rng.random()
    if x < 0.75:
        return st_stop(rng.choice([19, 20, 21, 22, 5, rng.randrange(0, 256)]))
    if x < 0.9:
        return rng.choice([0xffff, 0x00ff, 0x13ff, (rng.randrange(0, 256) << 8) | 0xff])
    return st_stop(19) | (rng.randrange(1, 1 << 16) << 16)


def script(rng, t):
    """op lines for one stubbed test"""
    ops = []
    x = rng.random()
    if x < 0.07:
        ops.append("fork %d fail" % t)
        if rng.random() < 0.5:
            ops.append("w %d st %x" % (t, term_word(rng)))
        return ops
    # prefix of things that keep the parent waiting
    budget = 0
    for _ in range(rng.choice([0, 0, 0, 1, 1, 2, 3, 5])):
        y = rng.random()
        if y < 0.5:
            n = rng.choice(eintr_edge()) if rng.random() < 0.5 else rng.randrange(0, 12)
            ops += ["w %d eintr" % t] * n
            budget += n
        else:
            ops.append("w %d st %x" % (t, nonterm_word(rng)))
    z = rng.random()
    if z < 0.72:
        ops.append("w %d st %x" % (t, term_word(rng)))
    elif z < 0.84:
        ops.append("w %d err %d" % (t, rng.choice(ERRNOS)))
    elif z < 0.92:
        ops.append("w %d st %x" % (t, rng.randrange(0, 1 << 16)))
    # else: nothing ends the script (the harness answers exit 0 and flags `starved`)
    for _ in range(rng.choice([0, 0, 0, 1, 2])):         # results after the end: must not be consumed
        ops.append(rng.choice(["w %d eintr" % t, "w %d st %x" % (t, term_word(rng)), "w %d st %x" % (t, nonterm_word(rng)),
                               "w %d err 10" % t]))
    return ops


CLI_OTHER = ["-c", "-v", "-vv", "-ojunit", "-oteamcity", "-r1", "-b", "-ri", "-gg", "-nt", "-xgZZZ", "-xnZZZ"]


# the repeat and shuffle options in every spelling: the optional count / seed glued, as an argument of its own, or
# absent (then whatever follows -- e.g. `-p` -- is NOT their value)
REPEAT_FORMS = [["-r"], ["-r"], ["-r"], ["-r2"], ["-r", "2"], ["-r3"], ["-r", "1"], ["-r", "3"]]
SHUFFLE_FORMS = [["-s"], ["-s"], ["-s", "2"], ["-s", "1"], ["-s", "3"]]


def cli_line(rng, repeats=True):
    """`-p` combined with a random subset, in random order, of the switches that do not change which tests run;
    repeats: also the repeat / shuffle options with a separate or missing count (a word group stays together)"""
    groups = [[a] for a in CLI_OTHER if rng.random() < 0.3]
    if rng.random() < 0.25:
        groups.append(["-s%d" % rng.randrange(1, 99999)])
    if repeats and rng.random() < 0.3:
        groups.append(list(rng.choice(REPEAT_FORMS)))
    if repeats and rng.random() < 0.12:
        groups.append(list(rng.choice(SHUFFLE_FORMS)))
    rng.shuffle(groups)
    while sum(len(g) for g in groups) > 9:
        groups.pop()
    groups.insert(rng.randrange(len(groups) + 1), ["-p"])
    if rng.random() < 0.1 and sum(len(g) for g in groups) < 10:
        groups.insert(rng.randrange(len(groups) + 1), ["-p"])         # given twice
    return "cli " + " ".join(a for g in groups for a in g)


def cli_repeat_cases(rng):
    """the order and spelling of -r / -s next to -p: a bare `-r` / `-s` directly in front of `-p` (the option's optional
    value is absent: `-p` is the -p option), the other orders and spellings, with further switches in between; a small
    registry in which a test dies, so that a lost `-p` is the runner's death"""
    combos = [["-r", "-p"], ["-p", "-r"], ["-r2", "-p"], ["-r", "2", "-p"], ["-p", "-r", "2"], ["-r", "-ri", "-p"],
              ["-s", "-p"], ["-p", "-s"], ["-s", "2", "-p"], ["-r", "-s", "-p"], ["-s", "-r", "-p"], ["-r", "3", "-p"],
              ["-r", "1", "-p"], ["-r", "-b", "-p"], ["-b", "-r", "-p"], ["-r", "-p", "-ojunit"], ["-v", "-r", "-p", "-c"],
              ["-r", "-r", "-p"], ["-r1", "-r", "-p"], ["-r", "-p", "-r1"], ["-oteamcity", "-r", "-p"], ["-r", "-p", "-p"]]
    for _ in range(6):
        k = [[a] for a in rng.sample(CLI_OTHER, 2)]
        k.insert(rng.randrange(3), rng.choice([["-r", "-p"], ["-s", "-p"], ["-r", "-p"]]))
        combos.append([a for g in k for a in g])
    out = []
    for i, c in enumerate(combos):
        dying = rng.choice(["signal 11", "signal 9", "exit 3", "signal 6", "signal 15"])
        if i % 3 == 2:
            ops = ["tests 4", "cli " + " ".join(c), "real 0 body none 0", "ign 1", "real 1 body %s" % dying,
                   "w 2 st %x" % rng.choice([st_sig(11), st_exit(2), 0]), "real 3 %s fail 0" % rng.choice(PHASES), "run"]
        else:
            ops = ["tests 3", "cli " + " ".join(c), "real 0 body none 0",
                   "real 1 %s %s" % (rng.choice(PHASES), dying), "real 2 body none 0", "run"]
        out.append(ops)
    return out


def cli_pairs_cases(rng):
    """every other switch next to -p, in both orders, and a few triples: a small registry whose second test kills itself"""
    combos = []
    for a in CLI_OTHER + ["-s%d" % rng.randrange(1, 9999)]:
        combos.append([a, "-p"])
        combos.append(["-p", a])
    for _ in range(8):
        k = rng.sample(CLI_OTHER, 3)
        k.insert(rng.randrange(4), "-p")
        combos.append(k)
    out = []
    for c in combos:
        ops = ["tests 3", "cli " + " ".join(c), "real 0 body none 0",
               "real 1 %s %s" % (rng.choice(PHASES), rng.choice(["signal 11", "signal 9", "exit 3", "signal 6"])),
               "real 2 body none 0", "run"]
        out.append(ops)
    return out


def group_lines(rng, n):
    """adjacent tests with the same group name form a group: one group for all (no lines), a few
    groups of several tests, or every test its own group"""
    x = rng.random()
    if x < 0.4:
        return []
    if x < 0.55:
        return ["grp %d %d" % (t, t) for t in range(n)]
    g, out = 0, []
    for t in range(n):
        if t and rng.random() < 0.35:
            g += 1
        out.append("grp %d %d" % (t, g if rng.random() < 0.9 else rng.randrange(0, 3)))
    return out


def ignored_case(rng, i):
    """registry entries of kind IgnoredUtestShell (IGNORE_TEST) with dying bodies, in separate-process mode, with run-ignored
    on (API `ri` or `-ri` on the command line: they must be forked and contained like every test) or off (not run at all);
    test 0 is always an ordinary test"""
    n = rng.choice([3, 4, 5])
    ops = ["tests %d" % n] + group_lines(rng, n)
    ri = i % 4 != 3
    if i % 2:
        others = [a for a in CLI_OTHER if a != "-ri" and rng.random() < 0.2]
        if ri:
            others.append("-ri")
        rng.shuffle(others)
        others.insert(rng.randrange(len(others) + 1), "-p")
        ops.append("cli " + " ".join(others[:10]))
    elif ri:
        ops.append("ri")
    ign = set(rng.sample(range(1, n), rng.choice([1, min(2, n - 1)])))
    for t in range(n):
        if t in ign:
            ops.append("ign %d" % t)
            x = rng.random()
            if x < 0.5:
                acts = [("signal", rng.choice([9, 11, 6, 15, 8, rng.choice(SIGS_TERM)]))]
            elif x < 0.75:
                acts = [("exit", rng.choice([1, 7, 77, 255]))]
            elif x < 0.85:
                acts = [("stop", 0), ("exit", rng.choice([0, 3]))]
            elif x < 0.95:
                acts = [("fail", 0)]
            else:
                acts = [("none", 0)]
            if rng.random() < 0.8:
                ops.append("real %d %s %s" % (t, rng.choice(["setup", "body", "teardown"]), " ".join("%s %d" % a for a in acts)))
            else:
                ops.append("w %d st %x" % (t, rng.choice([st_sig(9), st_exit(7), 0, st_sig(11, True)])))
        elif rng.random() < 0.4:
            ops.append("w %d st %x" % (t, rng.choice([0, 0, st_exit(1), st_sig(6)])))
        else:
            ops.append("real %d body %s" % (t, rng.choice(["none 0", "none 0", "exit 2", "signal 15"])))
    ops.append("run")
    return ops


def stub_case(rng):
    n = rng.choice([1, 2, 3, 3, 4, 6])
    ops = ["tests %d" % n] + group_lines(rng, n)
    if n > 1 and rng.random() < 0.12:                      # an IGNORE_TEST entry among them, mostly with run-ignored
        ops.append("ign %d" % rng.randrange(1, n))
        if rng.random() < 0.7:
            ops.append("ri")
    elif rng.random() < 0.15:
        ops.append(cli_line(rng))
    per = [script(rng, t) for t in range(n)]
    if rng.random() < 0.3:                                # interleave the lines of different tests (order per test kept)
        rest = [list(p) for p in per if p]
        while rest:
            i = rng.randrange(len(rest))
            ops.append(rest[i].pop(0))
            if not rest[i]:
                rest.pop(i)
    else:
        for p in per:
            ops += p
    ops.append("run")
    return ops


def word_cases(words, per_case=256):
    out = []
    for i in range(0, len(words), per_case):
        chunk = words[i:i + per_case]
        ops = ["tests %d" % len(chunk)]
        for t, w in enumerate(chunk):
            ops.append("w %d st %x" % (t, w))
            ops.append("w %d st 0" % t)
        ops.append("run")
        out.append(ops)
    return out


def eintr_grid(pairs, rng):
    """[EINTR x a, stop, EINTR x b, end] — the retry counter is not reset by a successful wait"""
    out = []
    chunk = []
    for a, b in pairs:
        chunk.append((a, b))
        if len(chunk) == 16:
            out.append(chunk); chunk = []
    if chunk:
        out.append(chunk)
    cases = []
    for ch in out:
        ops = ["tests %d" % len(ch)]
        for t, (a, b) in enumerate(ch):
            ops += ["w %d eintr" % t] * a
            ops.append("w %d st %x" % (t, st_stop(19)))
            ops += ["w %d eintr" % t] * b
            ops.append("w %d st %x" % (t, rng.choice([0, st_exit(1), st_sig(11), st_sig(9, True)])))
        ops.append("run")
        cases.append(ops)
    return cases


def eintr_runs(rng):
    top = retry_bound() + 11                              # 0..40 for the bound 30
    ops = ["tests %d" % (2 * top)]
    for n in range(top):
        ops += ["w %d eintr" % n] * n
        ops.append("w %d st %x" % (n, rng.choice([0, st_exit(3), st_sig(15)])))
    for n in range(top):
        ops += ["w %d eintr" % (top + n)] * n             # nothing after the run
    ops.append("run")
    return ops


def real_case(rng, dying):
    """dying: list of (phase, [(action, arg)], inject) ; normal tests before, between and after"""
    tests = []
    tests.append(("body", [("none", 0)], 0))
    for d in dying:
        tests.append(d)
        tests.append(("body", [("none", 0)], 0))
    ops = ["tests %d" % len(tests)] + group_lines(rng, len(tests))
    if rng.random() < 0.3:
        ops.append(cli_line(rng))
    for t, (ph, acts, inj) in enumerate(tests):
        ops.append("real %d %s %s" % (t, ph, " ".join("%s %d" % a for a in acts)))
        if inj:
            ops.append("inj %d %d" % (t, inj))
    ops.append("run")
    return ops


def forkfail_case(rng, i):
    """every fork of the tree's own PlatformSpecificFork implementation fails with EAGAIN: one 'fork failed' failure
    per real test, every test started, the runner returns (a fork retried forever is a hang -> deadline)"""
    n = rng.choice([2, 3, 4])
    ops = ["tests %d" % n, "nproc0"] + group_lines(rng, n)
    if i % 3 == 1:
        ops.append(cli_line(rng))
    for t in range(n):
        if t and rng.random() < 0.25:
            ops.append("w %d st %x" % (t, rng.choice([0, st_sig(9), st_exit(1)])))       # stubbed seam: unaffected
        else:
            ops.append("real %d %s %s" % (t, rng.choice(PHASES), " ".join("%s %d" % a for a in rand_action(rng))))
    ops.append("run")
    return ops


def ticked_case(rng, i):
    """the parent's wait for a sleeping child is interrupted every 1-2 ms for 400-500 ms (>= 200 deliveries where
    bound+2 = 32 are enough to give up); controls: a child that ends after a few interruptions only must NOT be lost"""
    ops = ["tests 4"]
    if i % 2:
        ops.append(cli_line(rng, repeats=False))
    ops.append("real 0 body none 0")
    ops.append("real 1 %s sleep %d" % (rng.choice(["setup", "body", "teardown"]), rng.choice([400, 450, 500])))
    ops.append("tick 1 %d" % rng.choice([1000, 1500, 2000]))
    ops.append("real 2 body sleep %d" % rng.choice([3, 5, 8]))          # a handful of interruptions, then a normal exit
    ops.append("tick 2 %d" % rng.choice([1000, 2000]))
    ops.append("real 3 body %s" % rng.choice(["none 0", "signal 11", "exit 2"]))
    ops.append("run")
    return ops


def grouped_case(rng, cli=False):
    """several groups of several tests; the tests that die are never the first of their group"""
    sizes = [rng.choice([2, 3, 4]) for _ in range(rng.choice([1, 2, 3]))]
    n = sum(sizes)
    ops = ["tests %d" % n]
    if cli:
        ops.append(cli_line(rng))
    t = 0
    for g, size in enumerate(sizes):
        dying = set(rng.sample(range(1, size), rng.choice([1, min(2, size - 1)])))
        for k in range(size):
            ops.append("grp %d %d" % (t, g))
            if k in dying:
                x = rng.random()
                if x < 0.45:
                    acts = [("signal", rng.choice(SIGS_TERM))]
                elif x < 0.7:
                    acts = [("exit", rng.choice([1, 2, 3, 77, 255, rng.randrange(1, 256)]))]
                elif x < 0.85:
                    acts = [("stop", 0)] + rng.choice([[], [("signal", 9)], [("exit", 5)]])
                else:
                    acts = [("fail", 0)]
                ops.append("real %d %s %s" % (t, rng.choice(PHASES), " ".join("%s %d" % a for a in acts)))
            elif rng.random() < 0.3:
                ops.append("w %d st %x" % (t, rng.choice([0, st_exit(1), st_sig(6)])))
            else:
                ops.append("real %d body none 0" % t)
            t += 1
    ops.append("run")
    return ops


def rand_action(rng):
    x = rng.random()
    if x < 0.35:
        return [("signal", rng.randrange(1, 32))]
    if x < 0.55:
        return [("exit", rng.choice([0, 1, 2, 77, 78, 255, rng.randrange(0, 256)]))]
    if x < 0.7:
        return [("fail", rng.choice([0, 0, 0, 1, 2, 254, 255, 256]))]     # K+1 failures when reported by a plugin action
    if x < 0.85:
        return [("stop", 0)] * rng.choice([1, 1, 2]) + rng.choice([[], [("signal", rng.choice(SIGS_TERM))], [("exit", rng.randrange(0, 4))], [("fail", 0)]])
    return [("none", 0)]


def child_count_cases(rng, quick):
    """the child's verdict is `new failures?`, not a count: plugin actions that report 1, 2, 255, 256, 257 failures
    (an exit status is 8 bits wide), in a result object that already holds failures of earlier tests; every such
    child must arrive as exactly one failure, and a clean child after them as none"""
    out = []
    ks = [0, 1, 254, 255, 256] if quick else [0, 1, 2, 3, 127, 253, 254, 255, 256, 257, 511, 767]
    for ph in ("pre", "post"):
        for k in ks:
            prior = rng.choice([0, 1, 2, 3])
            tests = []
            for _ in range(prior):
                tests.append(rng.choice(["real %d body fail 0", "real %d setup signal 11", "real %d post fail 1", "real %d body exit 3"]))
            tests.append("real %%d %s fail %d" % (ph, k))
            tests.append("real %d body none 0")
            tests.append("real %%d %s fail %d fail 0" % (rng.choice(["pre", "post"]), rng.choice(ks)))
            tests.append("real %d teardown none 0")
            ops = ["tests %d" % len(tests)] + group_lines(rng, len(tests))
            if rng.random() < 0.3:
                ops.append(cli_line(rng))
            ops += [t % i for i, t in enumerate(tests)] + ["run"]
            out.append(ops)
    return out


def generate(rng, tier):
    out = []
    quick = tier == "quick"
    # (a) stubbed seams ------------------------------------------------------------------
    for _ in range(1500 if quick else 6000):
        out.append(("stub", stub_case(rng)))
    if quick:
        words = sorted(set([0, 1, 9, 11, 0x7e, 0x7f, 0x80, 0x81, 0x8b, 0xfe, 0xff, 0x100, 0x137f, 0x147f, 0xff7f, 0xff00, 0xffff, 0x7f00,
                            0x7f7f, 0x0100, 0xff80, 0x017e] + [rng.randrange(0, 1 << 16) for _ in range(12000)]))
    else:
        words = list(range(1 << 16))
    for ops in word_cases(words):
        out.append(("words", ops))
    w32 = [rng.randrange(0, 1 << 32) for _ in range(512 if quick else 8192)] + [0x80000000, 0xffffffff, 0x7fffffff, 0xffff0000, 0x8000007f, 0x8000ff00]
    for ops in word_cases(w32):
        out.append(("words32", ops))
    B = retry_bound()
    if quick:
        edge = [0, 1, B // 2, max(B - 1, 0), B, B + 1, B + 2, B + 3, B + 10]
        pairs = [(a, b) for a in edge for b in edge]
        pairs += [(a, B + 1 - a) for a in range(0, B + 2)] + [(a, B + 2 - a) for a in range(0, B + 3)]
    else:
        pairs = [(a, b) for a in range(B + 11) for b in range(B + 11)]
    for ops in eintr_grid(pairs, rng):
        out.append(("eintr", ops))
    out.append(("eintr", eintr_runs(rng)))
    # (b) real processes -----------------------------------------------------------------
    if quick:
        for sig in range(1, 32):
            for ph in PHASES:
                out.append(("real", real_case(rng, [(ph, [("signal", sig)], 0)])))
        codes = sorted(set([0, 1, 2, 77, 78, 127, 128, 255] + [rng.randrange(0, 256) for _ in range(60)]))
        for c in codes:
            out.append(("real", real_case(rng, [(rng.choice(PHASES), [("exit", c)], 0)])))
        for ph in PHASES:
            out.append(("real", real_case(rng, [(ph, [("fail", 0)], 0), (ph, [("stop", 0)], 0)])))
        for _ in range(40):
            dying = [(rng.choice(PHASES), rand_action(rng), rng.choice([0, 0, 0, 1, 5, B, B + 3, B + 10])) for _ in range(rng.choice([1, 2, 3]))]
            out.append(("real", real_case(rng, dying)))
    else:
        for ph in PHASES:
            for sig in range(1, 32):
                out.append(("real", real_case(rng, [(ph, [("signal", sig)], 0)])))
            for c in range(256):
                out.append(("real", real_case(rng, [(ph, [("exit", c)], 0)])))
            out.append(("real", real_case(rng, [(ph, [("fail", 0)], 0), (ph, [("stop", 0)], 0)])))
            for inj in [1, max(B - 1, 0), B, B + 3, B + 10]:
                out.append(("real", real_case(rng, [(ph, rand_action(rng), inj)])))
        for _ in range(600):
            dying = [(rng.choice(PHASES), rand_action(rng), rng.choice([0, 0, 0, 1, 5, B, B + 3, B + 10])) for _ in range(rng.choice([1, 2, 3, 4]))]
            out.append(("real", real_case(rng, dying)))
    for ops in child_count_cases(rng, quick):
        out.append(("childcount", ops))
    for i in range(40 if quick else 400):
        out.append(("ignored", ignored_case(rng, i)))
    for i in range(60 if quick else 800):
        out.append(("groups", grouped_case(rng, cli=(i % 3 == 0))))
    # real waitpid seam interrupted by a periodic signal whose handler has no SA_RESTART, while a child sleeps
    for i in range(4 if quick else 24):
        out.append(("ticked", ticked_case(rng, i)))
    for ops in cli_pairs_cases(rng):
        out.append(("cliargs", ops))
    for ops in cli_repeat_cases(rng):
        out.append(("clirepeat", ops))
    # the REAL fork seam fails: the case process drops root and sets RLIMIT_NPROC to 0
    for i in range(3 if quick else 16):
        out.append(("forkfail", forkfail_case(rng, i)))
    # mixed registries: stubbed and real tests side by side
    for _ in range(20 if quick else 300):
        n = rng.choice([2, 3, 4, 5])
        ops = ["tests %d" % n] + group_lines(rng, n)
        if rng.random() < 0.3:
            ops.append(cli_line(rng))
        for t in range(n):
            if rng.random() < 0.5:
                ops += script(rng, t)
            else:
                ops.append("real %d %s %s" % (t, rng.choice(PHASES), " ".join("%s %d" % a for a in rand_action(rng))))
                if rng.random() < 0.1:
                    ops.append("fork %d fail" % t)             # the fork of a real test fails: no child at all
        ops.append("run")
        out.append(("mixed", ops))
    # malformed stream -------------------------------------------------------------------
    for _ in range(60 if quick else 600):
        out.append(("malformed", malformed_case(rng)))
    return out


def malformed_case(rng):
    n = rng.choice([1, 2, 3])
    ops = ["tests %d" % n]
    for _ in range(rng.randrange(1, 12)):
        t = rng.choice(list(range(n)) + [n, n + 7, 99999])
        x = rng.random()
        if x < 0.2:
            ops.append("w %d err 4" % t)                      # EINTR is not an "other" error: skipped
        elif x < 0.35:
            ops.append("tests %d" % rng.randrange(0, 5))      # second tests line
        elif x < 0.5:
            ops.append("w %d st %x" % (t, rng.randrange(0, 1 << 32)))
        elif x < 0.6:
            ops.append("w %d" % t)
        elif x < 0.7:
            ops.append("fork %d" % t)
        elif x < 0.8:
            ops.append("real %d nowhere signal 9" % t)
        elif x < 0.84:
            ops.append(rng.choice(["grp %d 5000" % t, "grp %d" % t, "cli", "cli now", "grp %d 1" % t, "cli -c -v", "cli -p -lg",
                                   "cli -p -h", "cli -p -c -p"]))
        elif x < 0.9:
            ops.append("run")
        else:
            ops.append(rng.choice(["", "bogus", "w", "run now", "real %d body signal" % t, "w %d eintr" % t, "fork %d fail" % t]))
    ops = [o for o in ops if o.strip()]
    if rng.random() < 0.7:
        ops.append("run")
    ops.append("w 0 st 0")                                     # after run: skipped
    return ops


def translate(ctx):
    # extract_sepproc runs translate/cxx2lean_c11.py (clang AST -> Gen/SeparateProcessLoop.lean) and reads the
    # constants of Gen/SeparateProcessConstants.lean off its output
    from translate import extract_sepproc
    return extract_sepproc.run()


def ignore_line(l):
    return l.startswith("phases ") or l.startswith("ticks ")


def _msgs(r):
    out = []
    for l in r.impl:
        if l.startswith("fail "):
            w = l.split()
            try:
                out.append(bytes.fromhex(w[2]).decode("latin-1") if w[2] != "-" else "")
            except Exception:
                out.append("?")
    return out


def nontrivial(r):
    return any(l.startswith("fail ") or l.startswith("starved ") for l in r.impl)


def observe(r, rep):
    for m in _msgs(r):
        if "doesn't work on this platform" in m:
            rep.count("failure.no_fork_on_this_platform")
        elif "killed by signal" in m:
            rep.count("failure.killed_by_signal")
        elif m.startswith("Stopped"):
            rep.count("failure.stopped")
        elif "EINTR" in m:
            rep.count("failure.eintr_giving_up")
        elif "waitpid" in m:
            rep.count("failure.waitpid_failed")
        elif "fork" in m:
            rep.count("failure.fork_failed")
        elif m.startswith("Failed in separate process"):
            rep.count("failure.exit_nonzero_or_failed_check")

        else:
            rep.count("failure.other")
    for l in r.impl:
        if l.startswith("starved "):
            rep.count("branch.script_ran_out_parent_still_waiting")
        elif l.startswith("forked "):
            rep.count("fork." + l.split()[2])
        elif l.startswith("rwait "):
            rep.count("real_wait." + l.split()[2])
        elif l.startswith("deadline"):
            rep.count("deadline")
        elif l.startswith("ticks "):
            n = int(l.split()[2])
            rep.count("real_wait_interrupted_by_timer." + ("0-9" if n < 10 else "10-31" if n < 32 else "32-99" if n < 100 else "100+"))
        elif l.startswith("forkfail "):
            rep.count("real_fork_failure_scenario." + l.split()[1])
        elif l.startswith("childst "):
            w = l.split()
            try:
                v = int(w[2], 16)
                rep.count("child_end." + ("exit0" if v == 0 else "exit1_own_verdict" if v == 0x100 else
                                          "killed_by_signal" if v & 0x7f else "exit_other_code"))
            except ValueError:
                rep.count("child_end.unreadable")
        elif l.startswith("inrunner "):
            rep.count("test_executed_inside_runner")
        elif l.startswith("round "):
            rep.count("cli_runs.repetition_" + l.split()[1])
        elif l.startswith("exitcode "):
            rep.count("cli_runs.exitcode_" + ("zero" if l.split()[1] == "0" else "nonzero"))
        elif l.startswith("childtext "):
            rep.count("child_failure_text_on_shared_stdout." + ("yes" if l.split()[2] != "0" else "none_expected_or_seen"))
    for o in r.ops:
        w = o.split()
        if w and w[0] == "cli":
            for k in range(1, len(w) - 1):
                if w[k] in ("-r", "-s") and w[k + 1] == "-p":
                    rep.count("cli_runs.bare_%s_directly_before_-p" % w[k])
    if any(o.startswith("ign ") for o in r.ops):
        ri = "ri" in r.ops or any(o.startswith("cli ") and "-ri" in o.split() for o in r.ops)
        rep.count("ignored_kind_entries.run_ignored_" + ("on" if ri else "off"))
    if r.id.startswith("words:"):
        rep.count("status_words_16bit", sum(1 for o in r.ops if o.startswith("w ")) // 2)


def nofork_case(rng):
    n = rng.choice([1, 2, 3, 5])
    ops = ["tests %d" % n] + group_lines(rng, n)
    if rng.random() < 0.4:
        ops.append(cli_line(rng))
    for t in range(n):
        ops += script(rng, t)[:3]          # whatever the seams would answer: they are never asked
    ops.append("run")
    return ops


def nofork_variant(ctx):
    """second build: UtestPlatform.cpp compiled without CPPUTEST_HAVE_FORK/WAITPID/KILL (the fork-less
    GccPlatformSpecificRunTestInASeperateProcess), same harness, same driver (op `nofork`)"""
    import random
    from vlib import core, flow
    rep = ctx.rep
    hdr = os.path.join(core.VERIF, "harness", "h_c11_nofork.h")
    try:
        exe2 = core.build_harness(HARNESS, "asan", extra_flags=("-include", hdr, "-DVH_C11_NOFORK"),
                                  extra_sources=(os.path.join(core.REPO, "src", "Platforms", "Gcc", "UtestPlatform.cpp"),))
    except core.CheckError as e:
        rep.notes.append("fork-less build variant does not compile: %s" % str(e)[-300:])
        return
    rng = random.Random(ctx.seed * 7919 + 11)
    cases = [("nofork:%d" % i, nofork_case(rng)) for i in range(30 if ctx.tier == "quick" else 300)]
    impl_out, err = core.run_harness(exe2, cases)
    model_out = core.run_driver(ID, impl_out)
    results = core.compare(cases, impl_out, model_out, ignore=ignore_line)
    bad = None
    for r in results:
        rep.evaluations += 1
        rep.traces += 1
        rep.count("cases.nofork")
        observe(r, rep)
        failing = r.crash or (r.spec and r.spec.startswith("spec FAIL")) or not r.agree
        if failing and (bad is None or len(r.ops) < len(bad.ops)):
            bad = r
    if bad is not None:
        impl_fails = bool(bad.crash or (bad.spec and bad.spec.startswith("spec FAIL")))
        hdr_lines = ["kind: build variant WITHOUT fork/waitpid/kill (harness compiled with -include harness/h_c11_nofork.h "
                     "-DVH_C11_NOFORK and src/Platforms/Gcc/UtestPlatform.cpp recompiled that way)",
                     "detail: " + flow.describe(bad), "found in case: " + bad.id,
                     "note: --replay runs the normal (fork) variant; this input only fails on the fork-less variant"]
        rep.violation("property %s, fork-less build variant: %s" % (ID, flow.describe(bad)),
                      flow.replay_text(ctx.mod, bad, hdr_lines, err), name="nofork", no_input=not impl_fails)


def extra(ctx, exe):
    """second build variant; no stopped / zombie harness process may be left behind by the real-process part"""
    nofork_variant(ctx)
    left = []
    try:
        for pid in os.listdir("/proc"):
            if not pid.isdigit():
                continue
            try:
                if os.readlink("/proc/%s/exe" % pid) != exe:
                    continue
                with open("/proc/%s/stat" % pid) as f:
                    state = f.read().rsplit(")", 1)[1].split()[0]
                left.append("%s(%s)" % (pid, state))
            except OSError:
                continue
    except OSError:
        pass
    ctx.rep.notes.append("harness processes left behind after the run: %s" % (", ".join(left) or "none"))
    if ctx.tier == "thorough":
        ctx.rep.exhaustive = True
    ctx.rep.coverage["exhaustive_sweeps"] = (
        "all 65536 16-bit status words; EINTR runs 0..40 x 0..40 around a stop; signals 1..31 and exit codes 0..255 in all 5 phases"
        if ctx.tier == "thorough" else "sampled (thorough tier is exhaustive)")


LEVEL_TEXT = ("Machine-checked Lean 4 theorems for every sequence of fork/waitpid results of any length and every 32-bit status word: "
              "exactly one failure of the right class per death event (signal with its number, non-zero exit, stop), none for a normal "
              "exit, fork and waitpid failures reported once, EINTR retried at most bound+2 times in total with exactly one giving-up "
              "failure, the loop ends exactly at the first exited/killed status, SIGCONT once per stop, the registry sets the flag for "
              "every test whatever the grouping and whatever its kind (IGNORE_TEST entries run with -ri go through the same dispatch: "
              "the branch of IgnoredUtestShell::runOneTest is regenerated), goes on to every later test and reports an overall failure (also as the runner's exit "
              "code); the child exits non-zero iff any step (plugin pre/post action, setup, body, teardown) added a failure, whatever "
              "the result already held; on a build without fork every test gets exactly the one '-p doesn't work' failure. "
              "SetTestFailureByStatusCode and the whole fork/waitpid function (code in front of the loop, one pass through the "
              "do/while body, loop condition, the child's _exit argument) are REGENERATED on every run from the clang AST with the "
              "installed headers' macro expansions, as functions on BitVec 32 / BitVec 64, and proved equal to the hand model "
              "(genRunSeparate_eq_model, setTestFailureGen_eq, genChildStatus_eq); the main theorems are restated about the "
              "regenerated function (source_*). The macro expansions are proved equal to the textbook reading of the status word. "
              "Registry loop, child steps and the -p path stay a hand model tied by regenerated tables/placements, shape checks and "
              "the differential harness (stubbed seams: all status words, EINTR grids; real children: every signal and exit status in "
              "every phase, the status each child ended with, under ASan/UBSan and a deadline).")
LEVEL_NOTE = ("Partial with respect to real process death: kernel signal delivery and waitpid semantics are observed (part b), not "
              "proved. Trusted: Lean kernel; the AST translator's environment split and typing (its output is also executed against "
              "the real code by the driver); the hand-written registry/child model (validated by this run's correspondence); the "
              "textbook status-word reading Spec.classify. Only observed: output printed by the child into shared buffers, "
              "kill(SIGCONT) failing, a check macro failing inside a plugin action of the child.")
TECHNIQUE = ("Lean 4 structural-induction proofs over an executable model of the wait loop + the function itself regenerated from the "
             "clang JSON AST (symbolic execution to BitVec functions) and proved equal to the model + differential correspondence "
             "harness with stubbed seams (exhaustive status words) and real child processes")
