"""C20 — TeamCity output is a balanced, correctly escaped service-message stream."""
import re
from . import _outgen as G
from .. import core

ID = "C20"
HARNESS = "h_c20"

TRUSTED = [
    "Lean 4 kernel; axioms of every theorem audited (propext, Classical.choice, Quot.sound at most)",
    "hand-written models lean/CppUModel/Model/TeamCity.lean (writer) and Model/OutputEvents.lean (registry loop, scripted tests), "
    "tied to src/CppUTest/TeamCityTestOutput.cpp, TestOutput.cpp and TestRegistry.cpp by the h_c20 correspondence (whole captured stream "
    "compared byte for byte, this run)",
    "extractor translate/extract_escapes.py (branch table of printEscaped) regenerating Gen/EscapeTables.lean; its output is also "
    "exercised by the correspondence",
    "the contract of the console seam: every byte handed to PlatformSpecificFPuts(.., stdout) reaches the reader exactly once, in "
    "order (ConsoleTestOutput::printBuffer flushes after every write, so a forked test process starts with an empty buffer). The "
    "model stops at the seam; the contract is TESTED, not proved: a fifth of the generated runs (and corpus cases) go through the "
    "real CommandLineTestRunner with -oteamcity - nearly half of them with -p and a failure message of 9-20 KB - in a process of "
    "its own whose stdout is a fully buffered pipe, with the real fputs/fflush implementations; the bytes read from the pipe are "
    "judged by the same oracles (each message once, balanced, values decode to the originals)",
    "the TeamCity escaping rules as written down in Spec/TeamCity.lean (| before ' | [ ], |n, |r)",
    "extractor translate/extract_failure_ctors.py (member-initialiser lists of the three TestFailure constructors, copy constructor, "
    "getters, isOutsideTestFile/isInHelperFunction, FailFailure) regenerating Gen/FailureCtors.lean; exercised by the correspondence "
    "through failures built by every constructor, from the test body and from a plugin's post-test action",
    "SimpleString's == on the group name behaves as byte-string equality (property C13)",
]
ASSUMPTIONS = [
    "names, paths and messages are C strings (no NUL byte inside)",
    "group names are not empty (an empty group name gets a suite start but no finish: recorded as an observation, outside the quantifier)",
    "text printed by tests (UT_PRINT) is outside the property's quantifier; it is written raw BETWEEN messages (never inside one); the "
    "whole-stream decoding theorems assume it contains no '#' (a test can print a complete service message of its own: observation "
    "printed_text_can_inject_a_message); the -vv progress trace and the summary are modelled and proved free of '#'",
    "failures are reported by the running test about itself (TestFailure built from the current shell), as all check macros do",
]
RULE = ("scripted registries: 1-5 group runs, pass / fail through every TestFailure constructor (file+line+message, message only, file+line only, FailFailure; from the body "
        "and from a plugin's post-test action; inside the test, in a helper above it, in another file) / ignored tests, optional name filter, repeated runs on one output object (-r2/-r3; single-group registries and registries whose first and last group coincide frequent), names-paths-messages over printable ASCII with ' | [ ] CR LF frequent and some "
        "longer than 100 bytes; non-trivial = the stream contains an escaped byte or a failure or an ignored test; distinct = distinct op sequences")


def gen_case(rng, n, malformed=False, real_io=False):
    ops = G.gen_registry(rng, n, empty_groups=malformed, repeat_groups=rng.random() < 0.4, with_package=False,
                         with_prints=rng.random() < 0.3, print_avoid="#", specials=G.SPECIAL_TC + "&<\"")
    # the file of a print line is printed raw as well
    ops = [_clean_print(l) for l in ops]
    if rng.random() < 0.3:
        # -r<n>: one output object, n runs; the writer still remembers the last group of the previous run when the next
        # starts (single-group registries and registries whose first and last group coincide are frequent)
        ops.insert(0, "repeat %d" % rng.choice([2, 2, 3]))
    if real_io:
        # the real CommandLineTestRunner with -oteamcity in a process of its own, stdout a fully buffered pipe
        ops.insert(0, "realio")
        if rng.random() < 0.45:
            ops.insert(0, "separate")          # -p: every test in its own process
            # a failure message longer than any stdio buffer, in a test that runs
            big = "".join(rng.choice("abc'|[]xyz \n%d") for _ in range(rng.choice([9000, 12000, 20000])))
            idx = [i for i, l in enumerate(ops) if l.startswith("test ") and l.endswith(" run")]
            if idx:
                at = rng.choice(idx) + 1
                w = ops[at - 1].split()
                ops.insert(at, "fail %s %s %s" % (w[3], w[4], G.hx(big)))
        ops.append("run")
        return ops
    ops.append("run")
    if rng.random() < 0.1:
        ops += G.gen_registry(rng, 2, with_filter=False, with_prints=False, specials=G.SPECIAL_TC)
        ops.append("run")
    if malformed:
        for _ in range(rng.randint(0, 3)):
            ops.insert(rng.randint(0, len(ops)), rng.choice(["tick", "fail zz 1 00", "test 41 42", "checks x", "print - 1", "bogus 1 2"]))
    return ops


def _clean_print(l):
    w = l.split()
    if w and w[0] == "print":
        f = G.unhx(w[1]).replace(b"#", b"_")
        return "print %s %s %s" % (G.hx(f), w[2], w[3])
    return l


def generate(rng, tier):
    n = 1500 if tier == "quick" else 12000
    out = []
    for i in range(n):
        size = rng.choice([1, 2, 4, 8, 16]) if tier == "quick" else rng.choice([1, 3, 8, 20, 60])
        out.append(("gen", gen_case(rng, size, real_io=rng.random() < 0.2)))
    for i in range(n // 8):
        out.append(("malformed", gen_case(rng, rng.choice([1, 3, 6]), malformed=True)))
    return out


signature = G.signature


def translate(ctx):
    from translate import extract_escapes, extract_failure_ctors
    return (extract_escapes.run() or []) + (extract_failure_ctors.run() or [])


def ignore_line(l):
    """the stream of a `-p` run is judged by the oracle only (separate processes are not part of the writer model)"""
    return l.startswith("outp ")


def _stream(r):
    for l in r.impl:
        if l.startswith("out ") or l.startswith("outp "):
            return G.unhx(l.split()[1])
    return None


def nontrivial(r):
    s = _stream(r)
    return bool(s) and (b"testFailed" in s or b"testIgnored" in s or re.search(rb"\|['|\[\]nr]", s) is not None)


def observe(r, rep):
    if "realio" in r.ops and "separate" in r.ops:
        rep.count("branch.real_io_separate_process")      # its stream (`outp`) is not kept for the diff
    s = _stream(r)
    if s is None:
        return
    rep.count("stream.bytes", len(s))
    for key, pat in (("escape.quote", b"|'"), ("escape.bar", b"||"), ("escape.lbracket", b"|["), ("escape.rbracket", b"|]"),
                     ("escape.cr", b"|r"), ("escape.lf", b"|n"), ("msg.testFailed", b"##teamcity[testFailed"),
                     ("msg.testIgnored", b"##teamcity[testIgnored"), ("msg.with_test_location_prefix", b"message='TEST failed ("),
                     ("msg.suiteStarted", b"##teamcity[testSuiteStarted")):
        c = s.count(pat)
        if c:
            rep.count(key, c)
    reg = G.read_registry(r.ops)
    if any(t["group"] == b"" for t in reg["tests"]):
        rep.count("observation.empty_group_name_case")
        if s.count(b"##teamcity[testSuiteStarted") != s.count(b"##teamcity[testSuiteFinished"):
            rep.count("observation.empty_group_name_suite_not_finished")
    if "realio" in r.ops:
        rep.count("branch.real_io_command_line_runner")
    if any(l.startswith("verbose 2") for l in r.ops):
        rep.count("branch.very_verbose")
        if b"before runAllPreTestAction" in s:
            rep.count("branch.very_verbose_trace_in_stream")
    if any(l.startswith("verbose 1") for l in r.ops):
        rep.count("branch.verbose")
    if any(a[0] == "print" and (b"#" in a[1] or b"#" in a[3]) for t in reg["tests"] for a in t["acts"]):
        rep.count("observation.test_prints_hash")
    if reg["repeat"] > 1:
        rep.count("branch.repeated_runs")
        runs = G.group_runs(reg["tests"])
        if runs and runs[0][0] == runs[-1][0]:
            rep.count("branch.repeated_runs_first_group_equals_last")
    if reg["filter"] is not None:
        rep.count("branch.name_filter")
        if any(not G.should_run(reg, t) for t in reg["tests"]):
            rep.count("branch.test_filtered_out")
    if any(len(G.failures(t)) >= 2 for t in reg["tests"]):
        rep.count("branch.several_failures_in_one_test")
    for t in reg["tests"]:
        if not G.should_run(reg, t) or t["ignored"]:
            continue
        for a in G.executed(t) + [x for x in t["acts"] if x[0] == "postfail"]:
            if a[0] in ("fail", "failx", "failmsg", "failloc", "postfail"):
                rep.count("ctor." + {"fail": "file_line_message", "failx": "FailFailure", "failmsg": "message_only",
                                     "failloc": "file_line_only", "postfail": "message_only_from_plugin"}[a[0]])


# ---------------------------------------------------------------- second, independent decoder (Python)

_MSG = re.compile(rb"##teamcity\[(\w+)((?: \w+='(?:\|.|[^'|\[\]\r\n])*')*)\]\n")
_ATTR = re.compile(rb" (\w+)='((?:\|.|[^'|\[\]\r\n])*)'")
_UNESC = {b"n": b"\n", b"r": b"\r", b"'": b"'", b"|": b"|", b"[": b"[", b"]": b"]"}


def tc_decode(v):
    out, i = bytearray(), 0
    while i < len(v):
        if v[i:i + 1] == b"|":
            c = v[i + 1:i + 2]
            if c not in _UNESC:
                raise ValueError("unknown escape |%r" % c)
            out += _UNESC[c]; i += 2
        else:
            out += v[i:i + 1]; i += 1
    return bytes(out)


def py_judge(ops, stream):
    """decode the stream with regular expressions and compare with the registry; returns a reason or None"""
    reg = G.read_registry(ops)
    separate = "separate" in ops
    if any(t["group"] == b"" for t in reg["tests"]):
        return None
    if any(a[0] == "print" and (b"#" in a[1] or b"#" in a[3]) for t in reg["tests"] for a in t["acts"]):
        return None      # a test printing '#' may print a service message of its own: outside the quantifier
    want = []
    for g, ts in G.group_runs(reg["tests"]):
        want.append(("testSuiteStarted", g))
        for t in ts:
            if not G.should_run(reg, t):
                continue
            want.append(("testStarted", t["name"]))
            if t["ignored"]:
                want.append(("testIgnored", t["name"]))
            fs = G.failures(t)
            if separate and fs:
                fs = fs + [(t["file"], t["line"], b"Failed in separate process")]
            for (ffile, fline, msg) in fs:
                want.append(("testFailed", t["name"], ffile, fline, msg, t))
            want.append(("testFinished", t["name"]))
        want.append(("testSuiteFinished", g))
    want = want * reg["repeat"]
    got = []
    pos = 0
    # every occurrence of the marker must be a complete, well-formed message
    for m in re.finditer(rb"##teamcity\[", stream):
        mm = _MSG.match(stream, m.start())
        if not mm:
            return "message at byte %d is not well formed: %r" % (m.start(), stream[m.start():m.start() + 80])
        attrs = [(k.decode(), tc_decode(v)) for k, v in _ATTR.findall(mm.group(2))]
        got.append((mm.group(1).decode(), attrs))
    if len(got) != len(want):
        return "%d messages, %d expected" % (len(got), len(want))
    for (name, attrs), w in zip(got, want):
        d = dict(attrs)
        if name != w[0] or d.get("name") != w[1]:
            return "message %s name=%r, expected %s name=%r" % (name, d.get("name"), w[0], w[1])
        if name == "testFailed":
            _, _, ffile, fline, msg, t = w
            if d.get("details") != msg:
                return "details decode to %r, original %r" % (d.get("details"), msg)
            loc = ffile + b":" + str(fline).encode()
            if not d.get("message", b"").endswith(loc):
                return "message %r does not end with %r" % (d.get("message"), loc)
            if (t["file"] != ffile or fline < t["line"]) and (t["file"] + b":" + str(t["line"]).encode()) not in d["message"]:
                return "message %r lacks the test location" % d.get("message")
    return None


def extra(ctx, exe):
    rng, rep = ctx.rng, ctx.rep
    n = 400 if ctx.tier == "quick" else 2000
    cases = [("py:%d" % i, gen_case(rng, rng.choice([1, 3, 8]), real_io=(i % 5 == 0))) for i in range(n)]
    out, _ = core.run_harness(exe, cases)
    impl, _ = core.split_cases(out)
    bad = None
    for cid, ops in cases:
        lines = impl.get(cid, [])
        # only the first run is judged here
        s = next((G.unhx(l.split()[1]) for l in lines if l.startswith("out ") or l.startswith("outp ")), None)
        if s is None:
            bad = (cid, ops, "no stream captured: %s" % lines[-2:])
            break
        try:
            why = py_judge(ops, s)
        except Exception as e:      # a stream the independent decoder cannot even tokenise is a failure of the stream
            why = "the Python decoder rejects the stream: %s" % e
        if why:
            bad = (cid, ops, why)
            break
    rep.coverage["python_decoder_cases"] = n
    rep.notes.append("second decoder (Python regular expressions): %d streams decoded and compared with the originals" % n)
    if bad:
        cid, ops, why = bad
        rep.violation("property C20 violated by the implementation (Python decoder): %s" % why,
                      "# property C20\n# kind: the independent Python decoder rejects the implementation's stream\n# detail: %s\ncase replay\n%s\nend\n"
                      % (why, "\n".join(ops)), name="pydecoder")


LEVEL_TEXT = ("Machine-checked Lean 4 theorems over an executable model of TeamCityTestOutput and of the registry's callback order, for "
              "every registry (any number of groups and tests, any pass/fail/ignore pattern, any name filter) and all byte strings: "
              "decoding an escaped value by the TeamCity rules returns the original; every ' and ] in an escaped value is preceded by an "
              "odd run of | so a TeamCity reader ends a value exactly at its closing quote; the stream is the rendering of a message list "
              "in which every value went through the escape; that message list is balanced (suite and test start/finish pair up, ignored "
              "and failed messages name the open test) whenever no group name is empty. The escape table is regenerated from "
              "printEscaped on every run and the theorems are re-checked against it; the whole captured stream of the real code is "
              "compared byte for byte with the model on generated registries and judged by two independent decoders (Lean, Python). "
              "Proved at stream level as well: the specification's own stream parser applied to the rendering of ANY message list "
              "returns that list, and applied to the writer model's byte stream of any event list (default and -vv mode; text printed by "
              "tests free of '#') it returns the run's message list with every value equal to the original. The -vv progress trace and the "
              "summary are modelled, compared with the real output and proved unable to break balance or escaping.")
LEVEL_NOTE = ("Trusted: Lean kernel; the hand-written writer/runner model (validated against the code by the correspondence of this run); "
              "the extractor of the escape table; the TeamCity rules as written in Spec/TeamCity.lean. Outside the quantifier and only "
              "observed (each stated as a theorem): empty group names (suite start without finish); text printed by tests is written raw "
              "between messages - it cannot corrupt a message but can contain a complete service message of its own "
              "(printed_text_can_inject_a_message). Not modelled: colour mode (escape codes in the summary only), the "
              "'Test run i of n' text of repeated runs.")
TECHNIQUE = "Lean 4 induction over the registry loop and per-byte escape lemmas over a regenerated table + differential correspondence harness + two independent decoders"
