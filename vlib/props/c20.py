"""C20 — TeamCity output is a balanced, correctly escaped service-message stream."""
import re
from . import _outgen as G
from .. import core

ID = "C20"
HARNESS = "h_c20"

TRUSTED = [
    "Lean 4 kernel; axioms of every theorem audited (propext, Classical.choice, Quot.sound at most)",
    "translators (token-structure readers) translate/extract_teamcity.py (the five overridden callbacks of TeamCityTestOutput and "
    "TestOutput::printTestRun as statement lists; method table of CompositeTestOutput; shape checks of print/printVeryVerbose/"
    "ConsoleTestOutput::printBuffer, the constructor and the header), translate/extract_runloop.py (TestRegistry::runAllTests as a "
    "statement list; shape checks of the TestResult forwarders), translate/extract_escapes.py (branch table of printEscaped), "
    "translate/extract_failure_ctors.py (member-initialiser lists of the TestFailure constructors, getters, isOutsideTestFile/"
    "isInHelperFunction, FailFailure). Their output is executed by the driver (the writer and the registry loop are INTERPRETERS of "
    "the regenerated lists), so a translator that misreads the source shows up as a byte difference in the correspondence of this run",
    "the interpreters Model/TeamCity.lean (exec) and Model/TeamCityLoop.lean (loopGen), and the hand-written rest of the model: "
    "Model/OutputEvents.lean (scripted tests, what runOneTest sends, counters and times of TestResult), TeamCity.summaryOut "
    "(TestOutput::printTestsEnded) - tied to the code by the h_c20 correspondence (whole captured stream compared byte for byte)",
    "the contract of the console seam: every byte handed to PlatformSpecificFPuts(.., stdout) reaches the reader exactly once, in "
    "order (ConsoleTestOutput::printBuffer flushes after every write, so a forked test process starts with an empty buffer). The "
    "model stops at the seam; the contract is TESTED, not proved: a fifth of the generated runs (and corpus cases) go through the "
    "real CommandLineTestRunner with -oteamcity - nearly half of them with -p and a failure message of 9-20 KB, some with a test "
    "process that stops itself and is continued - in a process of its own whose stdout is a fully buffered pipe, with the real "
    "fputs/fflush implementations; the bytes read from the pipe are judged by the same oracles",
    "for -p runs: C11's model of the wait loop (SepProc.parentLoop, imported) and the operating system's promise that a process that "
    "was reported as exited or killed writes nothing any more; the interleaving of parent and child output is not determined, so "
    "these runs are judged by the two decoders only (not diffed byte for byte)",
    "the TeamCity escaping rules as written down in Spec/TeamCity.lean (| before ' | [ ], |n, |r)",
    "SimpleString's == on the group name behaves as byte-string equality, StringFrom(size_t/long) prints decimal digits (property C13)",
]
ASSUMPTIONS = [
    "names, paths and messages are C strings (no NUL byte inside)",
    "group names are not empty (an empty group name gets a suite start but no finish: recorded as an observation, outside the quantifier)",
    "text printed by tests (UT_PRINT) is outside the property's quantifier; it is written raw BETWEEN messages (never inside one); the "
    "whole-stream decoding theorems assume it contains no '#' (a test can print a complete service message of its own: observation "
    "printed_text_can_inject_a_message); the -vv progress trace and the summary are modelled and proved free of '#'",
    "failures are reported by the running test about itself (TestFailure built from the current shell), as all check macros do, or by a "
    "plugin's post-test action about the test it was called for: the scripted plugin and the REAL MockSupportPlugin (installed in every run; "
    "its reporter takes the test from the plugin's own argument because the current test has already been put back - Model/TeamCityMock.lean); "
    "of the mock framework's message text only one unfulfilled parameterless expectation is modelled, and the oracle demands of it only that "
    "the function name comes back intact",
    "runs modelled byte for byte are those without -p and -ri (runInSeperateProcess_ and runIgnored_ false in the loop interpreter); "
    "with -p the theorems are about any interleaving of the child's and the parent's messages, under the hypothesis that the parent "
    "leaves the wait loop only when the child is gone (separate_process_late_failure_breaks_property shows it cannot be dropped)",
]
RULE = ("scripted registries: 1-5 group runs, pass / fail through every TestFailure constructor (file+line+message, message only, file+line only, FailFailure; from the body "
        "and from a plugin's post-test action; the REAL MockSupportPlugin is installed in every run and in a third of the registries half of the tests leave a "
        "mock expectation unfulfilled and unchecked, so the failure is found by the plugin's post-test action, after the current test has been put back; inside the test, in a helper above it, in another file) / ignored tests, optional name filter, repeated runs on one output object (-r2/-r3; single-group registries and registries whose first and last group coincide frequent), names-paths-messages over printable ASCII with ' | [ ] CR LF frequent and some "
        "longer than 100 bytes; 12 % of the direct runs through a CompositeTestOutput (TeamCity as first or second output); durations with 10-18 digits; a fifth of the runs through the real command-line runner on a real pipe, "
        "nearly half of those with -p, 4 % of the -p runs with a test process that stops itself (SIGSTOP), is continued and goes on, followed by a slow test; non-trivial = the stream contains an escaped byte or a failure or an ignored test; distinct = distinct op sequences")


def gen_case(rng, n, malformed=False, real_io=False, stop_rate=0.04):
    ops = G.gen_registry(rng, n, empty_groups=malformed, repeat_groups=rng.random() < 0.4, with_package=False,
                         with_prints=rng.random() < 0.3, print_avoid="#", specials=G.SPECIAL_TC + "&<\"")
    # the file of a print line is printed raw as well
    ops = [_clean_print(l) for l in ops]
    # the real MockSupportPlugin is installed in every run; about a third of the registries have tests that leave a mock
    # expectation unfulfilled without checking it themselves (found only by the plugin's post-test action)
    if rng.random() < 0.35:
        out = []
        for l in ops:
            out.append(l)
            if l.startswith("test ") and rng.random() < 0.5:
                out.append("mockleft %s" % G.hx(G.text(rng, 10, G.SPECIAL_TC + "&<\"", allow_empty=rng.random() < 0.1)))
        ops = out
    if rng.random() < 0.3:
        # -r<n>: one output object, n runs; the writer still remembers the last group of the previous run when the next
        # starts (single-group registries and registries whose first and last group coincide are frequent)
        ops.insert(0, "repeat %d" % rng.choice([2, 2, 3]))
    if real_io:
        # the real CommandLineTestRunner with -oteamcity in a process of its own, stdout a fully buffered pipe
        ops.insert(0, "realio")
        if rng.random() < 0.45:
            ops.insert(0, "separate")          # -p: every test in its own process
            # a failure message longer than any stdio buffer, in a test that runs
            big = "".join(rng.choice("abc'|[]xyz \n%d") for _ in range(rng.choice([9000, 12000, 20000])))
            idx = [i for i, l in enumerate(ops) if l.startswith("test ") and l.endswith(" run")]
            if idx:
                at = rng.choice(idx) + 1
                w = ops[at - 1].split()
                ops.insert(at, "fail %s %s %s" % (w[3], w[4], G.hx(big)))
            if rng.random() < stop_rate:
                # a test whose forked process stops itself and, once continued, goes on (and possibly fails), followed by
                # a slow passing test: the runner has to keep waiting for the continued process
                idx = [i for i, l in enumerate(ops) if l.startswith("test ") and l.endswith(" run")]
                if idx:
                    at = rng.choice(idx)
                    ops.insert(at + 1, "childstop")
                    w = ops[at].split()
                    ops.append("test %s %s %s %d run" % (rng.choice([w[1], G.hx(G.text(rng, allow_empty=False))]),
                                                         G.hx(G.text(rng, allow_empty=False)), w[3], rng.randint(1, 500)))
                    ops.append("slow %d" % rng.choice([150, 300]))
        ops.append("run")
        return ops
    if rng.random() < 0.12:
        # the TeamCity output as outputOne_ / outputTwo_ of a CompositeTestOutput whose other output writes elsewhere
        ops.insert(0, "composite %d" % rng.choice([1, 2]))
    if rng.random() < 0.15:
        # boundary durations: the clock jumps by more than 32 bits hold / by a value with many digits (print(size_t))
        idx = [i for i, l in enumerate(ops) if l.startswith("tick ")]
        if idx:
            ops[rng.choice(idx)] = "tick %d" % rng.choice([0, 4294967295, 4294967296, 99999999999, 10 ** 15, 999999999999999999 // 4])
    ops.append("run")
    if rng.random() < 0.1:
        ops += G.gen_registry(rng, 2, with_filter=False, with_prints=False, specials=G.SPECIAL_TC)
        ops.append("run")
    if malformed:
        for _ in range(rng.randint(0, 3)):
            ops.insert(rng.randint(0, len(ops)), rng.choice(["tick", "fail zz 1 00", "test 41 42", "checks x", "print - 1", "bogus 1 2",
                                                             "mockleft", "mockleft zz", "mockleft 66 1", "mockleft 66"]))
    return ops


def _clean_print(l):
    w = l.split()
    if w and w[0] == "print":
        f = G.unhx(w[1]).replace(b"#", b"_")
        return "print %s %s %s" % (G.hx(f), w[2], w[3])
    return l


def generate(rng, tier):
    n = 1500 if tier == "quick" else 12000
    out = []
    for i in range(n):
        size = rng.choice([1, 2, 4, 8, 16]) if tier == "quick" else rng.choice([1, 3, 8, 20, 60])
        out.append(("gen", gen_case(rng, size, real_io=rng.random() < 0.2)))
    for i in range(n // 8):
        out.append(("malformed", gen_case(rng, rng.choice([1, 3, 6]), malformed=True)))
    return out


signature = G.signature


def translate(ctx):
    from translate import extract_escapes, extract_failure_ctors, extract_teamcity, extract_runloop
    problems = []
    for ex in (extract_escapes, extract_failure_ctors, extract_teamcity, extract_runloop):
        try:
            problems += ex.run() or []
        except Exception as e:      # one extractor failing must not keep the others from regenerating their files
            problems.append("%s cannot translate the current source: %s" % (ex.__name__.split(".")[-1], e))
    return problems


def ignore_line(l):
    """the stream of a `-p` run is judged by the oracle only (separate processes are not part of the writer model)"""
    return l.startswith("outp ")


def _stream(r):
    for l in r.impl:
        if l.startswith("out ") or l.startswith("outp "):
            return G.unhx(l.split()[1])
    return None


def nontrivial(r):
    s = _stream(r)
    return bool(s) and (b"testFailed" in s or b"testIgnored" in s or re.search(rb"\|['|\[\]nr]", s) is not None)


def observe(r, rep):
    if "realio" in r.ops and "separate" in r.ops:
        rep.count("branch.real_io_separate_process")      # its stream (`outp`) is not kept for the diff
        if "childstop" in r.ops:
            rep.count("branch.separate_process_child_stopped_and_continued")
    s = _stream(r)
    if s is None:
        return
    rep.count("stream.bytes", len(s))
    for key, pat in (("escape.quote", b"|'"), ("escape.bar", b"||"), ("escape.lbracket", b"|["), ("escape.rbracket", b"|]"),
                     ("escape.cr", b"|r"), ("escape.lf", b"|n"), ("msg.testFailed", b"##teamcity[testFailed"),
                     ("msg.testIgnored", b"##teamcity[testIgnored"), ("msg.with_test_location_prefix", b"message='TEST failed ("),
                     ("msg.suiteStarted", b"##teamcity[testSuiteStarted")):
        c = s.count(pat)
        if c:
            rep.count(key, c)
    reg = G.read_registry(r.ops)
    if any(t["group"] == b"" for t in reg["tests"]):
        rep.count("observation.empty_group_name_case")
        if s.count(b"##teamcity[testSuiteStarted") != s.count(b"##teamcity[testSuiteFinished"):
            rep.count("observation.empty_group_name_suite_not_finished")
    if "realio" in r.ops:
        rep.count("branch.real_io_command_line_runner")
    elif any(l.startswith("composite ") for l in r.ops):
        rep.count("branch.composite_output_position_" + next(l for l in r.ops if l.startswith("composite ")).split()[1])
    m_ = re.findall(rb"duration='(\d+)'", s)
    if any(len(d) >= 10 for d in m_):
        rep.count("branch.duration_10_or_more_digits")
    if any(l.startswith("verbose 2") for l in r.ops):
        rep.count("branch.very_verbose")
        if b"before runAllPreTestAction" in s:
            rep.count("branch.very_verbose_trace_in_stream")
    if any(l.startswith("verbose 1") for l in r.ops):
        rep.count("branch.verbose")
    if any(a[0] == "print" and (b"#" in a[1] or b"#" in a[3]) for t in reg["tests"] for a in t["acts"]):
        rep.count("observation.test_prints_hash")
    if reg["repeat"] > 1:
        rep.count("branch.repeated_runs")
        runs = G.group_runs(reg["tests"])
        if runs and runs[0][0] == runs[-1][0]:
            rep.count("branch.repeated_runs_first_group_equals_last")
    mocks = mock_tests(r.ops)
    if mocks:
        rep.count("branch.mock_expectation_left")
        for i, t in enumerate(reg["tests"]):
            t["mock"] = mocks.get(i)
            if t["mock"] is not None and G.should_run(reg, t):
                if mock_fires(t):
                    rep.count("ctor.message_only_from_mock_plugin_post_action")
                elif not t["ignored"]:
                    rep.count("branch.mock_expectation_left_but_test_failed_itself")
    if reg["filter"] is not None:
        rep.count("branch.name_filter")
        if any(not G.should_run(reg, t) for t in reg["tests"]):
            rep.count("branch.test_filtered_out")
    if any(len(G.failures(t)) >= 2 for t in reg["tests"]):
        rep.count("branch.several_failures_in_one_test")
    for t in reg["tests"]:
        if not G.should_run(reg, t) or t["ignored"]:
            continue
        for a in G.executed(t) + [x for x in t["acts"] if x[0] == "postfail"]:
            if a[0] in ("fail", "failx", "failmsg", "failloc", "postfail"):
                rep.count("ctor." + {"fail": "file_line_message", "failx": "FailFailure", "failmsg": "message_only",
                                     "failloc": "file_line_only", "postfail": "message_only_from_plugin"}[a[0]])


# ---------------------------------------------------------------- second, independent decoder (Python)

_MSG = re.compile(rb"##teamcity\[(\w+)((?: \w+='(?:\|.|[^'|\[\]\r\n])*')*)\]\n")
_ATTR = re.compile(rb" (\w+)='((?:\|.|[^'|\[\]\r\n])*)'")
_UNESC = {b"n": b"\n", b"r": b"\r", b"'": b"'", b"|": b"|", b"[": b"[", b"]": b"]"}


def tc_decode(v):
    out, i = bytearray(), 0
    while i < len(v):
        if v[i:i + 1] == b"|":
            c = v[i + 1:i + 2]
            if c not in _UNESC:
                raise ValueError("unknown escape |%r" % c)
            out += _UNESC[c]; i += 2
        else:
            out += v[i:i + 1]; i += 1
    return bytes(out)


def mock_tests(ops):
    """index (definition order) -> function name of the tests marked `mockleft`, up to the first run; the latest line wins"""
    out, n = {}, 0
    for l in ops:
        w = l.split()
        if not w:
            continue
        if w[0] == "run":
            break
        if w[0] == "test" and len(w) == 6:
            n += 1
        elif w[0] == "mockleft" and len(w) == 2 and n:
            try:
                out[n - 1] = G.unhx(w[1])
            except ValueError:
                pass
    return out


def mock_fires(t):
    """the mock plugin's post-test action reports the expectation a test left unfulfilled only when the test runs and its
    body reported no failure"""
    return (not t["ignored"]) and t.get("mock") is not None and not any(
        a[0] in ("fail", "failx", "failmsg", "failloc") for a in G.executed(t))


def stop_tests(ops):
    """indices (in definition order) of the tests marked `childstop`, up to the first run"""
    out, n = set(), 0
    for l in ops:
        w = l.split()
        if not w:
            continue
        if w[0] == "run":
            break
        if w[0] == "test" and len(w) == 6:
            n += 1
        elif w[0] == "childstop" and len(w) == 1 and n:
            out.add(n - 1)
    return out


def py_judge(ops, stream):
    """decode the stream with regular expressions and compare with the registry; returns a reason or None"""
    reg = G.read_registry(ops)
    separate = "separate" in ops
    stops = stop_tests(ops)
    mocks = mock_tests(ops)
    for i, t in enumerate(reg["tests"]):
        t["stop"] = i in stops
        t["mock"] = mocks.get(i)
    if any(t["group"] == b"" for t in reg["tests"]):
        return None
    if any(a[0] == "print" and (b"#" in a[1] or b"#" in a[3]) for t in reg["tests"] for a in t["acts"]):
        return None      # a test printing '#' may print a service message of its own: outside the quantifier
    want = []
    for g, ts in G.group_runs(reg["tests"]):
        want.append(("testSuiteStarted", g))
        for t in ts:
            if not G.should_run(reg, t):
                continue
            want.append(("testStarted", t["name"]))
            if t["ignored"]:
                want.append(("testIgnored", t["name"]))
            fs = G.failures(t)
            if mock_fires(t):
                # found by the mock plugin's post-test action (the last one): located at the test; of the details (composed
                # by the mock framework) only the function name is an original of this run
                fs = fs + [(t["file"], t["line"], ("contains", t["mock"]))]
            if separate and fs:
                fs = fs + [(t["file"], t["line"], b"Failed in separate process")]
            if separate and t["stop"] and not t["ignored"]:
                # the runner reports the stop (and continues the child) before the child can report anything
                fs = [(t["file"], t["line"], b"Stopped in separate process - continuing")] + fs
            for (ffile, fline, msg) in fs:
                want.append(("testFailed", t["name"], ffile, fline, msg, t))
            want.append(("testFinished", t["name"]))
        want.append(("testSuiteFinished", g))
    want = want * reg["repeat"]
    got = []
    pos = 0
    # every occurrence of the marker must be a complete, well-formed message
    for m in re.finditer(rb"##teamcity\[", stream):
        mm = _MSG.match(stream, m.start())
        if not mm:
            return "message at byte %d is not well formed: %r" % (m.start(), stream[m.start():m.start() + 80])
        attrs = [(k.decode(), tc_decode(v)) for k, v in _ATTR.findall(mm.group(2))]
        got.append((mm.group(1).decode(), attrs))
    open_test = None
    for name, attrs in got:
        d = dict(attrs)
        if name == "testStarted":
            open_test = d.get("name")
        elif name == "testFinished":
            if open_test != d.get("name"):
                return "testFinished name=%r while the open test is %r" % (d.get("name"), open_test)
            open_test = None
        elif name in ("testFailed", "testIgnored") and open_test != d.get("name"):
            return "%s name=%r while the open test is %r" % (name, d.get("name"), open_test)
    if len(got) != len(want):
        return "%d messages, %d expected" % (len(got), len(want))
    for (name, attrs), w in zip(got, want):
        d = dict(attrs)
        if name != w[0] or d.get("name") != w[1]:
            return "message %s name=%r, expected %s name=%r" % (name, d.get("name"), w[0], w[1])
        if name == "testFailed":
            _, _, ffile, fline, msg, t = w
            if isinstance(msg, tuple):
                if msg[1] not in d.get("details", b""):
                    return "details decode to %r, which does not contain the function name %r" % (d.get("details"), msg[1])
            elif d.get("details") != msg:
                return "details decode to %r, original %r" % (d.get("details"), msg)
            loc = ffile + b":" + str(fline).encode()
            if not d.get("message", b"").endswith(loc):
                return "message %r does not end with %r" % (d.get("message"), loc)
            if (t["file"] != ffile or fline < t["line"]) and (t["file"] + b":" + str(t["line"]).encode()) not in d["message"]:
                return "message %r lacks the test location" % d.get("message")
    return None


def extra(ctx, exe):
    rng, rep = ctx.rng, ctx.rep
    n = 400 if ctx.tier == "quick" else 2000
    cases = [("py:%d" % i, gen_case(rng, rng.choice([1, 3, 8]), real_io=(i % 5 == 0))) for i in range(n)]
    out, _ = core.run_harness(exe, cases)
    impl, _ = core.split_cases(out)
    bad = None
    for cid, ops in cases:
        lines = impl.get(cid, [])
        # only the first run is judged here
        s = next((G.unhx(l.split()[1]) for l in lines if l.startswith("out ") or l.startswith("outp ")), None)
        if s is None:
            bad = (cid, ops, "no stream captured: %s" % lines[-2:])
            break
        try:
            why = py_judge(ops, s)
        except Exception as e:      # a stream the independent decoder cannot even tokenise is a failure of the stream
            why = "the Python decoder rejects the stream: %s" % e
        if why:
            bad = (cid, ops, why)
            break
    rep.coverage["python_decoder_cases"] = n
    rep.notes.append("second decoder (Python regular expressions): %d streams decoded and compared with the originals" % n)
    if bad:
        cid, ops, why = bad
        rep.violation("property C20 violated by the implementation (Python decoder): %s" % why,
                      "# property C20\n# kind: the independent Python decoder rejects the implementation's stream\n# detail: %s\ncase replay\n%s\nend\n"
                      % (why, "\n".join(ops)), name="pydecoder")


LEVEL_TEXT = ("Machine-checked Lean 4 theorems over an executable model of TeamCityTestOutput and of the registry's callback order, for "
              "every registry (any number of groups and tests, any pass/fail/ignore pattern, any name filter, any number of repetitions on "
              "one output object) and all byte strings: decoding an escaped value by the TeamCity rules returns the original; every ' and ] "
              "in an escaped value is preceded by an odd run of | so a TeamCity reader ends a value exactly at its closing quote; the stream "
              "is the rendering of a message list in which every value went through the escape; that message list is balanced (suite and "
              "test start/finish pair up, ignored and failed messages name the open test) whenever no group name is empty; the "
              "specification's own stream parser applied to the writer's byte stream returns the run's message list with every value equal "
              "to the original (default and -vv mode; text printed by tests free of '#'). REGENERATED from the source on every run, executed "
              "by the model and re-proved: the five overridden callbacks and printTestRun as statement lists (every literal, which field "
              "goes through printEscaped, order, guards, where currtest_/currGroup_ are assigned), the branch table of printEscaped, the loop "
              "of TestRegistry::runAllTests as a statement list, the TestFailure constructors; source_run_balanced / source_run_decodes are "
              "the end-to-end statements over the regenerated parts. Also proved: a TeamCity output inside a CompositeTestOutput produces the "
              "same stream; with -p, for ANY interleaving of the child's messages and the parent's wait-loop failures the test's block is "
              "balanced and every failure lies inside it, provided the parent leaves the wait loop only when the child is gone. The whole "
              "captured stream of the real code is compared byte for byte with the model on generated registries and judged by two "
              "independent decoders (Lean, Python).")
LEVEL_NOTE = ("Trusted: Lean kernel; the translators (their output is executed by the driver and compared with the real output on every "
              "run); the hand-written part of the runner model (what one test sends, TestResult's counters and times, the summary text) "
              "validated by the correspondence of this run; the TeamCity rules as written in Spec/TeamCity.lean. Only shape-checked: "
              "print(const char*/long/size_t), printVeryVerbose, ConsoleTestOutput::printBuffer, the TestResult forwarders, the "
              "constructor, the method table of CompositeTestOutput. Outside the quantifier and only observed (each stated as a theorem): "
              "empty group names (suite start without finish); text printed by tests is written raw between messages - it cannot corrupt "
              "a message but can contain a complete service message of its own (printed_text_can_inject_a_message). -p runs are judged by "
              "the decoders only (interleaving not determined); the hypothesis 'the parent waits until the child is gone' is C11's subject "
              "and is tested here by a child that stops itself. Not modelled: colour mode, group filters, -ri, shuffling through the real "
              "runner, two outputs of a composite sharing stdout (coverage/C20.md lists every function with its status).")
TECHNIQUE = ("Lean 4 induction over the registry loop and per-byte escape lemmas; writer and registry loop are interpreters of statement lists "
             "regenerated from the C++ on every run and proved equal to the hand-written model + differential correspondence harness "
             "(in-memory, CompositeTestOutput, real pipe, -p with a stopped child) + two independent decoders")
