"""C08 — mock verdict is exact: generator and property-specific settings."""
ID = "C08"
HARNESS = "h_c08"
SHRINK_BUDGET = 200

TRUSTED = [
    "Lean 4 kernel; axioms of every theorem audited (propext, Classical.choice, Quot.sound at most)",
    "hand-written model lean/CppUModel/Model/Mock.lean of MockSupport / MockCheckedActualCall / MockCheckedExpectedCall / "
    "MockExpectedCallsList / the first line of every MockFailure, tied to the code by the h_c08 correspondence of this run "
    "(scenario lines interpreted against the real mock()/mock(scope) API under ASan/UBSan, diffed line by line)",
    "the specification oracle in lean/Driver/C08.lean (textbook multiset / sequence / first-deviation / consumed-unit "
    "semantics, written without the model) judges the implementation's own observations",
    "the failure-message extractor translate/extract_mockmsgs.py (first lines of MockFailure.cpp), regenerating Gen/MockMessages.lean",
    "the token-structure translator translate/extract_mocklists.py (list primitives of MockExpectedCallsList.cpp, loop-free queries and "
    "state changes of MockExpectedCall.cpp -> Gen/MockLists.lean); its table of C++ query names -> model terms and the representation "
    "of a pruned list node as cand = false are trusted, the generated definitions are proved equal to the model functions "
    "(Proofs/MockGen.lean) and the model is run against the code, so a wrong translation shows up as a broken proof or a disagreement",
    "the harness' reduction of the failure text to canonical `hist` lines (emit_history / canonical_entry in harness/h_c08.cpp): "
    "section headers, one line per listed expectation (name, object, order window, parameter names, output names, ignore flag, "
    "expected and actual count), the MISSING-parameters names; parameter values and type names inside the text are dropped",
    "parameter values: the matching model compares the normal form paramKey (all six integer types = the integer they "
    "denote, C09's denote?); param_equal_iff_same_integer (Props/C08.lean, from C09's equals_int_iff over the regenerated "
    "Gen/MockEquals.equalsGen) proves that this is MockNamedValue::equals for integers; the oracle compares the decimal "
    "integers of the scenario text itself; expectation and actual call use different integer types routinely",
]
ASSUMPTIONS = [
    "call counters and call order numbers do not wrap (unsigned int in the code, Nat in the model)",
    "the recording reporter leaves the scenario at the first failure by throwing, as the default reporter leaves the test",
    "an expectation without onObject accepts a call on any object (documented behaviour); such an expectation and one "
    "with the same parameters on a specific object count as ambiguous",
    "output buffers of the caller are at least as large as the expectation's data (8 bytes here)",
    "custom parameter types (comparators/copiers), doubles and tracing are not generated; integer values stay inside the "
    "range of the type they are written with (LP64)",
]
RULE = ("scenarios = 0-8 expectations over <=3 function names, <=3 parameter names, <=2 output parameters, counts 0-4 "
        "(expectOneCall / expectNCalls / expectNoCall), typed values from a small pool so that identical and conflicting "
        "expectations are common, optional object, return value, output bytes; calls = shuffled expansion of the "
        "expectations with parameters in random order and 0-2 mutations (drop, duplicate, change value, rename/add/remove "
        "parameter, wrong/missing/extra object, output parameter), optional return-value query; strict order on/off; "
        "scopes, ignoreOtherCalls, enable/disable, expectedCallsLeft, clear, interleaved expectations; streams: plain "
        "(judged by the oracle), iop (judged by the oracle: several ignoreOtherParameters expectations sharing required "
        "parameters - identical classes and conflicting siblings -, counts > 1, calls with extra parameters / extra output "
        "parameters, calls lacking a required parameter, duplicated and dropped calls), ambig (ambiguous sets, repeated "
        "parameter names, late strictOrder: model comparison only unless the oracle finds them inside the hypothesis), "
        "plugin (2-5 scripted tests per case run in a private TestRegistry with the real MockSupportPlugin, no checkExpectations / "
        "clear of their own, some failing by a plain FAIL before / inside / after the scenario; verdict per test from the run), "
        "teardown (2-4 scripted tests per case in a private TestRegistry WITHOUT the plugin, the library's default "
        "MockFailureReporter, every test verifying the mock itself in teardown() by mock().checkExpectations(); mock().clear(); - "
        "mostly strict-order bodies with two neighbouring calls swapped early and a later deviation that ends the body; every "
        "failure the run records for the test is observed), malformed; every failing scenario of the direct mode also shows the expectation history of its failure text (hist lines); a dedicated family of small cases walks through every ordered pair of the six integer types with values "
        "from the boundary lattice that are equal, or congruent modulo 2^32 / 2^64 but different as integers; non-trivial = at least one expectation and one call; distinct = distinct op sequences")

FUNCS = ["f0", "f1", "f2"]
PNAMES = ["p0", "p1", "p2"]
ONAMES = ["o0", "o1"]
# Parameter values.  Integers are mathematical integers here (Python ints); every time one is written into a
# scenario line it gets a RANDOM integer type that can hold it (int, unsigned, long, unsigned long, long long,
# unsigned long long), so expectation and actual call routinely use different types for the same parameter.
# The pools come from the C09 boundary lattice and contain values that are equal modulo 2^32 / 2^64 but different
# as integers (5, 2^32+5, 5-2^32; -1, 2^32-1, 2^64-1; 2^31, -2^31; 2^63, -2^63; ...), negative vs huge unsigned.
INT_TYPES = [("i", -2**31, 2**31 - 1), ("u", 0, 2**32 - 1), ("l", -2**63, 2**63 - 1), ("ul", 0, 2**64 - 1),
             ("ll", -2**63, 2**63 - 1), ("ull", 0, 2**64 - 1)]
VALUES = {
    "p0": [0, 1, -1, 5, 2**32 + 5, 5 - 2**32, 2**32 - 1, 2**64 - 1, "s:-", "s:61"],
    "p1": [0, 1, 7, 2**32, 2**32 + 1, 2**31, -2**31, 2**31 - 1, 2**63, -2**63, 2**63 - 1, 2**64 - 2**32 + 7, "p:0", "p:1"],
    "p2": [2, -5, 2**32 - 5, 2**64 - 5, "b:0", "b:1", "m:-", "m:00", "m:0001", "cp:1", "cp:2", "s:61", "s:6162"],
}


def fmt_val(rng, v):
    """a typed scenario value for the abstract value `v`"""
    if isinstance(v, int):
        t = rng.choice([t for t, lo, hi in INT_TYPES if lo <= v <= hi])
        return "%s:%d" % (t, v)
    return v


OUTBYTES = ["-", "01", "0102", "a1a2a3a4", "0102030405060708"]
RETS = ["i:0", "i:7", "i:-3", "u:9", "s:6869", "s:-", "p:3", "cp:4", "b:1", "b:0"]
OBJS = ["1", "2"]


class E:
    """an expectation as generated"""
    def __init__(self, scope, fn):
        self.scope, self.fn = scope, fn
        self.count = "one"
        self.ins = []        # [(name, value)]
        self.outs = []       # [(name, hex)]
        self.obj = None
        self.ret = None
        self.iop = False

    def n(self):
        return 1 if self.count == "one" else 0 if self.count == "no" else int(self.count)

    def sig(self):
        # with ignoreOtherParameters the parameters are the REQUIRED ones; the flag is part of the signature
        return (self.fn, self.obj, frozenset(self.ins), frozenset(n for n, _ in self.outs), self.iop)

    def line(self, rng):
        segs = []
        if self.count != "no":
            segs += ["p:%s:%s" % (n, fmt_val(rng, v)) for n, v in self.ins]
            segs += ["out:%s:%s" % (n, h) for n, h in self.outs]
            if self.obj is not None:
                segs.append("o:" + self.obj)
            if self.ret is not None:
                segs.append("ret:" + self.ret)
            if self.iop:
                segs.append("iop")
            rng.shuffle(segs)
        return " ".join(["expect", self.scope, str(self.count), self.fn] + segs)


def conflict(a, b):
    da, db = dict(a.ins), dict(b.ins)
    if any(n in db and db[n] != v for n, v in da.items()):
        return True
    return a.obj is not None and b.obj is not None and a.obj != b.obj


def unambiguous_with(exps, e):
    return all(x.scope != e.scope or x.fn != e.fn or x.sig() == e.sig() or conflict(x, e) for x in exps)


def fresh_exp(rng, scope, fn, ambiguous=False):
    e = E(scope, fn)
    k = rng.choice([0, 1, 1, 2, 2, 3])
    names = rng.sample(PNAMES, k)
    e.ins = [(n, rng.choice(VALUES[n])) for n in names]
    if ambiguous and e.ins and rng.random() < 0.15:          # repeated parameter name
        n = rng.choice(e.ins)[0]
        e.ins.append((n, rng.choice(VALUES[n])))
    if rng.random() < 0.3:
        e.outs = [(n, rng.choice(OUTBYTES)) for n in rng.sample(ONAMES, rng.choice([1, 1, 2]))]
    if rng.random() < 0.2:
        e.obj = rng.choice(OBJS)
    return e


def derive_exp(rng, base, ambiguous=False):
    """identical signature, or one value changed (a conflicting sibling)"""
    e = E(base.scope, base.fn)
    e.ins, e.outs, e.obj, e.iop = list(base.ins), list(base.outs), base.obj, base.iop
    x = rng.random()
    if x < 0.45 and e.ins:
        i = rng.randrange(len(e.ins))
        n = e.ins[i][0]
        e.ins[i] = (n, rng.choice(VALUES[n]))
    elif x < 0.55 and e.obj is not None:
        e.obj = rng.choice(OBJS)
    elif ambiguous and x < 0.8:
        y = rng.random()
        if y < 0.4 and e.ins:
            e.ins.pop(rng.randrange(len(e.ins)))            # subset signature
        elif y < 0.7:
            e.obj = None if e.obj is not None else rng.choice(OBJS)
        else:
            left = [n for n in PNAMES if n not in dict(e.ins)]
            if left:
                n = rng.choice(left)
                e.ins.append((n, rng.choice(VALUES[n])))
    e.outs = [(n, rng.choice(OUTBYTES)) for n, _ in e.outs]
    return e


def decorate(rng, e, iop=False, derived=False):
    e.count = rng.choice(["one", "one", "one", "1", "2", "2", "3", "4", "0", "no"])
    if iop and e.iop:
        e.count = rng.choice(["one", "one", "2", "2", "3", "4", "0"])      # counts > 1 are common
    if e.count == "no":
        e.ins, e.outs, e.obj, e.iop = [], [], None, False
        return e
    if rng.random() < 0.5:
        e.ret = rng.choice(RETS)
    if iop and not derived and rng.random() < 0.65:
        e.iop = True           # siblings derived from an expectation keep its flag (same class or conflicting)
    elif iop and derived and rng.random() < 0.1:
        e.iop = not e.iop      # sometimes flipped: unambiguous only if the sibling conflicts
    return e


def gen_exps(rng, scopes, mode):
    exps = []
    target = rng.choice([0, 1, 2, 3, 3, 4, 5, 6, 8])
    tries = 0
    while len(exps) < target and tries < 40:
        tries += 1
        scope = rng.choice(scopes)
        same = [x for x in exps if x.scope == scope]
        derived = bool(same) and rng.random() < (0.7 if mode == "iop" else 0.55)
        if derived:
            e = derive_exp(rng, rng.choice(same), ambiguous=(mode == "ambig"))
        else:
            e = fresh_exp(rng, scope, rng.choice(FUNCS), ambiguous=(mode == "ambig"))
            if mode == "iop" and not e.ins and rng.random() < 0.7:
                n = rng.choice(PNAMES)                       # required parameters to share
                e.ins = [(n, rng.choice(VALUES[n]))]
        decorate(rng, e, iop=(mode in ("iop", "ambig") and (mode == "iop" or rng.random() < 0.3)), derived=derived)
        if mode in ("plain", "iop") and not unambiguous_with(exps, e):
            continue
        exps.append(e)
    return exps


class C:
    """an actual call as generated"""
    def __init__(self, scope, fn, ins, outs, obj):
        self.scope, self.fn, self.ins, self.outs, self.obj = scope, fn, list(ins), list(outs), obj
        self.r = False

    def line(self, rng):
        segs = ["p:%s:%s" % (n, fmt_val(rng, v)) for n, v in self.ins] + ["out:%s" % n for n in self.outs]
        if self.obj is not None:
            segs.append("o:" + self.obj)
        rng.shuffle(segs)
        if self.r:
            segs.append("r")
        return " ".join(["call", self.scope, self.fn] + segs)


def call_of(e, rng):
    ins = list(e.ins)
    obj = e.obj
    outs = [n for n, _ in e.outs]
    if e.iop and rng.random() < 0.7:
        left = [n for n in PNAMES + ["q9"] if n not in dict(ins)]
        for n in rng.sample(left, rng.randint(0, len(left))):
            ins.append((n, rng.choice(VALUES.get(n, [5, 2**32 + 5, "s:61"]))))
        if rng.random() < 0.2:
            outs += [n for n in rng.sample(ONAMES, 1) if n not in outs]
    if obj is None and rng.random() < 0.08:
        obj = rng.choice(OBJS)            # an expectation without object accepts any object
    return C(e.scope, e.fn, ins, outs, obj)


def mutate(rng, calls, scopes, ambiguous=False, iop=False):
    kinds = ["drop", "dup", "value", "value", "rename", "add", "remove", "object", "out", "unknown", "swap"]
    if iop:
        kinds += ["remove", "remove", "remove", "dup", "add"]     # calls without a required parameter are routine
    kind = rng.choice(kinds)
    if kind == "unknown" or not calls:
        calls.insert(rng.randint(0, len(calls)), C(rng.choice(scopes), rng.choice(FUNCS + ["g9"]), [], [], None))
        return kind
    i = rng.randrange(len(calls))
    c = calls[i]
    if kind == "drop":
        calls.pop(i)
    elif kind == "dup":
        d = C(c.scope, c.fn, c.ins, c.outs, c.obj)
        calls.insert(rng.randint(0, len(calls)), d)
    elif kind == "swap" and len(calls) >= 2:
        j = rng.randrange(len(calls))
        calls[i], calls[j] = calls[j], calls[i]
    elif kind == "value" and c.ins:
        k = rng.randrange(len(c.ins))
        n = c.ins[k][0]
        c.ins[k] = (n, rng.choice(VALUES.get(n, [5, 2**32 + 5])))
    elif kind == "rename" and c.ins:
        k = rng.randrange(len(c.ins))
        left = [n for n in PNAMES + ["q9"] if n not in dict(c.ins)]
        if left:
            n = rng.choice(left)
            c.ins[k] = (n, rng.choice(VALUES.get(n, [5, 2**32 + 5])))
    elif kind == "add":
        left = [n for n in PNAMES + ["q9"] if n not in dict(c.ins)]
        if ambiguous and c.ins and rng.random() < 0.3:
            left = [c.ins[0][0]]                              # repeated parameter name in a call
        if left:
            n = rng.choice(left)
            c.ins.insert(rng.randint(0, len(c.ins)), (n, rng.choice(VALUES.get(n, [5, 2**32 + 5]))))
    elif kind == "remove" and c.ins:
        c.ins.pop(rng.randrange(len(c.ins)))
    elif kind == "object":
        c.obj = rng.choice([None] + OBJS + ["3"])
    elif kind == "out":
        if c.outs and rng.random() < 0.5:
            c.outs.pop(rng.randrange(len(c.outs)))
        else:
            left = [n for n in ONAMES + ["o9"] if n not in c.outs]
            if left:
                c.outs.append(rng.choice(left))
    return kind


def round_ops(rng, scopes, mode):
    """one round: settings, expectations, calls; returns op lines"""
    ops = []
    strict = {s: rng.random() < 0.3 for s in scopes}
    late_strict = mode == "ambig" and rng.random() < 0.2
    if rng.random() < 0.12:
        ops.append("ioc " + rng.choice(scopes))
    for s in scopes:
        if strict[s] and not late_strict:
            ops.append("strict " + s)
    exps = gen_exps(rng, scopes, mode)
    calls = []
    for e in exps:
        for _ in range(e.n()):
            calls.append(call_of(e, rng))
    # order: strict scopes keep the declared order (sometimes disturbed), others are shuffled
    if any(strict.values()):
        if rng.random() < 0.35 and len(calls) >= 2:
            i = rng.randrange(len(calls) - 1)
            calls[i], calls[i + 1] = calls[i + 1], calls[i]
        elif rng.random() < 0.15:
            rng.shuffle(calls)
    else:
        rng.shuffle(calls)
    for _ in range(rng.choice([0, 0, 0, 1, 1, 2]) if mode != "iop" else rng.choice([0, 0, 1, 1, 1, 2])):
        mutate(rng, calls, scopes, ambiguous=(mode == "ambig"), iop=(mode == "iop"))
    for c in calls:
        c.r = rng.random() < 0.55
    elines = [e.line(rng) for e in exps]
    clines = [c.line(rng) for c in calls]
    if rng.random() < 0.2 and elines and clines:
        # some expectations are declared after the first calls
        k = rng.randint(1, len(elines))
        head, tail = elines[:k], elines[k:]
        j = rng.randint(0, len(clines))
        body = head + clines[:j] + tail + clines[j:]
    else:
        body = elines + clines
    if late_strict and body:
        body.insert(rng.randint(0, len(body)), "strict " + rng.choice(scopes))
    if rng.random() < 0.15 and body:
        # a disabled stretch: what happens inside does not exist
        i = rng.randint(0, len(body))
        j = rng.randint(i, len(body))
        s = rng.choice(scopes + ["-"])
        extra = []
        if rng.random() < 0.6:
            x = decorate(rng, fresh_exp(rng, rng.choice(scopes), rng.choice(FUNCS)))
            extra.append(x.line(rng))
            if rng.random() < 0.5:
                cc = call_of(x, rng)
                cc.r = rng.random() < 0.5
                extra.append(cc.line(rng))
        body = body[:i] + ["disable " + s] + extra + ["enable " + s] + body[i:j] + body[j:]
    if rng.random() < 0.2 and body:
        body.insert(rng.randint(0, len(body)), "left " + rng.choice(scopes + ["-"]))
    ops += body
    return ops


def gen_case(rng, mode):
    nsc = rng.choice([0, 0, 0, 1, 2])
    scopes = ["-"] + ["s%d" % (i + 1) for i in range(nsc)]
    if nsc and rng.random() < 0.3:
        scopes = scopes[1:]
    ops = round_ops(rng, scopes, mode)
    x = rng.random()
    if x < 0.75:
        ops.append("check -")
    elif x < 0.9:
        for s in rng.sample(scopes, len(scopes)):
            ops.append("check " + s)
    if rng.random() < 0.12:
        ops.append("clear " + rng.choice(scopes + ["-"]))
        ops += round_ops(rng, scopes, mode)
        ops.append("check -")
    return ops


def gen_scopes_case(rng):
    """two or three named scopes plus the global mock, expectations everywhere, and (mostly) exactly one
    unit left open in ONE scope - often not the last one - before expectedCallsLeft / checkExpectations"""
    named = ["s%d" % (i + 1) for i in range(rng.choice([2, 2, 3]))]
    scopes = (["-"] if rng.random() < 0.7 else []) + named
    ops, calls = [], []
    strict = rng.random() < 0.2
    if strict:
        ops.append("strict -")          # before the scopes exist: they inherit it
    exps = []
    for sc in scopes:
        for _ in range(rng.choice([1, 1, 2])):
            e = decorate(rng, fresh_exp(rng, sc, rng.choice(FUNCS)))
            if e.count in ("0", "no"):
                e.count = "one"
            if unambiguous_with(exps, e):
                exps.append(e)
    rng.shuffle(exps) if not strict else None
    for e in exps:
        ops.append(e.line(rng))
        for _ in range(e.n()):
            calls.append(call_of(e, rng))
    if not strict:
        rng.shuffle(calls)
    x = rng.random()
    if x < 0.7 and calls:
        # leave one unit open in a chosen scope (all but the last scope are preferred)
        order = [sc for sc in scopes[:-1] for _ in range(3)] + [scopes[-1]]
        sc = rng.choice(order)
        idx = [i for i, c in enumerate(calls) if c.scope == sc]
        if idx:
            calls.pop(rng.choice(idx))
    elif x < 0.8 and calls:
        mutate(rng, calls, scopes)
    for c in calls:
        c.r = rng.random() < 0.5
    ops += [c.line(rng) for c in calls]
    tail = rng.choice([["left -", "check -"], ["check -"], ["left -"], ["left " + rng.choice(named), "check -"],
                       ["check " + n for n in rng.sample(named, len(named))] + ["check -"]])
    return ops + tail


LATTICE = sorted({0, 1, 2, 5, 7, -1, -5, 2**31 - 1, 2**31, -2**31, -2**31 - 1, 2**32 - 1, 2**32, 2**32 + 5, 2**33 + 5,
                  2**32 - 5, 5 - 2**32, -2**32, 2**63 - 1, 2**63, 2**63 + 5, -2**63, 2**64 - 1, 2**64 - 5, 2**64 - 2**32 + 5})


def gen_int_case(rng):
    """one expectation, one call, one integer parameter: every ordered pair of the six integer types, with values
    that are equal, or congruent modulo 2^32 / 2^64 but different as integers (wrap-around, sign reinterpretation).
    The call must be accepted iff both denote the same integer."""
    t1, lo1, hi1 = rng.choice(INT_TYPES)
    t2, lo2, hi2 = rng.choice(INT_TYPES)
    x = rng.choice([v for v in LATTICE if lo1 <= v <= hi1])
    near = [x + 2**32, x - 2**32, x + 2**64, x - 2**64, x % 2**32, x % 2**64, x % 2**32 - 2**32, x % 2**64 - 2**64,
            x + 2**33, -x]
    near = [v for v in near if lo2 <= v <= hi2 and v != x]
    r = rng.random()
    if r < 0.3 and lo2 <= x <= hi2:
        y = x
    elif near and r < 0.9:
        y = rng.choice(near)
    else:
        y = rng.choice([v for v in LATTICE if lo2 <= v <= hi2])
    fn, pn = rng.choice(FUNCS), rng.choice(PNAMES)
    ops = ["expect - %s %s p:%s:%s:%d ret:i:1" % (rng.choice(["one", "2"]), fn, pn, t1, x)]
    if rng.random() < 0.3:
        z = rng.choice([v for v in LATTICE if v != x and v != y])
        t3 = rng.choice([t for t, lo, hi in INT_TYPES if lo <= z <= hi])
        ops.insert(rng.randint(0, 1), "expect - one %s p:%s:%s:%d ret:i:2" % (fn, pn, t3, z))
    ops.append("call - %s p:%s:%s:%d r" % (fn, pn, t2, y))
    if rng.random() < 0.3:
        t4 = rng.choice([t for t, lo, hi in INT_TYPES if lo <= x <= hi])
        ops.append("call - %s p:%s:%s:%d r" % (fn, pn, t4, x))
    return ops + ["check -"]


def gen_test_body(rng):
    """the body of one scripted test: a scenario WITHOUT its own checkExpectations / clear (the plugin's job)"""
    scopes = ["-"] if rng.random() < 0.75 else ["-", "s1"]
    ops = [l for l in round_ops(rng, scopes, "plain") if not l.startswith(("check ", "clear "))]
    if rng.random() < 0.4:
        idx = [i for i, l in enumerate(ops) if l.startswith("call ")]
        if idx:
            ops.pop(rng.choice(idx))          # an expectation stays unfulfilled: only the end-of-test check sees it
    return ops


def gen_plugin_case(rng):
    """2-5 scripted tests run in a private registry with the real MockSupportPlugin; some tests fail for an
    unrelated reason (a plain FAIL) before, inside or after their scenario"""
    ops = ["plugin"]
    for t in range(rng.randint(2, 5)):
        ops.append("test t%d" % (t + 1))
        body = gen_test_body(rng)
        r = rng.random()
        if r < 0.12:
            body = ["fail"] + body
        elif r < 0.30:
            body = body + ["fail"]
        elif r < 0.35 and body:
            body.insert(rng.randint(0, len(body)), "fail")
        ops += body
    return ops


def gen_strict_then_deviation(rng):
    """the body of a test under strict ordering: two neighbouring calls swapped early (accepted silently, only the
    end-of-test check diagnoses it), later - mostly - a deviation that is reported at once and ends the body
    (unknown function, surplus call, wrong value, missing / renamed parameter, wrong object), more calls after it"""
    ops = ["strict -"]
    exps = []
    for _ in range(rng.choice([2, 2, 3, 4])):
        for _try in range(10):
            e = decorate(rng, fresh_exp(rng, "-", rng.choice(FUNCS)))
            e.count = rng.choice(["one", "one", "one", "2"])
            if unambiguous_with(exps, e):
                exps.append(e)
                break
    calls = [call_of(e, rng) for e in exps for _ in range(e.n())]
    if len(calls) >= 2 and rng.random() < 0.85:
        i = rng.randrange(len(calls) - 1) if rng.random() < 0.5 else 0
        calls[i], calls[i + 1] = calls[i + 1], calls[i]
    x = rng.random()
    if x < 0.3:
        calls.append(C("-", rng.choice(["g9"] + FUNCS), [], [], None))          # unknown function / surplus call
    elif x < 0.45 and calls:
        c = rng.choice(calls)
        calls.append(C(c.scope, c.fn, c.ins, c.outs, c.obj))                     # surplus call
    elif x < 0.8 and calls:
        tail = calls[-2:]
        mutate(rng, tail, ["-"])
        calls = calls[:-2] + tail
    elif x < 0.9 and calls:
        calls.pop()                                                              # unfulfilled: seen only at the end
    if rng.random() < 0.3:
        calls.append(C("-", rng.choice(FUNCS), [], [], None))
    for c in calls:
        c.r = rng.random() < 0.4
    return ops + [e.line(rng) for e in exps] + [c.line(rng) for c in calls]


def gen_teardown_case(rng):
    """2-4 scripted tests in a private registry WITHOUT the plugin: default reporter, every test verifies the mock
    itself in teardown() (`mock().checkExpectations(); mock().clear();`); mostly strict-order bodies with an early
    out-of-order call and a later deviation, some generic bodies, some plain FAILs"""
    ops = ["teardown"]
    for t in range(rng.randint(2, 4)):
        ops.append("test t%d" % (t + 1))
        body = gen_strict_then_deviation(rng) if rng.random() < 0.7 else gen_test_body(rng)
        r = rng.random()
        if r < 0.05:
            body = ["fail"] + body
        elif r < 0.15:
            body = body + ["fail"]
        ops += body
    return ops


def gen_malformed(rng):
    ops = gen_case(rng, "plain")
    junk = ["call", "call -", "expect - x f0", "expect - no f0 p:p0:i:1", "call - f0 r p:p0:i:1", "call - f0 p:p0:z:1",
            "expect - 2 f0 out:o0:xyz", "frobnicate -", "check", "call - f0 p:p0:i:", "expect - one f0 ret:m:00",
            "strict a b", "call - f0 o:x", "expect - one f0 out:o0:010203040506070809"]
    for _ in range(rng.randint(1, 3)):
        ops.insert(rng.randint(0, len(ops)), rng.choice(junk))
    return ops


def generate(rng, tier):
    n = 1400 if tier == "quick" else 30000
    out = []
    for _ in range(n):
        x = rng.random()
        out.append(("plain", gen_scopes_case(rng) if x < 0.12 else gen_int_case(rng) if x < 0.2 else gen_case(rng, "plain")))
    for _ in range(n // 2):
        out.append(("plain", gen_int_case(rng)))      # small: every ordered pair of integer types, several times
    for _ in range(n // 2):
        out.append(("iop", gen_case(rng, "iop")))
    for _ in range(n // 3):
        out.append(("ambig", gen_case(rng, "ambig")))
    for _ in range(n // 4):
        out.append(("plugin", gen_plugin_case(rng)))
    for _ in range(n // 5):
        out.append(("teardown", gen_teardown_case(rng)))
    for _ in range(n // 30):
        out.append(("malformed", gen_malformed(rng)))
    return out


def translate(ctx):
    from translate import extract_mockmsgs, extract_mockplugin, extract_mocklists, extract_mockreporter
    return ((extract_mockmsgs.run() or []) + (extract_mockplugin.run() or []) + (extract_mocklists.run() or []) +
            (extract_mockreporter.run() or []))


def nontrivial(r):
    return any(l.startswith("expect ") for l in r.ops) and any(l.startswith("call ") for l in r.ops)


CATS = [
    ("Mock Failure: Unexpected call to function", "unexpected-call"),
    ("Mock Failure: Unexpected additional", "additional-call"),
    ("Mock Failure: Unexpected parameter name", "parameter-name"),
    ("Mock Failure: Unexpected parameter value", "parameter-value"),
    ("Mock Failure: Unexpected output parameter name", "output-parameter-name"),
    ("Mock Failure: Unexpected parameter type", "output-parameter-type"),
    ("MockFailure: Function called on an unexpected object", "unexpected-object"),
    ("Mock Failure: Expected parameter for function", "missing-parameter"),
    ("Mock Failure: Expected call on object", "missing-object"),
    ("Mock Failure: Expected call WAS NOT fulfilled", "unfulfilled"),
    ("Mock Failure: Out of order calls", "out-of-order"),
]


def observe(r, rep):
    tag = r.id.split(":")[0]
    failed = False
    for l in r.impl:
        if l.startswith("fail "):
            failed = True
            cat = next((c for p, c in CATS if l[5:].startswith(p)), "other")
            rep.count("verdict.fail." + cat)
        elif l.startswith("ret "):
            rep.count("obs.ret." + ("none" if l == "ret none" else l.split()[1].split(":")[0]))
        elif l.startswith("out "):
            rep.count("obs.out." + ("untouched" if l.endswith("ee" * 8) else "written"))
        elif l.startswith("left "):
            rep.count("obs." + l.replace(" ", "."))
        elif l.startswith("hist "):
            w = l.split()
            if w[1].endswith("-section"):
                rep.count("history.section." + w[1][0] + (".all" if w[2] == "*" else ".related"))
            elif w[1] == "m":
                rep.count("history.missing_names." + ("none" if w[2] == "-" else str(len(w[2].split(",")))))
            elif len(w) == 3 and w[2] == "none":
                rep.count("history.entry." + w[1] + ".none")
            elif w[2].startswith("?"):
                rep.count("history.entry.unreadable")
            else:
                rep.count("history.entry." + w[1])
                if w[4] != "w:-":
                    rep.count("history.entry.with_order_window")
                if "::" in w[2]:
                    rep.count("history.entry.scoped")
    if not failed:
        rep.count("verdict.pass")
    if tag == "plugin":
        tests = [l for l in r.impl if l.startswith("verdict ")]
        rep.count("plugin.tests", len(tests))
        rep.count("plugin.tests_failed", sum(1 for l in tests if l == "verdict fail"))
        seen_fail = False
        for i, l in enumerate(r.impl):
            if l == "> endtest":
                j = i + 1
                fails = []
                while j < len(r.impl) and not r.impl[j].startswith(">"):
                    if r.impl[j].startswith("fail "):
                        fails.append(r.impl[j])
                    j += 1
                if fails and seen_fail:
                    rep.count("plugin.end_of_test_failure_after_an_earlier_failed_test")
            if l == "verdict fail":
                seen_fail = True
    if tag == "teardown":
        tests = [l for l in r.impl if l.startswith("verdict ")]
        rep.count("teardown.tests", len(tests))
        body_failed = hidden = False
        for i, l in enumerate(r.impl):
            if l.startswith("> test "):
                body_failed = False
                hidden = False
            elif l.startswith("fail Mock") and not hidden:
                body_failed = True
            elif l == "> endtest":
                hidden = True
                j = i + 1
                fails = []
                while j < len(r.impl) and not r.impl[j].startswith(">"):
                    if r.impl[j].startswith("fail "):
                        fails.append(r.impl[j])
                    j += 1
                rep.count("teardown.end_check." + ("silent_after_mock_failure_in_body" if body_failed else
                                                   "reports" if fails else "nothing_to_report"))
                if len(fails) > 1:
                    rep.count("teardown.end_check.reported_more_than_once")
    if tag in ("plain", "iop", "plugin", "teardown"):
        rep.count("oracle.judged." + tag)
    if tag == "iop" and any(" iop" in l or l.endswith("iop") for l in r.ops if l.startswith("expect ")):
        rep.count("feature.ignoreOtherParameters")
    named = {l.split()[1] for l in r.ops if len(l.split()) > 1 and l.split()[0] == "expect" and l.split()[1] != "-"}
    if len(named) >= 2:
        rep.count("feature.two_or_more_named_scopes")
        if any(l == "fail Mock Failure: Expected call WAS NOT fulfilled." for l in r.impl):
            rep.count("feature.unfulfilled_with_named_scopes")
    itypes = {}
    for l in r.ops:
        for w in l.split()[3:]:
            f = w.split(":")
            if f[0] == "p" and len(f) == 4 and f[2] in ("i", "u", "l", "ul", "ll", "ull"):
                itypes.setdefault(f[1], set()).add(f[2])
    if any(len(t) >= 2 for t in itypes.values()):
        rep.count("feature.mixed_integer_types")
    if any(l.startswith("strict ") for l in r.ops):
        rep.count("feature.strict")
    if any(l.split()[1] != "-" for l in r.ops if len(l.split()) > 1 and l.split()[0] in ("expect", "call")):
        rep.count("feature.scopes")
    for f in ("ioc", "disable", "clear", "left"):
        if any(l.startswith(f + " ") for l in r.ops):
            rep.count("feature." + f)


LEVEL_TEXT = ("Machine-checked Lean 4 theorems (lean/CppUModel/Props/C08.lean) over an executable model of the mock matching "
              "algorithm as it is in the source (candidate list per actual call, pruning by name / parameter / output parameter / "
              "object with the reset of dropped candidates, per-expectation passed flags inside the shared expectation objects, "
              "completeCallWhenMatchIsFound, the deferred match of ignoreOtherParameters expectations, callWasMade with the order "
              "window, checkExpectations over scopes), for expectation lists and call sequences of ANY length and any order of a "
              "call's steps. For every unambiguous expectation set, plain or with ignoreOtherParameters (mixed allowed): "
              "call_succeeds_iff(_general) (a call is fulfilled iff an expectation with capacity matches it, consumes the first "
              "such, returns its value), verdict_iff_multiset_eq / iop_verdict_iff_multiset_eq (verdict = multiset equality per "
              "signature class) and verdict_order_independent, strict_verdict_iff_sequence_eq(_general) (strict order: sequence "
              "equality per MockSupport object). Plain class in addition: first_deviation_diagnosis / run_is_specRun (the run fails "
              "at the first deviating call, once, with exactly the diagnosis Spec.diagnose computed from the signature sets: "
              "unexpected / additional n-th call, parameter name, parameter value, output parameter, unexpected object, missing "
              "parameter, missing object; else unfulfilled, then out-of-order), outputs_copied_from_consumed (the caller's "
              "buffers with exactly the consumed expectation's bytes copied in, tail untouched). For EVERY expectation list: "
              "lazy_run_is_eager (calls finished lazily by the next actualCall / the return-value getter / checkExpectations, and "
              "ignoreOtherCalls skipping unknown functions, give the verdict of the eager run; hence lazy_*verdict* theorems and "
              "ioc_verdict_iff_multiset_eq), no_stale_matching_state, checkExpectations_over_scopes / expectedCallsLeft_over_scopes "
              "/ unfulfilled_in_any_scope_fails (an unfulfilled expectation in ANY scope fails the global check), plus lemmas that "
              "expectNCalls produces the hypotheses and that the diagnosis texts are the regenerated ones; MockSupportPlugin: "
              "plugin_verdict_is_scenario_verdict (under the plugin a test's failures are those of its own scenario on a fresh "
              "mock followed, unless the test failed itself, by checkExpectations - independent of earlier tests), "
              "plugin_guard_is_own_test (the regenerated guard of postTestAction is !test.hasFailed()); in plugin mode the "
              "harness runs 2-5 scripted tests per case in a private TestRegistry with the real MockSupportPlugin and takes "
              "each test's verdict from the run. The model is tied to "
              "the code on every run by a differential harness over generated scenarios (real mock()/mock(scope) API, recording "
              "reporter, ASan/UBSan); the implementation's own observations (verdict, first line of the failure, returned values, "
              "output bytes, expectedCallsLeft) are judged by an independent textbook oracle in the plain and in the "
              "ignoreOtherParameters class; the failure-message table is regenerated from MockFailure.cpp. "
              "Failure text beyond the first line (direct mode): the expectation history - sections WERE NOT fulfilled / WERE fulfilled "
              "(all expectations of the mock and its scopes, or those related to the function, or only the out-of-order ones, depending "
              "on the failure constructor) and the MISSING-parameters section with the candidates of the call - is modelled "
              "(Model/MockText.lean), observed as canonical `hist` lines and compared on every failing scenario; the oracle demands "
              "that the sections list exactly the declared expectations (of the function) with their expected count and the number of "
              "calls that consumed them, unfulfilled ones first, that the MISSING section lists the expectations with capacity that "
              "accept every step of the call, and that the out-of-order failure lists the expectations of strict scopes called at "
              "another position than declared. Theorems: history_partition, unfulfilled_section_exact, "
              "unfulfilled_failure_iff_section_nonempty, related_history_is_about_the_function, afterCalls_refines_consume, "
              "end_of_test_history_is_unconsumed_capacity (after any sequence of fulfilled calls the history of the end-of-test "
              "failure is the history of the abstract consumption state, every class, any length). Regenerated on every run and "
              "proved equal to the model (Gen/MockLists.lean, source_primitives_are_the_model + 28 gen_* obligations): every "
              "pruning loop of MockExpectedCallsList (onlyKeep*, with or without the reset of dropped candidates), the first-match "
              "searches, the has* queries, the for-each setters, amountOfActualCallsFulfilledFor, the section selection of "
              "(un)fulfilledCallsToString, and isFulfilled / canMatchActualCalls / isMatchingActualCall(AndFinalized) / relatesTo / "
              "relatesToObject / hasInputParameter / hasOutputParameter / callWasMade (order window) / resetActualCallMatchingState "
              "of MockCheckedExpectedCall; of MockSupport the strict-order window arithmetic of expectNCalls, the pre-increment of "
              "createActualCall and the condition of callIsIgnored (gen_expectN_strict, gen_startCall_routing), the statement order "
              "of actualCall and checkExpectations (gen_statement_order); the source's composition of checkInputParameter / "
              "checkOutputParameter from the regenerated primitives equals the model's (gen_checkInput_pipeline, "
              "gen_checkOutput_pipeline, gen_callCheck_succeed).")
LEVEL_NOTE = ("Trusted: Lean kernel; the hand-written model (validated against the code by the correspondence of this run, "
              "including enable/disable, clear, ambiguous sets and malformed calls, which the theorems do not cover); the oracle's "
              "reading of the property; the message extractor. The run theorems are stated for one MockSupport object (the "
              "global mock, name \"\"); scoped function names and the interplay of several scopes are covered by "
              "checkExpectations_over_scopes / expectedCallsLeft_over_scopes and otherwise by correspondence. Diagnosis and "
              "output-byte theorems are for the plain class; for ignoreOtherParameters the diagnosis is judged by the oracle "
              "only. Not carried by theorems: ambiguous sets, enable/disable; equality of non-integer parameter values (strings, "
              "pointers, buffers) is C09's subject and enters here only through the correspondence. The failure history is modelled "
              "up to parameter values and type names (dropped by the canonical form); the ACTUAL-parameter tail and the object "
              "address line of the text are not observed; in plugin mode only the first lines are compared. The control flow of "
              "MockCheckedActualCall / MockSupport (which primitive is called when) stays hand-modelled (correspondence); only the "
              "primitives themselves are regenerated. Not covered at all: tracing, the data store, custom comparators / copiers, "
              "doubles, the return-value reader families (C09), MockSupport::crashOnFailure. See coverage/C08.md.")
TECHNIQUE = ("Lean 4 invariant / refinement-to-multiset proofs over an executable model + differential correspondence harness "
             "+ independent specification oracle + regenerated failure-message table + list primitives and expectation predicates "
             "regenerated from their token structure and proved equal to the model")
