"""C04 — leak accounting is exact: generator and property-specific settings."""
ID = "C04"
HARNESS = "h_c04"
KEEP_FIRST = 1          # the `setup` line (prints the allocator registry the driver needs)
SHRINK_BUDGET = 300

HP = 73                 # hash_prime of the pinned tree; only used to aim blocks at shared buckets
NSLOTS = 73 * 6
FILES = ["f%d.c" % i for i in range(10)]
PERIODS = ["all", "disabled", "enabled", "checking"]
CALLABLE = list(range(13))                  # allocator registry of h_c04_util.h: 13, 14 are identity-only
FAMILY = {0: "N", 3: "N", 9: "N", 1: "A", 4: "A", 2: "M", 5: "M", 10: "M", 11: "M", 6: "CA", 7: "CA", 8: "CB", 12: "CB"}


ACQ_FORMS = {"new": ["new", "new_fi", "new_fs", "new_nt"], "newarray": ["newa", "newa_fi", "newa_fs", "newa_nt"], "malloc": ["malloc"]}
REL_FORMS = {"new": ["del", "del_fi", "del_fs", "del_sz", "del_nt"], "newarray": ["dela", "dela_fi", "dela_fs", "dela_sz", "dela_nt"],
             "malloc": ["free"]}
FAMILY_OF_KIND = {"N": "new", "A": "newarray", "M": "malloc"}


class Gen:
    """tracks what the generator needs to keep histories mostly valid: which slots are occupied in the arena,
    which labels are tracked, their stage and period"""

    def __init__(self, rng, c06=False):
        self.rng = rng
        self.c06 = c06
        self.ops = ["setup"]
        self.k = 0
        self.blocks = {}        # label -> dict(slot,size,alloc,sep,stage,period,tracked)
        self.occupied = set()   # arena slots in use (also by blocks whose record was cleared)
        self.stale = []         # labels released earlier
        self.orphans = []       # labels whose record was cleared: the client still owns the block
        self.no_drop = False    # malformed stream: the generator's picture of the detector may be wrong, never drop
        self.period = "disabled"
        self.stage = 0
        self.cur = {"new": 0, "newarray": 1, "malloc": 2}      # current allocators of the three families (setcur)
        self.hot = [rng.randrange(HP) for _ in range(rng.choice([1, 2, 3]))]
        self.typecheck = True
        # bookkeeping layout of the history: every block inline, every block with a separate node, or per family
        # as the real overloads do (malloc family separate, new / new[] inline)
        self.mode = rng.choice(["inline", "separate", "family"])
        # the switch position of the global overloads (script state of the harness): on/off, saved position, nesting depth
        self.ov_on, self.ov_saved, self.ov_depth = True, True, 0
        self.raw = []           # labels of live blocks the detector does not hold (acquired with the overloads off)
        self.stashed = None     # current allocators at the last `stash save`
        self.switchy = False    # True: the switch stream (global entry points, switch functions, current allocators dominate)

    def sep_for(self, ai):
        if self.mode == "family":
            return FAMILY.get(ai) == "M"
        return self.mode == "separate"

    def tracked(self):
        return [l for l, b in self.blocks.items() if b["tracked"]]

    def pick_slot(self):
        rng = self.rng
        for _ in range(20):
            if rng.random() < 0.6:
                s = rng.choice(self.hot) + HP * rng.randrange(6)
            else:
                s = rng.randrange(NSLOTS)
            if s not in self.occupied:
                return s
        return None

    def size(self):
        x = self.rng.random()
        if x < 0.55:
            return self.rng.randint(0, 8)
        if x < 0.9:
            return self.rng.randint(0, 40)
        return self.rng.randint(41, 400)

    def loc(self):
        return self.rng.choice(FILES), self.rng.randint(1, 999)

    def new_label(self):
        self.k += 1
        return "b%d" % self.k

    def alloc(self):
        rng = self.rng
        s = self.pick_slot()
        if s is None:
            return
        l, size, ai = self.new_label(), self.size(), rng.choice(CALLABLE)
        sep = self.sep_for(ai)
        f, ln = self.loc()
        if sep and ai in (3, 4, 5, 7, 8) and rng.random() < 0.06:
            # no memory for the separate accounting record: the block goes back, nothing is tracked
            self.ops.append("alloc %s %d %d %d %s %d %d nodenull" % (l, s, size, ai, f, ln, sep))
            return
        self.ops.append("alloc %s %d %d %d %s %d %d" % (l, s, size, ai, f, ln, sep))
        self.blocks[l] = dict(slot=s, size=size, alloc=ai, sep=sep, stage=self.stage, period=self.period, tracked=True)
        self.occupied.add(s)

    def galloc(self):
        """a block through one of the real acquiring overloads (every form: plain, file/line with int or size_t line, nothrow,
        [] variants, cpputest_malloc_location)"""
        rng = self.rng
        s = self.pick_slot()
        if s is None:
            return
        fam = rng.choice(["new", "newarray", "malloc"])
        form = rng.choice(ACQ_FORMS[fam])
        l, size = self.new_label(), self.size()
        f, ln = self.loc()
        self.ops.append("gacq %s %s %d %d %s %d" % (form, l, s, size, f, ln))
        self.blocks[l] = dict(slot=s, size=size, alloc=self.cur[fam], sep=(fam == "malloc"), stage=self.stage, period=self.period,
                              tracked=self.ov_on, gfam=fam)
        if not self.ov_on:
            self.raw.append(l)      # went to the platform malloc: live, but nothing the detector knows about
        self.occupied.add(s)

    def raw_release(self):
        """a block acquired with the overloads off goes back: through any releasing overload while they are off, else the client
        returns it to the platform itself (`drop`); now and then it is (wrongly) given to the detector, which must refuse it"""
        rng = self.rng
        if not self.raw:
            return
        l = rng.choice(self.raw)
        b = self.blocks[l]
        f, ln = self.loc()
        if self.ov_on and rng.random() < 0.3:
            self.ops.append("grel %s %s 0 %s %d" % (rng.choice(REL_FORMS[rng.choice(["new", "newarray", "malloc"])]), l, f, ln))
            return                  # reported as non-allocated, the block stays where it is
        if self.ov_on or self.no_drop or rng.random() < 0.3:
            if self.no_drop:
                return
            self.ops.append("drop " + l)
        else:
            self.ops.append("grel %s %s 0 %s %d" % (rng.choice(REL_FORMS[rng.choice(["new", "newarray", "malloc"])]), l, f, ln))
        self.raw.remove(l)
        self.occupied.discard(b["slot"])
        self.stale.append(l)

    def grealloc(self):
        """cpputest_realloc_location: the C entry point behind realloc_fptr"""
        rng = self.rng
        f, ln = self.loc()
        size = self.size()
        x = rng.random()
        nl = self.new_label()
        if not self.ov_on:
            # platform realloc: from NULL or of a block the detector does not hold
            old = rng.choice(self.raw) if self.raw and x < 0.7 else None
            if old and x < 0.25:
                self.ops.append("grealloc %s 0 %s same %d %s %d" % (old, nl, size, f, ln)); s = self.blocks[old]["slot"]
            else:
                s = self.pick_slot()
                if s is None:
                    return
                self.ops.append("grealloc %s 0 %s %d %d %s %d" % (old or "null", nl, s, size, f, ln))
                if old:
                    self.occupied.discard(self.blocks[old]["slot"])
            if old:
                self.raw.remove(old); self.stale.append(old)
            self.blocks[nl] = dict(slot=s, size=size, alloc=self.cur["malloc"], sep=True, stage=self.stage, period=self.period, tracked=False, gfam="malloc")
            self.raw.append(nl); self.occupied.add(s)
            return
        cands = [l for l in self.tracked() if self.blocks[l]["sep"]]
        if x < 0.15 or not cands:
            if x < 0.05 and self.raw:
                # a block the detector does not hold: reported, nothing moves
                self.ops.append("grealloc %s 0 %s %d %d %s %d" % (rng.choice(self.raw), nl, self.pick_slot() or 0, size, f, ln))
                return
            s = self.pick_slot()
            if s is None:
                return
            self.ops.append("grealloc null 0 %s %d %d %s %d" % (nl, s, size, f, ln))
        else:
            l = rng.choice(cands)
            b = self.blocks[l]
            if x < 0.22:     # interior / neighbouring address: not an outstanding block
                self.ops.append("grealloc %s %d %s %d %d %s %d" % (l, rng.choice([-1, 1, 8, 73]), nl, self.pick_slot() or 0, size, f, ln))
                return
            if x < 0.32:     # PlatformSpecificRealloc fails: the old block stays
                self.ops.append("grealloc %s 0 %s null %d %s %d" % (l, nl, size, f, ln))
                return
            if x < 0.55:
                self.ops.append("grealloc %s 0 %s same %d %s %d" % (l, nl, size, f, ln)); s = b["slot"]
            else:
                s = self.pick_slot()
                if s is None:
                    return
                self.ops.append("grealloc %s 0 %s %d %d %s %d" % (l, nl, s, size, f, ln))
                self.occupied.discard(b["slot"])
            b["tracked"] = False
            self.stale.append(l)
        self.blocks[nl] = dict(slot=s, size=size, alloc=self.cur["malloc"], sep=True, stage=self.stage, period=self.period, tracked=True, gfam="malloc")
        self.occupied.add(s)

    def ov_op(self):
        """the five switch functions; restore only when a save is open (the malformed stream also sends unbalanced ones)"""
        rng = self.rng
        w = rng.choice(["off", "plain", "threadsafe", "save", "save", "restore", "restore", "restore"])
        if w == "restore" and self.ov_depth == 0 and not self.no_drop:
            w = rng.choice(["off", "plain", "threadsafe"])
        self.ops.append("ov " + w)
        if w == "off":
            self.ov_on = False
        elif w in ("plain", "threadsafe"):
            self.ov_on = True
        elif w == "save":
            if self.ov_depth == 0:
                self.ov_saved, self.ov_on = self.ov_on, False
            self.ov_depth += 1
        elif self.ov_depth > 0:
            self.ov_depth -= 1
            if self.ov_depth == 0:
                self.ov_on = self.ov_saved

    def cur_op(self):
        """the current allocators: to the default, to NULL (the getter installs the default), stash save / restore"""
        rng = self.rng
        x = rng.random()
        fam = rng.choice(["new", "newarray", "malloc"])
        dflt = {"new": 0, "newarray": 1, "malloc": 2}
        if x < 0.25:
            self.ops.append("setcur-default " + fam); self.cur[fam] = dflt[fam]
        elif x < 0.45:
            self.ops.append("setcur %s null" % fam); self.cur[fam] = dflt[fam]
        elif x < 0.7:
            self.ops.append("stash save"); self.stashed = dict(self.cur)
        else:
            self.ops.append("stash restore")
            if self.stashed:
                self.cur = dict(self.stashed)

    def grelease_paired(self):
        """a block goes back through one of the releasing overloads of its own family (any form)"""
        rng = self.rng
        cands = [l for l in self.tracked() if self.blocks[l].get("gfam")]
        if not self.ov_on:
            return self.raw_release()     # a tracked block must not go to the platform free behind the detector's back
        if not cands:
            return
        l = rng.choice(cands)
        b = self.blocks[l]
        f, ln = self.loc()
        self.ops.append("grel %s %s 0 %s %d" % (rng.choice(REL_FORMS[b["gfam"]]), l, f, ln))
        b["tracked"] = False
        self.occupied.discard(b["slot"])
        self.stale.append(l)

    def setcur(self):
        fam = self.rng.choice(["new", "newarray", "malloc"])
        ai = self.rng.choice(CALLABLE)
        self.ops.append("setcur %s %d" % (fam, ai))
        self.cur[fam] = ai

    def overloads_op(self):
        self.ops.append("overloads " + self.rng.choice(["threadsafe", "threadsafe", "plain"]))

    def release_args(self, b):
        rng = self.rng
        ai = b["alloc"] if rng.random() < 0.8 else rng.choice(CALLABLE)
        # a block is released with the layout it was allocated with (as each family's overloads do)
        return ai, b["sep"]

    def free(self):
        rng = self.rng
        x = rng.random()
        f, ln = self.loc()
        tr = self.tracked()
        if x < 0.70 and tr:
            l = rng.choice(tr)
            b = self.blocks[l]
            ai, sep = self.release_args(b)
            self.ops.append("free %d %s 0 %s %d %d" % (ai, l, f, ln, sep))
            b["tracked"] = False
            self.occupied.discard(b["slot"])
            self.stale.append(l)
        elif x < 0.80 and self.stale:
            l = rng.choice(self.stale)
            # stale label: its slot may have been handed out again, in which case this is a valid release
            b = self.blocks[l]
            again = [m for m in tr if self.blocks[m]["slot"] == b["slot"]]
            self.ops.append("free %d %s 0 %s %d %d" % (b["alloc"], l, f, ln, b["sep"]))
            for m in again:
                self.blocks[m]["tracked"] = False
                self.occupied.discard(b["slot"])
                self.stale.append(m)
        elif x < 0.88 and tr:
            l = rng.choice(tr)
            d = rng.choice([-8, -7, -5, -3, -2, -1, 1, 2, 3, 4, 5, 6, 7, 8, 73, -73, 512 - 1])
            self.ops.append("free %d %s %d %s %d %d" % (self.blocks[l]["alloc"], l, d, f, ln, self.blocks[l]["sep"]))
        elif x < 0.93:
            self.ops.append("free %d null 0 %s %d %d" % (rng.choice(CALLABLE), f, ln, rng.random() < 0.5))
        elif x < 0.95 and self.raw:
            # a block acquired with the overloads off was never the detector's: reported as non-allocated
            self.ops.append("free %d %s 0 %s %d %d" % (rng.choice(CALLABLE), rng.choice(self.raw), f, ln, rng.random() < 0.5))
        else:
            a = rng.choice([1, 72, 73, 1167, 1168 + 512 * NSLOTS + rng.randrange(100000), rng.randrange(1 << 40)])
            self.ops.append("free %d @%d 0 %s %d %d" % (rng.choice(CALLABLE), a, f, ln, rng.random() < 0.5))

    def realloc(self):
        rng = self.rng
        tr = self.tracked()
        f, ln = self.loc()
        size = self.size()
        x = rng.random()
        if x < 0.12 or not tr:
            s = self.pick_slot()
            if s is None:
                return
            l, ai = self.new_label(), rng.choice(CALLABLE)
            sep = self.sep_for(ai)
            self.ops.append("realloc %d null 0 %s %d %d %s %d %d" % (ai, l, s, size, f, ln, sep))
            self.blocks[l] = dict(slot=s, size=size, alloc=ai, sep=sep, stage=self.stage, period=self.period, tracked=True)
            self.occupied.add(s)
            return
        l = rng.choice(tr)
        b = self.blocks[l]
        ai, sep = self.release_args(b)
        if x < 0.2:      # not an outstanding block
            d = rng.choice([-1, 1, 8, 73])
            self.ops.append("realloc %d %s %d %s %d %d %s %d %d" % (ai, l, d, self.new_label(), self.pick_slot() or 0, size, f, ln, sep))
            return
        if x < 0.3:      # PlatformSpecificRealloc fails: the old block stays
            self.ops.append("realloc %d %s 0 %s null %d %s %d %d" % (ai, l, self.new_label(), size, f, ln, sep))
            b["sep"] = sep
            return
        nl = self.new_label()
        if x < 0.5:
            self.ops.append("realloc %d %s 0 %s same %d %s %d %d" % (ai, l, nl, size, f, ln, sep))
            s = b["slot"]
        else:
            s = self.pick_slot()
            if s is None:
                return
            self.ops.append("realloc %d %s 0 %s %d %d %s %d %d" % (ai, l, nl, s, size, f, ln, sep))
            self.occupied.discard(b["slot"])
        b["tracked"] = False
        self.stale.append(l)
        self.blocks[nl] = dict(slot=s, size=size, alloc=ai, sep=sep, stage=self.stage, period=self.period, tracked=True)
        self.occupied.add(s)

    def period_op(self):
        p = self.rng.choice(["start", "stop", "enable", "disable", "start", "disable"])
        self.ops.append("period " + p)
        self.period = {"start": "checking", "stop": "enabled", "enable": "enabled", "disable": "disabled"}[p]

    def stage_op(self):
        x = self.rng.random()
        if x < 0.03:
            # all the way round: the unsigned char stage wraps and meets the blocks of the stage it started from
            n = self.rng.choice([255, 256, 257])
            self.ops += ["stage inc"] * n
            self.stage = (self.stage + n) % 256
            return
        if x < 0.4:
            self.ops.append("stage inc"); self.stage = (self.stage + 1) % 256
        elif x < 0.6:
            self.ops.append("stage dec"); self.stage = (self.stage - 1) % 256
        else:
            self.ops.append("stage release")
            for l in self.tracked():
                b = self.blocks[l]
                if b["stage"] == self.stage:
                    b["tracked"] = False
                    self.occupied.discard(b["slot"])
                    self.stale.append(l)

    @staticmethod
    def in_period(q, p):
        return q == "all" or p == q or (p != "disabled" and q == "enabled")

    def clear(self):
        q = self.rng.choice(PERIODS)
        self.ops.append("clear " + q)
        for l in self.tracked():
            b = self.blocks[l]
            if self.in_period(q, b["period"]):
                b["tracked"] = False        # the arena slot stays occupied: the client still owns the block
                self.orphans.append(l)
        # the client usually gives the forgotten blocks back to the underlying allocator itself
        keep = []
        for l in self.orphans:
            if not self.no_drop and self.rng.random() < 0.8:
                self.ops.append("drop " + l)
                self.occupied.discard(self.blocks[l]["slot"])
                self.stale.append(l)
            else:
                keep.append(l)
        self.orphans = keep

    def mark(self):
        self.ops.append("mark")
        for l in self.tracked():
            if self.blocks[l]["period"] == "checking":
                self.blocks[l]["period"] = "enabled"

    def report(self):
        self.ops.append("report " + self.rng.choice(PERIODS))

    def switch_step(self):
        """one of the operations on the global entry points and their switches"""
        x = self.rng.random()
        if x < 0.25:
            self.galloc()
        elif x < 0.40:
            self.grelease_paired()
        elif x < 0.55:
            self.grealloc()
        elif x < 0.63:
            self.raw_release()
        elif x < 0.83:
            self.ov_op()
        elif x < 0.93:
            self.cur_op()
        else:
            self.setcur()

    def step(self):
        x = self.rng.random()
        n = len(self.tracked())
        if self.switchy and x < 0.45:
            return self.switch_step()
        if x < 0.05:
            self.galloc()
        elif x < 0.08:
            self.grelease_paired()
        elif x < 0.09:
            self.setcur() if self.rng.random() < 0.5 else self.overloads_op()
        elif x < 0.10 and self.switchy is not None:
            self.switch_step()
        elif x < 0.36 or n == 0 and x < 0.6:
            self.alloc()
        elif x < 0.60:
            self.free()
        elif x < 0.70:
            self.realloc()
        elif x < 0.78:
            self.period_op()
        elif x < 0.85:
            self.stage_op()
        elif x < 0.87:
            self.clear()
        elif x < 0.91:
            self.mark()
        else:
            self.report()


def gen_switch_case(rng, n):
    """histories dominated by the global entry points (every operator form, cpputest_malloc/realloc/free_location), the five
    switch functions (off / plain / thread-safe / saveAndDisable / restore, nested) and the current-allocator functions"""
    g = Gen(rng)
    g.switchy = True
    g.mode = "family"
    g.period = "enabled"; g.ops.append("period enable")
    for _ in range(n):
        g.step()
    # leave the switches as found (balanced), then the final reports
    while g.ov_depth > 0:
        g.ops.append("ov restore"); g.ov_depth -= 1
    for q in PERIODS:
        g.ops.append("report " + q)
    return g.ops


def gen_many(rng, n):
    """very many allocations on few slots: the allocation number keeps counting, the table stays small"""
    g = Gen(rng)
    g.ops.append("period enable"); g.period = "enabled"
    slots = [rng.randrange(NSLOTS) for _ in range(3)]
    for i in range(n):
        s = slots[i % 3]
        g.ops.append("alloc m%d %d %d 0 many.c %d 0" % (i, s, i % 7, 1 + i % 900))
        if i % 3 != 2 or rng.random() < 0.9:
            g.ops.append("free 0 m%d 0 many.c 2 0" % i)
        else:
            g.ops.append("realloc 0 m%d 0 r%d same %d many.c 3 0" % (i, i, i % 5))
            g.ops.append("free 0 r%d 0 many.c 4 0" % i)
    g.ops.append("report all")
    return g.ops


def gen_case(rng, n):
    g = Gen(rng)
    # a third of the cases start by filling up (so that chains are long from the start)
    if rng.random() < 0.35:
        g.period = "enabled"; g.ops.append("period enable")
        for _ in range(rng.randint(5, 60)):
            if rng.random() < 0.15:
                g.period_op()
            g.alloc()
    for _ in range(n):
        g.step()
    for q in PERIODS:
        g.ops.append("report " + q)
    return g.ops


def gen_plugin_case(rng, ntests):
    """the real MemoryLeakWarningPlugin drives the detector: pre action, a scripted test body (allocations through the API and
    the overloads, releases of own and of earlier tests' blocks, ignore / expect flags), post action; reports of the checking
    period after every post action and right after the next pre action"""
    g = Gen(rng)
    for _ in range(rng.randint(0, 3)):
        g.alloc()
    g.ops.append("plugin create"); g.period = "enabled"
    for t in range(ntests):
        if rng.random() < 0.3:       # between two tests
            g.alloc() if rng.random() < 0.5 else g.free()
        g.ops.append("plugin pre"); g.period = "checking"
        g.ops.append("report checking")
        for _ in range(rng.randint(0, 7)):
            x = rng.random()
            if x < 0.35:
                g.alloc()
            elif x < 0.5:
                g.galloc()
            elif x < 0.7:
                g.free()
            elif x < 0.78:
                g.grelease_paired()
            elif x < 0.88:
                g.ops.append("plugin ignore")
            elif x < 0.95:
                g.ops.append("plugin expect %d" % rng.randint(0, 4))
            else:
                g.realloc()
        g.ops.append("plugin post"); g.period = "enabled"
        for l in g.tracked():
            if g.blocks[l]["period"] == "checking":
                g.blocks[l]["period"] = "enabled"
        g.ops.append("report checking")
        if rng.random() < 0.3:
            g.ops.append("report enabled")
        if rng.random() < 0.25:
            g.ops.append("plugin final %d" % final_arg(g, rng))
    if rng.random() < 0.5:       # something allocated after the last test, still before the final report
        g.alloc() if rng.random() < 0.6 else g.galloc()
    g.ops.append("plugin final %d" % final_arg(g, rng))
    g.ops.append("plugin final 0")
    g.ops.append("report all")
    return g.ops


def gen_rereport_case(rng):
    """several reports asked of ONE detector without a startChecking() in between (`rereport`, `plugin refinal`: the harness does
    not empty the detector's text first): report(p); release some; report(q); report again; everything released, report;
    FinalReport twice.  Few small blocks, so that the text of all the reports fits the detector's text buffer and each answer
    (the text that call appended) is judged: total, entries, no-leaks answer."""
    g = Gen(rng)
    g.size = lambda: rng.randint(0, 6)
    plugin = rng.random() < 0.45

    def release(l):
        b = g.blocks[l]
        f, ln = g.loc()
        g.ops.append("free %d %s 0 %s %d %d" % (b["alloc"], l, f, ln, b["sep"]))
        b["tracked"] = False
        g.occupied.discard(b["slot"])
        g.stale.append(l)

    if rng.random() < 0.3:
        g.alloc()                                   # a block of the disabled period
    if plugin:
        g.ops.append("plugin create")
    else:
        g.ops.append("period enable")
    g.period = "enabled"
    for _ in range(rng.choice([0, 0, 1])):
        g.alloc()
    g.ops.append("plugin pre" if plugin else "period start"); g.period = "checking"
    for _ in range(rng.randint(1, 3)):
        g.alloc() if rng.random() < 0.8 else g.galloc()
    x = rng.random()
    if plugin and x < 0.5:
        g.ops.append("plugin post"); g.period = "enabled"
        for l in g.tracked():
            if g.blocks[l]["period"] == "checking":
                g.blocks[l]["period"] = "enabled"
    elif not plugin and x < 0.5:
        g.ops.append("period stop"); g.period = "enabled"
    for i in range(rng.randint(2, 5)):
        if plugin and rng.random() < 0.4:
            g.ops.append("plugin refinal %d" % final_arg(g, rng))
        else:
            g.ops.append("rereport " + rng.choice(["checking", "checking", "enabled", "all"]))
        y = rng.random()
        tr = g.tracked()
        if y < 0.5 and tr:
            release(rng.choice(tr))
        elif y < 0.6 and len(tr) < 4:
            g.alloc()
        elif y < 0.65:
            g.free()                                # now and then a misuse in between: its text goes into the same buffer
    for l in g.tracked():
        if rng.random() < 0.8:
            release(l)
    g.ops.append("rereport " + rng.choice(["checking", "enabled", "all"]))
    g.ops.append("rereport all")
    if plugin:
        g.ops.append("plugin refinal %d" % rng.choice([0, 0, 1]))
        g.ops.append("plugin refinal 0")
    return g.ops


def final_arg(g, rng):
    """the announced number of leaks: often exactly the number of blocks outstanding for the enabled period, else near it"""
    n = len([l for l in g.tracked() if g.blocks[l]["period"] != "disabled"])
    return n if rng.random() < 0.4 else max(0, n + rng.choice([-2, -1, 1, 3]))


def gen_malformed(rng, n):
    g = Gen(rng)
    g.no_drop = True
    g.switchy = rng.random() < 0.3
    words = ["alloc", "free", "realloc", "period", "stage", "clear", "mark", "report", "setup", "bogus", "", "0", "-1", "999999999999",
             "null", "same", "b1", "b2", "@5", "all", "checking", "x.c", "inc", "release", "start", "ov", "restore", "save", "off", "grealloc",
             "stash", "setcur-default", "setcur", "malloc", "new"]
    for _ in range(n):
        x = rng.random()
        if x < 0.5:
            g.step()
        elif x < 0.8:
            g.ops.append(" ".join(rng.choice(words) for _ in range(rng.randint(1, 10))).strip() or "bogus")
        else:
            # well-formed operation on a slot that is occupied / a label that does not exist / an oversized block
            f, ln = g.loc()
            g.ops.append(rng.choice([
                "alloc z%d %d %d %d %s %d 0" % (rng.randrange(5), rng.choice(sorted(g.occupied) or [0]), g.size(), rng.choice(CALLABLE), f, ln),
                "alloc z%d %d %d %d %s %d 1" % (rng.randrange(5), rng.randrange(NSLOTS), rng.choice([401, 5000, 1 << 40]), rng.choice(CALLABLE), f, ln),
                "alloc z%d %d 4 %d %s %d 0" % (rng.randrange(5), rng.choice([-1, NSLOTS, 10 ** 9]), rng.choice(CALLABLE), f, ln),
                "alloc z%d 5 4 %d %s %d 0" % (rng.randrange(5), rng.choice([13, 14, 15, 99]), f, ln),
                "free 0 nolabel 0 %s %d 0" % (f, ln),
                "realloc 0 nolabel 0 q 3 4 %s %d 0" % (f, ln),
                "report nothing", "clear sometimes", "period maybe", "stage sideways",
            ]))
    g.ops.append("report all")
    return g.ops


def generate(rng, tier):
    out = []
    if tier == "quick":
        n, lens = 500, [3, 10, 30, 80, 200, 400]
    else:
        n, lens = 2400, [10, 50, 200, 600, 1500, 4000]
    for _ in range(n):
        out.append(("gen", gen_case(rng, rng.choice(lens))))
    for _ in range(n // 10):
        out.append(("malformed", gen_malformed(rng, rng.choice([5, 20, 60]))))
    for _ in range(n // 8):
        out.append(("plugin", gen_plugin_case(rng, rng.choice([1, 2, 4, 8, 20]))))
    for _ in range(n // 4):
        out.append(("switch", gen_switch_case(rng, rng.choice(lens[:5]))))
    for _ in range(n // 5):
        out.append(("rereport", gen_rereport_case(rng)))
    out.append(("many", gen_many(rng, 1500 if tier == "quick" else 20000)))
    return out


def signature(r):
    """class of a failing case: the default one with lists of addresses / totals collapsed, so that shrinking may drop blocks"""
    import re
    from vlib import flow
    return re.sub(r"\[[^\]]*\]", "[..]", flow.default_signature(r))


def translate(ctx):
    from translate import extract_leakdetector, extract_leakplugin, extract_leakloops
    # the plugin's pre / post statement lists (C07's translator; the C04 model of the plugin-driven scenario imports them)
    return (extract_leakdetector.run() or []) + (extract_leakplugin.run() or []) + (extract_leakloops.run() or [])


def _walk(r):
    """re-derives chain positions from the implementation's trace (for the histogram only)"""
    buckets = {}
    op = None
    for l in r.impl:
        w = l.split()
        if not w:
            continue
        if w[0] == ">":
            op = w[1:]
            if op and op[0] in ("free", "realloc") and len(op) > 2 and op[2].isdigit():
                a = int(op[2])
                ch = buckets.get(a % HP, [])
                if a in ch:
                    i = ch.index(a)
                    yield ("release_chain_len_%s" % ("1" if len(ch) == 1 else "2" if len(ch) == 2 else "3+"))
                    if len(ch) >= 3:
                        yield "release_from_%s_of_chain" % ("head" if i == 0 else "tail" if i == len(ch) - 1 else "middle")
                    ch.remove(a)
                elif a != 0:
                    yield "release_of_non_outstanding"
                else:
                    yield "release_of_null"
            elif op and op[0] == "clear":
                buckets.clear()       # positions are no longer followed after a clear
            elif op and op[0] == "stage" and op[1] == "release":
                pass
        elif w[0] == "ret" and w[1] != "0" and op and op[0] in ("alloc", "realloc"):
            a = int(w[1])
            buckets.setdefault(a % HP, []).insert(0, a)
        elif w[0] == "ufree" and op and op[0] == "stage":
            a = int(w[1])
            ch = buckets.get(a % HP, [])
            if a in ch:
                ch.remove(a)
            yield "stage_release_block"
        elif w[0] == "report":
            yield ("report_again_" if op and (op[0] == "rereport" or op[:2] == ["plugin", "refinal"]) else "report_") + w[1]
        elif w[0] == "leak":
            yield "report_entry"
        elif w[0] == "fail":
            yield "fail_" + w[1]
        elif w[0] == "nalloc" and len(w) > 1:
            yield "alloc_record_out_of_memory"
        elif w[0] == "urealloc":
            yield "realloc_failed" if w[3] == "0" else "realloc_in_place" if w[3] == w[1] else "realloc_from_null" if w[1] == "0" else "realloc_moved"


def nontrivial(r):
    ks = set(_walk(r))
    return bool(ks & {"release_chain_len_2", "release_chain_len_3+", "stage_release_block", "report_entry"})


def observe(r, rep):
    for k in _walk(r):
        rep.count("branch." + k)
    # counters outside the claim that the model also follows: stage wrap-around, period switches that do not nest
    stage, lastp = 0, []
    for l in r.impl:
        w = l.split()
        if w[:1] == ["stagenow"]:
            n = int(w[1])
            if stage == 0 and n == 255:
                rep.count("branch.stage_wrap_0_to_255")
            elif stage == 255 and n == 0:
                rep.count("branch.stage_wrap_255_to_0")
            stage = n
        elif w[:2] == [">", "period"]:
            lastp = (lastp + [w[2]])[-3:]
            if lastp == ["disable", "disable", "enable"]:
                rep.count("branch.two_disables_then_enable")
            if lastp[-2:] == ["disable", "start"]:
                rep.count("branch.start_checking_while_disabled")
    on, depth = True, 0
    op = []
    for l in r.impl:
        w = l.split()
        if w[:1] == [">"]:
            op = w[1:]
            if op[:1] == ["ov"] and len(op) > 1:
                rep.count("branch.ov_" + op[1])
                if op[1] == "save":
                    depth += 1
                    rep.count("branch.ov_save_depth_%s" % ("1" if depth == 1 else "2" if depth == 2 else "3+"))
                elif op[1] == "restore":
                    rep.count("branch.ov_restore_%s" % ("unbalanced" if depth == 0 else "outermost" if depth == 1 else "inner"))
                    depth = max(0, depth - 1)
            elif op[:1] == ["stash"] or op[:1] == ["setcur-default"] or (op[:1] == ["setcur"] and op[-1:] == ["null"]):
                rep.count("branch.current_" + "_".join(op[:2] if op[0] != "setcur" else ["setcur", "null"]))
            elif op[:1] in (["gacq"], ["grel"], ["grealloc"]):
                rep.count("branch.%s_overloads_%s" % (op[0], "on" if on else "off"))
        elif w[:1] == ["overloaded"] and len(w) > 1:
            on = w[1] == "1"
        elif w[:1] == ["urealloc"] and op[:1] == ["grealloc"] and len(w) > 3:
            rep.count("branch.grealloc_" + ("failed" if w[3] == "0" else "in_place" if w[3] == w[1] else "from_null" if w[1] == "0" else "moved"))
    for l in r.impl:
        if l.startswith("totals "):
            n = int(l.split()[1])
            rep.count("live_blocks." + ("0" if n == 0 else "1-3" if n <= 3 else "4-15" if n <= 15 else "16-60" if n <= 60 else "61+"))


TRUSTED = [
    "Lean 4 kernel; axioms of every theorem audited (propext, Classical.choice, Quot.sound at most)",
    "hand-written model lean/CppUModel/Model/LeakDetector.lean (detector, allocMemory / deallocMemory / reallocMemory, stage release, "
    "mark, report iteration) and Model/LeakOverloads.lean (interpreter of the regenerated switch functions and wrappers), tied to "
    "src/CppUTest/MemoryLeakDetector.cpp / MemoryLeakWarningPlugin.cpp / TestMemoryAllocator.cpp by the h_c04 correspondence of this "
    "run (private detector, arena with chosen addresses, both bookkeeping layouts, the real global entry points and switch functions)",
    "extractors translate/extract_leakdetector.py and translate/extract_leakloops.py: hash, isInPeriod, isInAllocationStage, "
    "matchingAllocation and the guards of the six list loops translated expression by expression; the loop skeletons are matched "
    "and a chain pointer is read as the list suffix that starts there (that reading is the extractor's); tables, assignment lists, "
    "counter guards and static initialisers of the overload switches; the stash; every generated definition is used by a proof "
    "obligation and executed by the correspondence",
    "platform allocator contract: an address handed out is not the address of a block that is still outstanding (hypothesis FreshAddr)",
    "the harness's parsing of the report text (entries are compared after parsing; the text itself through length and hash, C04x)",
]
ASSUMPTIONS = [
    "allocation sequence number below 2^32 (modelled as a natural number; followed through 1 500 / 20 000 allocations per run); the "
    "allocation stage is the C unsigned char and wraps in the model too",
    "a C++ node pointer is identified with the address of its block: equal under the invariant (no two records with one address)",
    "allocators passed to the detector are alive (hasBeenDestroyed() false)",
    "a block is released / reallocated with the bookkeeping layout it was allocated with; each history runs in one layout: all inline, all "
    "separate, or per family as the real overloads do (malloc family separate, new / new[] inline)",
    "PlatformSpecificRealloc succeeds or returns NULL (then the old block stays outstanding, as the code is since commit 62e3629)",
    "line numbers fit an int (the texts print them through (int))",
    "the detector's text buffer is emptied before each report (startChecking + restoring the period), so reports are not truncated by earlier text; "
    "a report too long for the buffer is compared by its total only",
    "with the overloads switched off a pointer given to a global release / realloc entry point is NULL or a block the detector does not "
    "hold (handing a tracked block to the platform free behind the detector's back is client misuse); restoreNewDeleteOverloads "
    "without an open saveAndDisableNewDeleteOverloads is outside the quantifier (modelled and compared, not judged)",
    "global detector creation / destruction (getGlobalDetector's lazy new, destroyGlobalDetector) and MemoryLeakAllocator are not exercised",
]
RULE = ("histories of alloc/free/realloc (moved, in place, from NULL, failing, of unknown blocks)/period changes/stage inc-dec-release/"
        "clear/mark/report over an arena whose addresses the generator chooses: 60% of the blocks go to at most 3 of the 73 buckets, "
        "1-60+ live blocks, stale/interior/foreign/NULL releases, every allocator of the registry on both sides, both layouts; a switch "
        "stream (a quarter of the generated histories) drives every operator new/delete form, cpputest_malloc/realloc/free_location, the five "
        "overload switch functions (off / plain / thread-safe / saveAndDisable / restore, nested up to depth 3+), "
        "setCurrent...Allocator(NULL) / ...ToDefault and the allocator stash, with blocks acquired while the overloads are off; one history "
        "with 1 500 (thorough 20 000) allocations on three slots; "
        "non-trivial = a release from a chain of >= 2 records, a stage release that returned a block, or a report with entries; "
        "distinct = distinct operation sequences")
LEVEL_TEXT = ("Machine-checked Lean 4 theorems over an executable model of MemoryLeakDetectorList/Table/Detector written from the C++ "
              "function by function, for every history of any length and every table size n > 0: the invariant (every record in the "
              "bucket of its address, addresses pairwise distinct) is preserved by every operation; every operation refines a finite-map "
              "specification (lookup, insert, erase, filter, map); totals equal the number of in-period records; release/realloc remove "
              "exactly the named block; the first/next pointer chase enumerates exactly the in-period records, each once; clear, stage "
              "release and mark-demote affect exactly the named records. The six list loops (retrieveNode, removeNode, clearAllAccounting, "
              "getLeakFrom, getLeakForAllocationStageFrom, getTotalLeaks) are REGENERATED from the source on every run (skeleton matched, "
              "guard translated) and proved equal to the model's functions for every chain, so those theorems speak about the guards the "
              "source has at check time. The switchable global entry points are covered: the 11 function pointers, their saved copies and "
              "the nesting counter are state; turnOff / turnOn (plain, thread-safe) / saveAndDisable / restore / areNewDeleteOverloaded are "
              "executed from regenerated assignment lists and counter guards; proved for every store: a switch sets all 11 pointers, "
              "save/restore pairs nest to any depth and restore every pointer, with the overloads off no entry point (18 operator forms, "
              "malloc/realloc/free_location) reaches the detector, with them on each form is allocMemory / reallocMemory / deallocMemory "
              "with the current allocator of its family; the allocator stash restores all three current allocators and the defaults carry "
              "their family's names. The model is tied to the code on every run by a differential harness (real detector, real global "
              "entry points and switch functions, chosen addresses, ASan/UBSan), and the implementation's own observations are judged by "
              "an independent shadow-map oracle.")
LEVEL_NOTE = ("Trusted: Lean kernel; the hand-written model of the detector operations (validated against the code by this run's "
              "correspondence); the extractors (skeleton matching and the pointer-to-list reading of the loops); the allocator contract "
              "FreshAddr. Only pinned by shape (not translated): addNewNode, the first/next wrappers, the bucket loops of the table, the "
              "guard-byte loops, the size functions. Not covered: sequence-number wrap after 2^32 allocations, creation / destruction of "
              "the global detector, MemoryLeakAllocator, destroyed allocators; the text layout of the report is C04x / C14.")
TECHNIQUE = ("Lean 4 invariant + refinement proofs over an executable model, differential correspondence harness with chosen addresses and the "
             "real global entry points, regenerated list loops / switch functions / tables with equality and round-trip theorems")
