"""C04 — leak accounting is exact: generator and property-specific settings."""
ID = "C04"
HARNESS = "h_c04"
KEEP_FIRST = 1          # the `setup` line (prints the allocator registry the driver needs)
SHRINK_BUDGET = 300

HP = 73                 # hash_prime of the pinned tree; only used to aim blocks at shared buckets
NSLOTS = 73 * 6
FILES = ["f%d.c" % i for i in range(10)]
PERIODS = ["all", "disabled", "enabled", "checking"]
CALLABLE = list(range(13))                  # allocator registry of h_c04_util.h: 13, 14 are identity-only
FAMILY = {0: "N", 3: "N", 9: "N", 1: "A", 4: "A", 2: "M", 5: "M", 10: "M", 11: "M", 6: "CA", 7: "CA", 8: "CB", 12: "CB"}


ACQ_FORMS = {"new": ["new", "new_fi", "new_fs", "new_nt"], "newarray": ["newa", "newa_fi", "newa_fs", "newa_nt"], "malloc": ["malloc"]}
REL_FORMS = {"new": ["del", "del_fi", "del_fs", "del_sz", "del_nt"], "newarray": ["dela", "dela_fi", "dela_fs", "dela_sz", "dela_nt"],
             "malloc": ["free"]}
FAMILY_OF_KIND = {"N": "new", "A": "newarray", "M": "malloc"}


class Gen:
    """tracks what the generator needs to keep histories mostly valid: which slots are occupied in the arena,
    which labels are tracked, their stage and period"""

    def __init__(self, rng, c06=False):
        self.rng = rng
        self.c06 = c06
        self.ops = ["setup"]
        self.k = 0
        self.blocks = {}        # label -> dict(slot,size,alloc,sep,stage,period,tracked)
        self.occupied = set()   # arena slots in use (also by blocks whose record was cleared)
        self.stale = []         # labels released earlier
        self.orphans = []       # labels whose record was cleared: the client still owns the block
        self.no_drop = False    # malformed stream: the generator's picture of the detector may be wrong, never drop
        self.period = "disabled"
        self.stage = 0
        self.cur = {"new": 0, "newarray": 1, "malloc": 2}      # current allocators of the three families (setcur)
        self.hot = [rng.randrange(HP) for _ in range(rng.choice([1, 2, 3]))]
        self.typecheck = True
        # bookkeeping layout of the history: every block inline, every block with a separate node, or per family
        # as the real overloads do (malloc family separate, new / new[] inline)
        self.mode = rng.choice(["inline", "separate", "family"])

    def sep_for(self, ai):
        if self.mode == "family":
            return FAMILY.get(ai) == "M"
        return self.mode == "separate"

    def tracked(self):
        return [l for l, b in self.blocks.items() if b["tracked"]]

    def pick_slot(self):
        rng = self.rng
        for _ in range(20):
            if rng.random() < 0.6:
                s = rng.choice(self.hot) + HP * rng.randrange(6)
            else:
                s = rng.randrange(NSLOTS)
            if s not in self.occupied:
                return s
        return None

    def size(self):
        x = self.rng.random()
        if x < 0.55:
            return self.rng.randint(0, 8)
        if x < 0.9:
            return self.rng.randint(0, 40)
        return self.rng.randint(41, 400)

    def loc(self):
        return self.rng.choice(FILES), self.rng.randint(1, 999)

    def new_label(self):
        self.k += 1
        return "b%d" % self.k

    def alloc(self):
        rng = self.rng
        s = self.pick_slot()
        if s is None:
            return
        l, size, ai = self.new_label(), self.size(), rng.choice(CALLABLE)
        sep = self.sep_for(ai)
        f, ln = self.loc()
        if sep and ai in (3, 4, 5, 7, 8) and rng.random() < 0.06:
            # no memory for the separate accounting record: the block goes back, nothing is tracked
            self.ops.append("alloc %s %d %d %d %s %d %d nodenull" % (l, s, size, ai, f, ln, sep))
            return
        self.ops.append("alloc %s %d %d %d %s %d %d" % (l, s, size, ai, f, ln, sep))
        self.blocks[l] = dict(slot=s, size=size, alloc=ai, sep=sep, stage=self.stage, period=self.period, tracked=True)
        self.occupied.add(s)

    def galloc(self):
        """a block through one of the real acquiring overloads (every form: plain, file/line with int or size_t line, nothrow,
        [] variants, cpputest_malloc_location)"""
        rng = self.rng
        s = self.pick_slot()
        if s is None:
            return
        fam = rng.choice(["new", "newarray", "malloc"])
        form = rng.choice(ACQ_FORMS[fam])
        l, size = self.new_label(), self.size()
        f, ln = self.loc()
        self.ops.append("gacq %s %s %d %d %s %d" % (form, l, s, size, f, ln))
        self.blocks[l] = dict(slot=s, size=size, alloc=self.cur[fam], sep=(fam == "malloc"), stage=self.stage, period=self.period,
                              tracked=True, gfam=fam)
        self.occupied.add(s)

    def grelease_paired(self):
        """a block goes back through one of the releasing overloads of its own family (any form)"""
        rng = self.rng
        cands = [l for l in self.tracked() if self.blocks[l].get("gfam")]
        if not cands:
            return
        l = rng.choice(cands)
        b = self.blocks[l]
        f, ln = self.loc()
        self.ops.append("grel %s %s 0 %s %d" % (rng.choice(REL_FORMS[b["gfam"]]), l, f, ln))
        b["tracked"] = False
        self.occupied.discard(b["slot"])
        self.stale.append(l)

    def setcur(self):
        fam = self.rng.choice(["new", "newarray", "malloc"])
        ai = self.rng.choice(CALLABLE)
        self.ops.append("setcur %s %d" % (fam, ai))
        self.cur[fam] = ai

    def overloads_op(self):
        self.ops.append("overloads " + self.rng.choice(["threadsafe", "threadsafe", "plain"]))

    def release_args(self, b):
        rng = self.rng
        ai = b["alloc"] if rng.random() < 0.8 else rng.choice(CALLABLE)
        # a block is released with the layout it was allocated with (as each family's overloads do)
        return ai, b["sep"]

    def free(self):
        rng = self.rng
        x = rng.random()
        f, ln = self.loc()
        tr = self.tracked()
        if x < 0.70 and tr:
            l = rng.choice(tr)
            b = self.blocks[l]
            ai, sep = self.release_args(b)
            self.ops.append("free %d %s 0 %s %d %d" % (ai, l, f, ln, sep))
            b["tracked"] = False
            self.occupied.discard(b["slot"])
            self.stale.append(l)
        elif x < 0.80 and self.stale:
            l = rng.choice(self.stale)
            # stale label: its slot may have been handed out again, in which case this is a valid release
            b = self.blocks[l]
            again = [m for m in tr if self.blocks[m]["slot"] == b["slot"]]
            self.ops.append("free %d %s 0 %s %d %d" % (b["alloc"], l, f, ln, b["sep"]))
            for m in again:
                self.blocks[m]["tracked"] = False
                self.occupied.discard(b["slot"])
                self.stale.append(m)
        elif x < 0.88 and tr:
            l = rng.choice(tr)
            d = rng.choice([-8, -7, -5, -3, -2, -1, 1, 2, 3, 4, 5, 6, 7, 8, 73, -73, 512 - 1])
            self.ops.append("free %d %s %d %s %d %d" % (self.blocks[l]["alloc"], l, d, f, ln, self.blocks[l]["sep"]))
        elif x < 0.93:
            self.ops.append("free %d null 0 %s %d %d" % (rng.choice(CALLABLE), f, ln, rng.random() < 0.5))
        else:
            a = rng.choice([1, 72, 73, 1167, 1168 + 512 * NSLOTS + rng.randrange(100000), rng.randrange(1 << 40)])
            self.ops.append("free %d @%d 0 %s %d %d" % (rng.choice(CALLABLE), a, f, ln, rng.random() < 0.5))

    def realloc(self):
        rng = self.rng
        tr = self.tracked()
        f, ln = self.loc()
        size = self.size()
        x = rng.random()
        if x < 0.12 or not tr:
            s = self.pick_slot()
            if s is None:
                return
            l, ai = self.new_label(), rng.choice(CALLABLE)
            sep = self.sep_for(ai)
            self.ops.append("realloc %d null 0 %s %d %d %s %d %d" % (ai, l, s, size, f, ln, sep))
            self.blocks[l] = dict(slot=s, size=size, alloc=ai, sep=sep, stage=self.stage, period=self.period, tracked=True)
            self.occupied.add(s)
            return
        l = rng.choice(tr)
        b = self.blocks[l]
        ai, sep = self.release_args(b)
        if x < 0.2:      # not an outstanding block
            d = rng.choice([-1, 1, 8, 73])
            self.ops.append("realloc %d %s %d %s %d %d %s %d %d" % (ai, l, d, self.new_label(), self.pick_slot() or 0, size, f, ln, sep))
            return
        if x < 0.3:      # PlatformSpecificRealloc fails: the old block stays
            self.ops.append("realloc %d %s 0 %s null %d %s %d %d" % (ai, l, self.new_label(), size, f, ln, sep))
            b["sep"] = sep
            return
        nl = self.new_label()
        if x < 0.5:
            self.ops.append("realloc %d %s 0 %s same %d %s %d %d" % (ai, l, nl, size, f, ln, sep))
            s = b["slot"]
        else:
            s = self.pick_slot()
            if s is None:
                return
            self.ops.append("realloc %d %s 0 %s %d %d %s %d %d" % (ai, l, nl, s, size, f, ln, sep))
            self.occupied.discard(b["slot"])
        b["tracked"] = False
        self.stale.append(l)
        self.blocks[nl] = dict(slot=s, size=size, alloc=ai, sep=sep, stage=self.stage, period=self.period, tracked=True)
        self.occupied.add(s)

    def period_op(self):
        p = self.rng.choice(["start", "stop", "enable", "disable", "start", "disable"])
        self.ops.append("period " + p)
        self.period = {"start": "checking", "stop": "enabled", "enable": "enabled", "disable": "disabled"}[p]

    def stage_op(self):
        x = self.rng.random()
        if x < 0.03:
            # all the way round: the unsigned char stage wraps and meets the blocks of the stage it started from
            n = self.rng.choice([255, 256, 257])
            self.ops += ["stage inc"] * n
            self.stage = (self.stage + n) % 256
            return
        if x < 0.4:
            self.ops.append("stage inc"); self.stage = (self.stage + 1) % 256
        elif x < 0.6:
            self.ops.append("stage dec"); self.stage = (self.stage - 1) % 256
        else:
            self.ops.append("stage release")
            for l in self.tracked():
                b = self.blocks[l]
                if b["stage"] == self.stage:
                    b["tracked"] = False
                    self.occupied.discard(b["slot"])
                    self.stale.append(l)

    @staticmethod
    def in_period(q, p):
        return q == "all" or p == q or (p != "disabled" and q == "enabled")

    def clear(self):
        q = self.rng.choice(PERIODS)
        self.ops.append("clear " + q)
        for l in self.tracked():
            b = self.blocks[l]
            if self.in_period(q, b["period"]):
                b["tracked"] = False        # the arena slot stays occupied: the client still owns the block
                self.orphans.append(l)
        # the client usually gives the forgotten blocks back to the underlying allocator itself
        keep = []
        for l in self.orphans:
            if not self.no_drop and self.rng.random() < 0.8:
                self.ops.append("drop " + l)
                self.occupied.discard(self.blocks[l]["slot"])
                self.stale.append(l)
            else:
                keep.append(l)
        self.orphans = keep

    def mark(self):
        self.ops.append("mark")
        for l in self.tracked():
            if self.blocks[l]["period"] == "checking":
                self.blocks[l]["period"] = "enabled"

    def report(self):
        self.ops.append("report " + self.rng.choice(PERIODS))

    def step(self):
        x = self.rng.random()
        n = len(self.tracked())
        if x < 0.05:
            self.galloc()
        elif x < 0.08:
            self.grelease_paired()
        elif x < 0.09:
            self.setcur() if self.rng.random() < 0.5 else self.overloads_op()
        elif x < 0.36 or n == 0 and x < 0.6:
            self.alloc()
        elif x < 0.60:
            self.free()
        elif x < 0.70:
            self.realloc()
        elif x < 0.78:
            self.period_op()
        elif x < 0.85:
            self.stage_op()
        elif x < 0.87:
            self.clear()
        elif x < 0.91:
            self.mark()
        else:
            self.report()


def gen_case(rng, n):
    g = Gen(rng)
    # a third of the cases start by filling up (so that chains are long from the start)
    if rng.random() < 0.35:
        g.period = "enabled"; g.ops.append("period enable")
        for _ in range(rng.randint(5, 60)):
            if rng.random() < 0.15:
                g.period_op()
            g.alloc()
    for _ in range(n):
        g.step()
    for q in PERIODS:
        g.ops.append("report " + q)
    return g.ops


def gen_plugin_case(rng, ntests):
    """the real MemoryLeakWarningPlugin drives the detector: pre action, a scripted test body (allocations through the API and
    the overloads, releases of own and of earlier tests' blocks, ignore / expect flags), post action; reports of the checking
    period after every post action and right after the next pre action"""
    g = Gen(rng)
    for _ in range(rng.randint(0, 3)):
        g.alloc()
    g.ops.append("plugin create"); g.period = "enabled"
    for t in range(ntests):
        if rng.random() < 0.3:       # between two tests
            g.alloc() if rng.random() < 0.5 else g.free()
        g.ops.append("plugin pre"); g.period = "checking"
        g.ops.append("report checking")
        for _ in range(rng.randint(0, 7)):
            x = rng.random()
            if x < 0.35:
                g.alloc()
            elif x < 0.5:
                g.galloc()
            elif x < 0.7:
                g.free()
            elif x < 0.78:
                g.grelease_paired()
            elif x < 0.88:
                g.ops.append("plugin ignore")
            elif x < 0.95:
                g.ops.append("plugin expect %d" % rng.randint(0, 4))
            else:
                g.realloc()
        g.ops.append("plugin post"); g.period = "enabled"
        for l in g.tracked():
            if g.blocks[l]["period"] == "checking":
                g.blocks[l]["period"] = "enabled"
        g.ops.append("report checking")
        if rng.random() < 0.3:
            g.ops.append("report enabled")
        if rng.random() < 0.25:
            g.ops.append("plugin final %d" % final_arg(g, rng))
    if rng.random() < 0.5:       # something allocated after the last test, still before the final report
        g.alloc() if rng.random() < 0.6 else g.galloc()
    g.ops.append("plugin final %d" % final_arg(g, rng))
    g.ops.append("plugin final 0")
    g.ops.append("report all")
    return g.ops


def final_arg(g, rng):
    """the announced number of leaks: often exactly the number of blocks outstanding for the enabled period, else near it"""
    n = len([l for l in g.tracked() if g.blocks[l]["period"] != "disabled"])
    return n if rng.random() < 0.4 else max(0, n + rng.choice([-2, -1, 1, 3]))


def gen_malformed(rng, n):
    g = Gen(rng)
    g.no_drop = True
    words = ["alloc", "free", "realloc", "period", "stage", "clear", "mark", "report", "setup", "bogus", "", "0", "-1", "999999999999",
             "null", "same", "b1", "b2", "@5", "all", "checking", "x.c", "inc", "release", "start"]
    for _ in range(n):
        x = rng.random()
        if x < 0.5:
            g.step()
        elif x < 0.8:
            g.ops.append(" ".join(rng.choice(words) for _ in range(rng.randint(1, 10))).strip() or "bogus")
        else:
            # well-formed operation on a slot that is occupied / a label that does not exist / an oversized block
            f, ln = g.loc()
            g.ops.append(rng.choice([
                "alloc z%d %d %d %d %s %d 0" % (rng.randrange(5), rng.choice(sorted(g.occupied) or [0]), g.size(), rng.choice(CALLABLE), f, ln),
                "alloc z%d %d %d %d %s %d 1" % (rng.randrange(5), rng.randrange(NSLOTS), rng.choice([401, 5000, 1 << 40]), rng.choice(CALLABLE), f, ln),
                "alloc z%d %d 4 %d %s %d 0" % (rng.randrange(5), rng.choice([-1, NSLOTS, 10 ** 9]), rng.choice(CALLABLE), f, ln),
                "alloc z%d 5 4 %d %s %d 0" % (rng.randrange(5), rng.choice([13, 14, 15, 99]), f, ln),
                "free 0 nolabel 0 %s %d 0" % (f, ln),
                "realloc 0 nolabel 0 q 3 4 %s %d 0" % (f, ln),
                "report nothing", "clear sometimes", "period maybe", "stage sideways",
            ]))
    g.ops.append("report all")
    return g.ops


def generate(rng, tier):
    out = []
    if tier == "quick":
        n, lens = 500, [3, 10, 30, 80, 200, 400]
    else:
        n, lens = 2400, [10, 50, 200, 600, 1500, 4000]
    for _ in range(n):
        out.append(("gen", gen_case(rng, rng.choice(lens))))
    for _ in range(n // 10):
        out.append(("malformed", gen_malformed(rng, rng.choice([5, 20, 60]))))
    for _ in range(n // 8):
        out.append(("plugin", gen_plugin_case(rng, rng.choice([1, 2, 4, 8, 20]))))
    return out


def signature(r):
    """class of a failing case: the default one with lists of addresses / totals collapsed, so that shrinking may drop blocks"""
    import re
    from vlib import flow
    return re.sub(r"\[[^\]]*\]", "[..]", flow.default_signature(r))


def translate(ctx):
    from translate import extract_leakdetector, extract_leakplugin
    # the plugin's pre / post statement lists (C07's translator; the C04 model of the plugin-driven scenario imports them)
    return (extract_leakdetector.run() or []) + (extract_leakplugin.run() or [])


def _walk(r):
    """re-derives chain positions from the implementation's trace (for the histogram only)"""
    buckets = {}
    op = None
    for l in r.impl:
        w = l.split()
        if not w:
            continue
        if w[0] == ">":
            op = w[1:]
            if op and op[0] in ("free", "realloc") and len(op) > 2 and op[2].isdigit():
                a = int(op[2])
                ch = buckets.get(a % HP, [])
                if a in ch:
                    i = ch.index(a)
                    yield ("release_chain_len_%s" % ("1" if len(ch) == 1 else "2" if len(ch) == 2 else "3+"))
                    if len(ch) >= 3:
                        yield "release_from_%s_of_chain" % ("head" if i == 0 else "tail" if i == len(ch) - 1 else "middle")
                    ch.remove(a)
                elif a != 0:
                    yield "release_of_non_outstanding"
                else:
                    yield "release_of_null"
            elif op and op[0] == "clear":
                buckets.clear()       # positions are no longer followed after a clear
            elif op and op[0] == "stage" and op[1] == "release":
                pass
        elif w[0] == "ret" and w[1] != "0" and op and op[0] in ("alloc", "realloc"):
            a = int(w[1])
            buckets.setdefault(a % HP, []).insert(0, a)
        elif w[0] == "ufree" and op and op[0] == "stage":
            a = int(w[1])
            ch = buckets.get(a % HP, [])
            if a in ch:
                ch.remove(a)
            yield "stage_release_block"
        elif w[0] == "report":
            yield "report_" + w[1]
        elif w[0] == "leak":
            yield "report_entry"
        elif w[0] == "fail":
            yield "fail_" + w[1]
        elif w[0] == "nalloc" and len(w) > 1:
            yield "alloc_record_out_of_memory"
        elif w[0] == "urealloc":
            yield "realloc_failed" if w[3] == "0" else "realloc_in_place" if w[3] == w[1] else "realloc_from_null" if w[1] == "0" else "realloc_moved"


def nontrivial(r):
    ks = set(_walk(r))
    return bool(ks & {"release_chain_len_2", "release_chain_len_3+", "stage_release_block", "report_entry"})


def observe(r, rep):
    for k in _walk(r):
        rep.count("branch." + k)
    # counters outside the claim that the model also follows: stage wrap-around, period switches that do not nest
    stage, lastp = 0, []
    for l in r.impl:
        w = l.split()
        if w[:1] == ["stagenow"]:
            n = int(w[1])
            if stage == 0 and n == 255:
                rep.count("branch.stage_wrap_0_to_255")
            elif stage == 255 and n == 0:
                rep.count("branch.stage_wrap_255_to_0")
            stage = n
        elif w[:2] == [">", "period"]:
            lastp = (lastp + [w[2]])[-3:]
            if lastp == ["disable", "disable", "enable"]:
                rep.count("branch.two_disables_then_enable")
            if lastp[-2:] == ["disable", "start"]:
                rep.count("branch.start_checking_while_disabled")
    for l in r.impl:
        if l.startswith("totals "):
            n = int(l.split()[1])
            rep.count("live_blocks." + ("0" if n == 0 else "1-3" if n <= 3 else "4-15" if n <= 15 else "16-60" if n <= 60 else "61+"))


TRUSTED = [
    "Lean 4 kernel; axioms of every theorem audited (propext, Classical.choice, Quot.sound at most)",
    "hand-written model lean/CppUModel/Model/LeakDetector.lean, tied to src/CppUTest/MemoryLeakDetector.cpp by the h_c04 "
    "correspondence of this run (private detector, arena with chosen addresses, both bookkeeping layouts)",
    "extractor translate/extract_leakdetector.py (hash, isInPeriod, matchingAllocation translated expression by expression; "
    "hash_prime, guard bytes, node size) regenerating Gen/LeakDetectorConstants.lean; its output is exercised by the correspondence",
    "platform allocator contract: an address handed out is not the address of a block that is still outstanding (hypothesis FreshAddr)",
    "the harness's parsing of the report text (entries are compared after parsing; the text layout itself belongs to C14)",
]
ASSUMPTIONS = [
    "allocation sequence number below 2^32 (modelled as a natural number); the allocation stage is the C unsigned char and wraps in the model too",
    "a C++ node pointer is identified with the address of its block: equal under the invariant (no two records with one address)",
    "allocators passed to the detector are alive (hasBeenDestroyed() false)",
    "a block is released / reallocated with the bookkeeping layout it was allocated with; each history runs in one layout: all inline, all "
    "separate, or per family as the real overloads do (malloc family separate, new / new[] inline)",
    "PlatformSpecificRealloc succeeds or returns NULL (then the old block stays outstanding, as the code is since commit 62e3629)",
    "line numbers fit an int (the texts print them through (int))",
    "the detector's text buffer is emptied before each report (startChecking + restoring the period), so reports are not truncated by earlier text; "
    "a report too long for the buffer is compared by its total only",
]
RULE = ("histories of alloc/free/realloc (moved, in place, from NULL, failing, of unknown blocks)/period changes/stage inc-dec-release/"
        "clear/mark/report over an arena whose addresses the generator chooses: 60% of the blocks go to at most 3 of the 73 buckets, "
        "1-60+ live blocks, stale/interior/foreign/NULL releases, every allocator of the registry on both sides, both layouts; "
        "non-trivial = a release from a chain of >= 2 records, a stage release that returned a block, or a report with entries; "
        "distinct = distinct operation sequences")
LEVEL_TEXT = ("Machine-checked Lean 4 theorems over an executable model of MemoryLeakDetectorList/Table/Detector written from the C++ "
              "function by function, for every history of any length and every table size n > 0: the invariant (every record in the "
              "bucket of its address, addresses pairwise distinct) is preserved by every operation; every operation refines a finite-map "
              "specification (lookup, insert, erase, filter, map); totals equal the number of in-period records; release/realloc remove "
              "exactly the named block; the first/next pointer chase enumerates exactly the in-period records, each once; clear, stage "
              "release and mark-demote affect exactly the named records. The model is tied to the code on every run by a differential "
              "harness (real detector, chosen addresses, ASan/UBSan), by regenerated functions/constants, and the implementation's own "
              "observations are judged by an independent shadow-map oracle.")
LEVEL_NOTE = ("Trusted: Lean kernel; the hand-written model (validated against the code by this run's correspondence); the extractor; the "
              "allocator contract FreshAddr. Not carried by theorems: the text layout of the report (C14), sequence-number wrap after 2^32 "
              "allocations.")
TECHNIQUE = "Lean 4 invariant + refinement proofs over an executable model, differential correspondence harness with chosen addresses, regenerated loop-free functions"
