"""C14 — diagnostics are safe to build, bounded, and say what happened: generator and settings."""

ID = "C14"
HARNESS = "h_c14"
KEEP_FIRST = 0
SHRINK_BUDGET = 200
HARNESS_TIMEOUT = 1800

TRUSTED = [
    "Lean 4 kernel; axioms of every theorem audited (propext, Classical.choice, Quot.sound at most)",
    "hand-written model lean/CppUModel/Model/Diagnostics.lean (failure-message builders of TestFailure.cpp, the text side of "
    "SimpleStringBuffer::add, addMemoryDump, the report as a fold over the leak list), tied to the code by the h_c14 correspondence of "
    "this run (byte-exact messages and report texts, fill position / write limit through hook H2); the counter arithmetic and control "
    "flow of SimpleStringBuffer and the bodies of MemoryLeakOutputStringBuffer are NOT trusted to the hand model any more: they are "
    "regenerated from the clang AST and proved equal to it",
    "translate/extract_diagbuf.py and translate/extract_diagfailure.py (clang++-14 typed JSON AST -> Lean: SimpleStringBuffer's six "
    "loop-free members on BitVec 64/32 with clang's own implicit conversions, MemoryLeakOutputStringBuffer's bodies as statement lists "
    "with helpers inlined, the seven scan loops' conditions/reads/headers and the createDifferenceAtPosString call arguments); "
    "the interpreter of the statement lists (Model/DiagnosticsCode.lean, 60 lines); translate/extract_diagnostics.py (token level: buffer "
    "length, macro texts, every vsnprintf format, dump width, marker window; text-shape checks of addMemoryDump, createButWasString, "
    "createDifferenceAtPosString, createUserText, ContainsFailure, toString)",
    "vsnprintf contract: writes at most `size` bytes (for the bounds), stores min(len, size-1) bytes plus a terminator and returns len "
    "(for the text); the C library's %p and %.7g renderings are inputs",
    "SimpleString value operations used by the message builders (+, subString, printable, StringFrom…, StringFromFormat) are modelled by "
    "their list meaning (their memory safety is property C13); operands are NUL-terminated C strings / arrays of the stated size",
    "the harness mirrors the detector's table order (address % table size, newest first) to hand the leak list to the model",
]
ASSUMPTIONS = [
    "LP64; fewer than 2^31 leaks in one report and formatted pieces shorter than 2^31 bytes ((int) casts do not wrap); the bounds theorem "
    "on the regenerated add (gen_add_safe) needs neither: it holds for every int vsnprintf can return",
    "BITS_EQUAL byte count >= 1 (the macros pass sizeof); file names and allocator names are non-NULL C strings",
    "the memory dump prints offsets below 65536 with four hex digits (larger leaks widen the column; the bounds theorems do not depend on it)",
]
RULE = ("(a) every failure class of TestFailure.h (UnexpectedExceptionFailure and the plain TestFailure included) constructed directly with operand pairs: equal, equal printed forms, empty, NULL, 10 kB, "
        "non-printable/high bytes, differing at the first/last/after-window position, prefix of each other, case-only differences; every "
        "constructed failure is also copy-constructed and the copy compared; a boundary stream sizes operands so that one StringFromFormat "
        "result has 97..102 bytes (both sides of VStringFromFormat's 100-byte stack buffer); "
        "(b) standalone SimpleStringBuffer add/setWriteLimit/resetWriteLimit/clear/addMemoryDump with lengths dense around the "
        "remaining space and the 4095/4096 boundary; MemoryLeakOutputStringBuffer and a private MemoryLeakDetector: 0-40 misuse "
        "messages with file names of 0-2000 bytes, reports of 0-5000 leaks of 0-300 bytes, listings crafted to straddle the lowered "
        "write limit (exact fit, one byte less/more), with and without a preceding clear; non-trivial = a position was printed, an "
        "add was truncated, or a report followed misuse messages / dropped entries")

LEVEL_TEXT = ("Machine-checked Lean 4 theorems over an executable model of the failure-message builders and of the fixed report "
              "buffer: every first-difference scan stays inside the operands for ALL operand pairs and returns the first differing "
              "index; the marker window is inside the padded copy; every class's message contains both operands in that class's "
              "rendering; the buffer invariant (fill position and limit at most 4095, text length = fill position, terminated, "
              "canary untouched) holds for every history of misuse messages, reports and clears with any number/size/content of "
              "leaks and file-name lengths; the footer reserve computed from the regenerated macro texts is enough; a report begun "
              "on a cleared buffer ends with the true total, carries the too-many notice exactly when the listing reached the "
              "limit and lists every leak completely when the listing fits. REGENERATED FROM THE SOURCE ON EVERY RUN (clang AST) and "
              "proved equal to that model: SimpleStringBuffer's constructor/clear/add/setWriteLimit/resetWriteLimit/reachedItsCapacity "
              "as 64/32-bit machine arithmetic (plus the bounds re-proved directly on it for every int vsnprintf may return and every "
              "64-bit limit, over whole histories), the bodies of MemoryLeakOutputStringBuffer::clear/startMemoryLeakReporting/"
              "reportMemoryLeak/stopMemoryLeakReporting/reportFailure with their helpers (whole histories run by the regenerated "
              "bodies = the model's run), the footer reserve from clang's sizeofs, the conditions, operand wiring and headers of the "
              "seven scan loops and the arguments of the createDifferenceAtPosString calls. The rest of the model is tied to the code "
              "on every run by a byte-exact differential harness under ASan/UBSan (operands in exact-size heap blocks, hook H2 "
              "canary) and by regenerated constants/formats/shape checks; the implementation's own observations are judged by an "
              "independent oracle (textbook renderings; the copy-constructed failure must say the same).")
LEVEL_NOTE = ("Trusted: Lean kernel; the two AST translators and the 60-line interpreter of the regenerated statement lists; the "
              "hand-written model where it is not regenerated (text of add, addMemoryDump's loops, the message builders' string "
              "concatenations, validated byte for byte by this run); the token-level extractor; the vsnprintf contract; SimpleString "
              "value semantics (C13). Observed only, not proved: that the compiled code reads only inside the operands (ASan on "
              "exact-size blocks), VStringFromFormat's stack/heap switch at 100 bytes (boundary stream; its model is C13's), the "
              "%p/%.7g renderings, typeid/demangled exception type names (inputs). "
              "STRCMP_CONTAINS with a NULL operand shows it as an empty string (the conversion happens before the failure class).")
TECHNIQUE = ("Lean 4 bounded-read/invariant/refinement proofs over an executable model + clang-AST translators (machine arithmetic, "
             "statement lists, loop conditions) with regenerated-equals-model obligations + byte-exact differential harness (ASan, canary hook)")


def hx(b):
    if b is None:
        return "N"
    if isinstance(b, str):
        b = b.encode("latin-1")
    return b.hex() if b else "-"


# ------------------------------------------------------------------ (a) failure classes

PRINTABLE = bytes(range(32, 127))
ODD = bytes([1, 7, 8, 9, 10, 11, 12, 13, 27, 31, 127, 128, 200, 255, 92, 60, 62])


def rstr(rng, n, alphabet=PRINTABLE):
    return bytes(rng.choice(alphabet) for _ in range(n))


def base_string(rng):
    x = rng.random()
    if x < 0.1:
        return b""
    if x < 0.5:
        return rstr(rng, rng.randint(1, 30))
    if x < 0.75:
        return rstr(rng, rng.randint(1, 40), PRINTABLE + ODD * 4)
    if x < 0.85:
        return rstr(rng, rng.randint(1, 12), ODD)
    if x < 0.98:
        return rstr(rng, rng.randint(40, 300), PRINTABLE + ODD)
    return rstr(rng, rng.choice([4000, 10000, 10240]), PRINTABLE + ODD[:6])


ESC = {7: b"\\a", 8: b"\\b", 9: b"\\t", 10: b"\\n", 11: b"\\v", 12: b"\\f", 13: b"\\r"}


def printable(b):
    out = b""
    for c in b:
        if c in ESC:
            out += ESC[c]
        elif c < 32 or c == 127 or c >= 128:
            out += b"\\x%02X" % c
        else:
            out += bytes([c])
    return out


def mutate_at(rng, s, i):
    c = s[i]
    d = rng.choice([x for x in (c ^ 1, c ^ 32, (c + 1) % 256, rng.randint(1, 255)) if x not in (0, c)] or [(c % 255) + 1])
    return s[:i] + bytes([d]) + s[i + 1:]


def pair(rng, nullable=True):
    """(expected, actual, kind)"""
    s = base_string(rng)
    x = rng.random()
    if nullable and x < 0.06:
        return rng.choice([(None, s), (s, None), (None, None)]) + ("null",)
    if x < 0.18:
        return s, s, "equal"
    if x < 0.30 and s:
        # equal printed forms: a control byte against its own escape sequence
        i = rng.randrange(len(s))
        c = rng.choice([10, 9, 13, 1, 127, 200, 7])
        a = s[:i] + bytes([c]) + s[i + 1:]
        e = s[:i] + printable(bytes([c])) + s[i + 1:]
        return (e, a, "eqprintable") if rng.random() < 0.5 else (a, e, "eqprintable")
    if x < 0.40 and s:
        return s, mutate_at(rng, s, 0), "first"
    if x < 0.52 and s:
        return s, mutate_at(rng, s, len(s) - 1), "last"
    if x < 0.62 and len(s) > 25:
        return s, mutate_at(rng, s, rng.randint(21, len(s) - 1)), "afterwindow"
    if x < 0.72:
        k = rng.randint(0, len(s))
        return (s, s[:k], "prefix") if rng.random() < 0.5 else (s[:k], s, "prefix")
    if x < 0.80 and s:
        return s, s.swapcase(), "case"
    if x < 0.90 and s:
        return s, mutate_at(rng, s, rng.randrange(len(s))), "middle"
    return s, base_string(rng), "unrelated"


def user_text(rng):
    x = rng.random()
    if x < 0.7:
        return b""
    if x < 0.8:
        return b"LONGS_EQUAL(a, b) failed"
    return rstr(rng, rng.randint(1, 40), PRINTABLE + b"\n\t")


INTS = [0, 1, -1, 9, 10, -10, 99, 100, 127, -128, 255, 256, 2 ** 31 - 1, -2 ** 31, 2 ** 31, 2 ** 32, 2 ** 63 - 1, -2 ** 63, 12345678901]
UINTS = [0, 1, 9, 10, 15, 16, 255, 256, 2 ** 32 - 1, 2 ** 32, 2 ** 63, 2 ** 64 - 1, 999999999999]
DOUBLES = ["0", "1.5", "-2.25", "1e300", "-1e-300", "nan", "inf", "-inf", "0.1", "123456789.125", "3.14159265358979"]


def failure_op(rng, contains_raw=False):
    k = rng.choice(["strequal"] * 5 + ["strnocase"] * 3 + ["checkequal"] * 4 + ["binary"] * 3 + ["equals", "equalsss", "contains", "comparison",
                    "check", "fail", "feature", "longs", "ulongs", "longlongs", "ulonglongs", "sbytes", "bits", "doubles",
                    "base", "basemsg", "excunknown", "exc", "exc"])
    t = hx(user_text(rng))
    if k in ("strequal", "strnocase", "equals"):
        e, a, _ = pair(rng)
        return "f %s %s %s %s" % (k, hx(e), hx(a), t)
    if k in ("checkequal", "equalsss", "comparison", "check"):
        e, a, _ = pair(rng, nullable=False)
        return "f %s %s %s %s" % (k, hx(e), hx(a), t)
    if k == "contains":
        e, a, _ = pair(rng, nullable=False)
        if not contains_raw:
            e, a = printable(e), printable(a)     # mostly printable operands (raw ones: the tagged `containsraw` stream)
        return "f contains %s %s %s" % (hx(e), hx(a), t)
    if k == "fail":
        return "f fail %s" % hx(base_string(rng))
    if k == "base" or k == "excunknown":
        return "f " + k
    if k == "basemsg":
        return "f basemsg %s" % hx(base_string(rng))
    if k == "exc":
        return "f exc %s %s" % (rng.choice(["runtime", "logic", "custom", "nested"]), hx(base_string(rng)))
    if k == "feature":
        return "f feature %s %s" % (hx(base_string(rng)), t)
    if k in ("longs", "longlongs"):
        return "f %s %d %d %s" % (k, rng.choice(INTS + [rng.randint(-2 ** 63, 2 ** 63 - 1)]), rng.choice(INTS + [rng.randint(-10 ** 6, 10 ** 6)]), t)
    if k in ("ulongs", "ulonglongs"):
        return "f %s %d %d %s" % (k, rng.choice(UINTS + [rng.randint(0, 2 ** 64 - 1)]), rng.choice(UINTS + [rng.randint(0, 10 ** 6)]), t)
    if k == "sbytes":
        return "f sbytes %d %d %s" % (rng.randint(-128, 127), rng.choice([-128, -1, 0, 1, 127, rng.randint(-128, 127)]), t)
    if k == "bits":
        bc = rng.choice([1, 1, 2, 4, 8, 8, 9, 16])
        return "f bits %d %d %d %d %s" % (rng.choice(UINTS + [rng.randint(0, 2 ** 64 - 1)]), rng.choice(UINTS + [rng.randint(0, 2 ** 64 - 1)]),
                                          rng.choice([0, 1, 255, 0xF0, 2 ** 64 - 1, rng.randint(0, 2 ** 64 - 1)]), bc, t)
    if k == "doubles":
        return "f doubles %s %s %s %s" % (rng.choice(DOUBLES), rng.choice(DOUBLES), rng.choice(DOUBLES), t)
    # binary: operands may contain NUL
    n = rng.choice([0, 0, 1, 2, 7, 8, 16, 33, 100, 3000])
    e = bytes(rng.randrange(256) for _ in range(n))
    x = rng.random()
    a = e
    if x < 0.25 or n == 0:
        pass
    elif x < 0.45:
        a = bytes([e[0] ^ 0x10]) + e[1:]
    elif x < 0.65:
        a = e[:-1] + bytes([e[-1] ^ 1])
    else:
        i = rng.randrange(n)
        a = e[:i] + bytes([e[i] ^ 0x80]) + e[i + 1:]
    if x > 0.93:
        return "f binary %s %s %d %s" % (rng.choice(["N", hx(e)]), rng.choice(["N", hx(a)]) if rng.random() < 0.5 else "N", n, t)
    return "f binary %s %s %d %s" % (hx(e), hx(a), n, t)


def failure_case(rng, n):
    return [failure_op(rng) for _ in range(n)]


FMT_BUF = 100        # sizeOfdefaultBuffer of VStringFromFormat: results of 99 bytes use the stack buffer, 100 the heap


def fmt_boundary_op(rng):
    """operands sized so that the text built by one StringFromFormat call has 97..102 bytes (both sides of the
    100-byte stack buffer of VStringFromFormat, where the second vsnprintf into a heap block of size+1 starts)"""
    total = rng.choice([97, 98, 99, 99, 100, 100, 101, 102])
    k = rng.choice(["equalsss", "equals", "contains", "strequal", "checkequal", "exc", "longs"])
    t = hx(b"")
    if k in ("equalsss", "equals", "strequal", "checkequal"):
        room = total - 24                    # "expected <" + ">\n\tbut was  <" + ">"
        le = rng.randint(0, room)
        e, a = rstr(rng, le), rstr(rng, room - le)
        if k in ("strequal", "checkequal") and e and rng.random() < 0.5:
            a = e[:len(a)] + a[len(e):] if len(a) >= len(e) else e[:len(a)]      # long common prefix: window far right
            a = (a + rstr(rng, room))[:room - le]
        return "f %s %s %s %s" % (k, hx(e), hx(a), t)
    if k == "contains":
        room = total - 30                    # "actual <" + ">\n\tdid not contain  <" + ">"
        le = rng.randint(0, room)
        return "f contains %s %s %s" % (hx(rstr(rng, le)), hx(rstr(rng, room - le)), t)
    if k == "exc":
        # "Unexpected exception of type '" + name + "' was thrown: " + what; runtime_error demangles to 18 bytes
        room = total - 44 - len("std::runtime_error")
        return "f exc runtime %s" % hx(rstr(rng, max(room, 0)))
    # longs with a user text: createUserText is plain concatenation, the numbers go through StringFromFormat
    return "f longs %d %d %s" % (rng.choice(INTS), rng.choice(INTS), hx(rstr(rng, total)))


# ------------------------------------------------------------------ (b) buffers

CAP = 4095


def name_bytes(rng, n):
    if n == 0:
        return b""
    x = rng.random()
    if x < 0.6:
        return (b"dir/file_%d.cpp" % rng.randint(0, 999) * (n // 10 + 1))[:n]
    return rstr(rng, n, PRINTABLE + (ODD if x > 0.85 else b""))


def name_len(rng):
    return rng.choice([0, 1, 5, 12, 12, 30, 80, 200, 500, 900, 1300, 2000, rng.randint(0, 2000)])


def sb_case(rng, n):
    ops = ["sb new"]
    filled, limit = 0, CAP
    for _ in range(n):
        x = rng.random()
        if x < 0.45:
            left = max(limit - filled, 0)
            ln = rng.choice([0, 1, 2, 17, 100, 1000, left - 1, left, left + 1, left + 2, left // 2, 5000, 6000, rng.randint(0, 4200)])
            ln = max(0, ln)
            ops.append("sb add " + hx(rstr(rng, ln, PRINTABLE + ODD[:8]) if ln < 300 else (b"0123456789abcdef" * (ln // 16 + 1))[:ln]))
            if filled < limit:
                filled = min(filled + ln, limit)
        elif x < 0.62:
            v = rng.choice([0, 1, filled - 1, filled, filled + 1, filled + 10, 100, 3720, 4094, 4095, 4096, 4097, 2 ** 32, 2 ** 64 - 1, rng.randint(0, 5000)])
            v = max(0, v)
            ops.append("sb limit %d" % v)
            limit = min(v, CAP)
        elif x < 0.72:
            ops.append("sb reset")
            limit = CAP
        elif x < 0.78:
            ops.append("sb clear")
            filled = 0
        elif x < 0.95:
            ln = rng.choice([0, 1, 7, 8, 9, 15, 16, 17, 31, 32, 33, 100, 300, rng.randint(0, 300)])
            ops.append("sb dump " + hx(bytes(rng.randrange(256) for _ in range(ln))))
            filled = None
            ops.append("sb text")
            return ops + sb_tail(rng)
        else:
            ops.append("sb text")
    ops.append("sb text")
    return ops


def sb_tail(rng):
    ops = []
    for _ in range(rng.randint(0, 6)):
        x = rng.random()
        if x < 0.4:
            ops.append("sb add " + hx((b"tail-" * 1000)[:rng.choice([0, 3, 50, 700, 4000])]))
        elif x < 0.6:
            ops.append("sb dump " + hx(bytes(rng.randrange(256) for _ in range(rng.choice([1, 16, 40, 300])))))
        elif x < 0.75:
            ops.append("sb limit %d" % rng.choice([0, 10, 2000, 4095, 2 ** 64 - 1]))
        elif x < 0.85:
            ops.append("sb reset")
        else:
            ops.append("sb clear")
    ops.append("sb text")
    return ops


ALLOC_NAMES = [b"new", b"new []", b"malloc", b"malloc", b"my_alloc", b"", b"x" * 60]
FREE_NAMES = [b"delete", b"delete []", b"free", b"my_free", b"", b"y" * 70]
LINES = [0, 1, 42, 999, 65535, 2 ** 31 - 1, 2 ** 31, 2 ** 32 + 7, 2 ** 64 - 1]
PTR_LEN = 14          # "0x602000000010" under the sanitizer build (only used to aim at the boundary)
LIST_LIMIT = 3720
HEADER_LEN = 22


def dump_len(n):
    return 62 * ((n + 15) // 16) + n


def entry_len(num, size, file_len, line, alloc_len):
    line32 = line % 2 ** 32
    line32 = line32 - 2 ** 32 if line32 >= 2 ** 31 else line32
    return 82 + len(str(num)) + len(str(size)) + file_len + len(str(line32)) + alloc_len + PTR_LEN + dump_len(size)


def misuse_op(rng, prefix="ob"):
    kind = rng.choice(["nonalloc", "nonalloc", "mismatch", "corrupt"])
    return "%s misuse %s %s %d %d %s %s %d %s" % (
        prefix, kind, hx(name_bytes(rng, name_len(rng))), rng.choice(LINES), rng.choice([0, 1, 300, 2 ** 40]), hx(rng.choice(ALLOC_NAMES)),
        hx(name_bytes(rng, name_len(rng))), rng.choice(LINES), hx(rng.choice(FREE_NAMES)))


def leak_ops(rng, count, start_num, aim=None):
    """`ob leak` lines; with `aim` the last file name is sized so that the whole listing has `aim` bytes (if possible)"""
    ops, total = [], HEADER_LEN
    for i in range(count):
        size = rng.choice([0, 0, 1, 8, 15, 16, 17, 32, 100, 300, rng.randint(0, 300)])
        fl = rng.choice([0, 5, 12, 12, 12, 40, 200, rng.randint(0, 400)])
        line = rng.choice(LINES)
        an = rng.choice(ALLOC_NAMES)
        num = start_num + i
        if aim is not None and i == count - 1:
            need = aim - total - entry_len(num, size, 0, line, len(an))
            if 0 <= need <= 3000:
                fl = need
        total += entry_len(num, size, fl, line, len(an))
        ops.append("ob leak %d %s %d %s %s" % (num, hx(name_bytes(rng, fl)), line, hx(an), hx(bytes(rng.randrange(256) for _ in range(size)))))
    return ops


def ob_case(rng, tier, big=False):
    ops = ["ob new"]
    x = rng.random()
    nm = rng.choice([0, 0, 1, 2, 3, 4, 5, 8, 20, 40]) if x < 0.6 else 0
    for _ in range(nm):
        ops.append(misuse_op(rng))
    if nm and rng.random() < 0.5:
        ops.append("ob clear")
    y = rng.random()
    if big:
        count = rng.choice([1000, 5000])
    elif y < 0.15:
        count = 0
    elif y < 0.6:
        count = rng.randint(1, 12)
    else:
        count = rng.randint(8, 60)
    aim = None
    if rng.random() < 0.5:
        aim = LIST_LIMIT + rng.choice([-3, -2, -1, 0, 0, 1, 2, 3])
    ops.append("ob start")
    ops += leak_ops(rng, count, rng.choice([1, 1, 100, 4294967290 - count]), aim)
    ops.append("ob stop")
    ops.append("ob text")
    z = rng.random()
    if z < 0.3:      # a second report without clear, or after one
        if rng.random() < 0.5:
            ops.append("ob clear")
        ops.append("ob start")
        ops += leak_ops(rng, rng.randint(0, 20), 1)
        ops.append("ob stop")
        ops.append("ob text")
    elif z < 0.45:
        for _ in range(rng.randint(1, 6)):
            ops.append(misuse_op(rng))
        ops.append("ob text")
    return ops


def ob_malformed(rng):
    """call orders the detector never produces"""
    ops = ["ob new"]
    for _ in range(rng.randint(3, 25)):
        x = rng.random()
        if x < 0.2:
            ops.append("ob start")
        elif x < 0.4:
            ops.append("ob stop")
        elif x < 0.7:
            ops += leak_ops(rng, rng.randint(1, 15), rng.randint(1, 1000))
        elif x < 0.85:
            ops.append(misuse_op(rng))
        elif x < 0.92:
            ops.append("ob clear")
        else:
            ops.append("ob text")
    ops.append("ob text")
    return ops


def det_case(rng, tier, big=False):
    ops = ["det new"]
    if rng.random() < 0.3:
        ops.append("det enable")
    started = rng.random() < 0.8
    if started:
        ops.append("det start")
    labels = []
    k = 0
    nalloc = rng.choice([1000, 5000]) if big else rng.choice([0, 1, 2, 5, 10, 30, 60])
    nmis = rng.choice([0, 0, 1, 3, 4, 5, 10, 40])
    steps = ["alloc"] * nalloc + ["mis"] * nmis
    if rng.random() < 0.5:
        steps = ["mis"] * nmis + ["alloc"] * nalloc
    else:
        rng.shuffle(steps)
    aim_file = rng.random() < 0.4
    for s in steps:
        if s == "alloc":
            k += 1
            lab = "a%d" % k
            fl = rng.choice([0, 5, 12, 12, 40, 200, rng.randint(0, 400)])
            if aim_file and k == nalloc:
                fl = rng.randint(0, 3000)
            kind = rng.choice(["new", "newarray", "malloc", "malloc", "custom:" + hx(rng.choice([b"pool", b"z" * 50]))])
            if rng.random() < 0.15:      # the overload without a location
                ops.append("det alloc0 %s %d %s %d" % (lab, rng.choice([0, 1, 16, 17, 300, rng.randint(0, 300)]), kind, rng.randint(0, 255)))
            else:
                ops.append("det alloc %s %d %s %d %s %d" % (lab, rng.choice([0, 1, 8, 16, 17, 100, 300, rng.randint(0, 300)]),
                                                            hx(name_bytes(rng, fl)), rng.choice(LINES), kind, rng.randint(0, 255)))
            labels.append((lab, kind))
        else:
            x = rng.random()
            if x < 0.08:
                ops.append("det freebad0 " + rng.choice(["new", "newarray", "malloc"]))
            elif x < 0.6 or not labels:
                ops.append("det freebad %s %d %s" % (hx(name_bytes(rng, name_len(rng))), rng.choice(LINES), rng.choice(["new", "newarray", "malloc"])))
            else:
                i = rng.randrange(len(labels))
                lab, kind = labels.pop(i)
                if x < 0.75:
                    ops.append("det corrupt " + lab)
                    fk = kind
                elif x < 0.9:
                    fk = rng.choice([q for q in ("new", "newarray", "malloc") if q != kind])
                else:
                    fk = kind
                if rng.random() < 0.15:
                    ops.append("det free0 %s %s" % (lab, fk))
                else:
                    ops.append("det free %s %s %s %d" % (lab, fk, hx(name_bytes(rng, name_len(rng))), rng.choice(LINES)))
    if rng.random() < 0.25:
        ops.append("det start")       # clears the buffer (as the plugin does before every test)... allocations so far stay in the table
    if rng.random() < 0.1:
        ops.append("det stop")
    ops.append("det report " + rng.choice(["checking", "checking", "all", "enabled"]))
    if rng.random() < 0.25:      # misuse messages after the report (after a zero-leak report the limit is still lowered)
        for _ in range(rng.randint(1, 5)):
            ops.append("det freebad %s %d %s" % (hx(name_bytes(rng, name_len(rng))), rng.choice(LINES), rng.choice(["new", "malloc"])))
    if rng.random() < 0.3:
        if rng.random() < 0.5:
            ops.append("det start")
        if rng.random() < 0.3:
            ops.append("det clearacct")
        ops.append("det report " + rng.choice(["checking", "all"]))
    ops.append("det text")
    return ops


def generate(rng, tier):
    q = tier == "quick"
    out = []
    for _ in range(260 if q else 6000):
        out.append(("fail", failure_case(rng, rng.choice([4, 8, 12]))))
    for _ in range(25 if q else 400):
        out.append(("fmtboundary", [fmt_boundary_op(rng) for _ in range(6)]))
    for _ in range(6 if q else 60):
        out.append(("containsraw", [failure_op_contains_raw(rng) for _ in range(3)]))
    for _ in range(90 if q else 2000):
        out.append(("sb", sb_case(rng, rng.choice([4, 10, 25]))))
    for _ in range(70 if q else 1200):
        out.append(("ob", ob_case(rng, tier)))
    for _ in range(3 if q else 16):
        out.append(("obbig", ob_case(rng, tier, big=True)))
    for _ in range(15 if q else 300):
        out.append(("malformed", ob_malformed(rng)))
    for _ in range(60 if q else 1000):
        out.append(("det", det_case(rng, tier)))
    for _ in range(2 if q else 8):
        out.append(("detbig", det_case(rng, tier, big=True)))
    rng.shuffle(out)          # heavy and light cases mixed: the harness runs contiguous chunks in parallel
    return out


def failure_op_contains_raw(rng):
    e = rstr(rng, rng.randint(1, 10), PRINTABLE + ODD * 3)
    a = rstr(rng, rng.randint(0, 10), PRINTABLE + ODD * 3)
    return "f contains %s %s -" % (hx(e), hx(a))


def translate(ctx):
    from translate import extract_diagnostics, extract_diagbuf, extract_diagfailure
    problems = extract_diagnostics.run()
    return problems + extract_diagbuf.run() + extract_diagfailure.run()


def nontrivial(r):
    for l in r.impl:
        if l.startswith("pos ") and l != "pos none":
            return True
        if l.startswith("notice 1") or l.startswith("fail "):
            return True
        w = l.split()
        if len(w) == 6 and w[0] == "st" and w[1] == w[2] and w[1] != "0":
            return True
    return False


def observe(r, rep):
    clean = None
    for i, l in enumerate(r.impl):
        w = l.split()
        if not w:
            continue
        if w[0] == ">" and len(w) > 2 and w[1] == "f":
            rep.count("class." + w[2])
            if w[2] in ("strequal", "strnocase", "checkequal") and len(w) >= 5:
                e, a = w[3], w[4]
                if e == "N" or a == "N":
                    rep.count("operands.null")
                elif e == a:
                    rep.count("operands.equal")
                else:
                    try:
                        if printable(bytes.fromhex(e) if e != "-" else b"") == printable(bytes.fromhex(a) if a != "-" else b""):
                            rep.count("operands.equal_printed_forms")
                    except ValueError:
                        pass
                if len(e) > 8000 or len(a) > 8000:
                    rep.count("operands.4kB_or_more")
        elif w[0] == "msg" and len(w) == 2:
            # length of the "expected <..>\n\tbut was  <..>" part: which buffer VStringFromFormat used
            try:
                m = bytes.fromhex(w[1]) if w[1] != "-" else b""
            except ValueError:
                m = b""
            at = m.find(b"expected <")
            end = m.find(b"\n\tdifference starts", at)
            if at >= 0:
                n = (end if end >= 0 else len(m)) - at
                if 97 <= n <= 102:
                    rep.count("format.butwas_len_%d" % n)
                else:
                    rep.count("format.butwas_len_" + ("<97" if n < 97 else ">102"))
        elif w[0] == "copy":
            rep.count("copy.same_%s" % w[1])
        elif w[0] == "pos" and w[1] != "none":
            p = int(w[1])
            rep.count("position." + ("0" if p == 0 else "1..20" if p <= 20 else "21..255" if p < 256 else ">=256"))
        elif w[0] == "st" and len(w) == 6:
            if w[3] == "unterminated":
                rep.count("buffer.unterminated")
                continue
            filled, limit = int(w[1]), int(w[2])
            if filled == limit and filled > 0:
                rep.count("buffer.at_limit")
            if filled > limit:
                rep.count("buffer.limit_below_filled")
            if filled == 4095:
                rep.count("buffer.full_4095")
        elif w[0] == "typename":
            rep.count("exception.type_names")
        elif w[0] == "notice":
            rep.count("report.notice_%s" % w[1])
        elif w[0] == "fail":
            rep.count("misuse.message")
        elif w[0] == "total":
            rep.count("report.total_" + ("none" if w[1] == "none" else "0" if w[1] == "0" else "1..50" if int(w[1]) <= 50 else ">50"))
