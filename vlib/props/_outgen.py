"""Generator of scripted registries for the two output-writer properties (C16 JUnit, C20 TeamCity),
and helpers to read a case's operation lines back (used by the Python side judges)."""

SPECIAL_TC = "'|[]\r\n"
SPECIAL_XML = "&<>\"'\r\n"
SPECIAL_FILE = "/\\?%*:|\"<>"
PRINTABLE = "".join(chr(c) for c in range(0x20, 0x7F))
# printf conversions: the report files and the console go through fputs-like seams; nothing may be treated as a format
PERCENT = ["%d", "%s", "%n", "%x", "%%", "% ", "%", "%5d%s", "100%s"]
WORDS = ["test", "Group", "a", "b", "x1", "main", "io", "fooBar", "util.cpp", "src/dir/file.cpp", "C:\\dir\\f.c",
         "it's[here].cpp", "gr\"p<1>", "na&me", "dir/a\"b.cpp", "&amp;", "&#10;", "|n", "||", "|'", "']", "]]>", "<!--",
         "##teamcity", "&lt;", "\r\n", "a b", " ", "%s", "%d%n", "100%"]


def signature(r):
    """stable class of a failing case: quoted strings, byte lists and numbers of the oracle's reason are abstracted"""
    import re
    if r.crash:
        w = r.crash.split()
        return "crash:" + w[1] if len(w) > 1 else "crash"
    if r.spec and r.spec.startswith("spec FAIL"):
        t = r.spec[len("spec FAIL"):]
        t = re.sub(r'"(?:\\.|[^"\\])*"', "S", t)
        t = re.sub(r"\[[0-9, ]*\]", "L", t)
        t = re.sub(r"\d+", "N", t)
        return "spec:" + t.strip()[:160]
    if not r.agree:
        return "diff"
    return ""


def hx(s):
    b = s.encode("latin-1") if isinstance(s, str) else bytes(s)
    return b.hex() if b else "-"


def unhx(h):
    return b"" if h == "-" else bytes.fromhex(h)


def text(rng, maxlen=12, specials=SPECIAL_TC + SPECIAL_XML, p_special=0.35, allow_empty=True, extra=""):
    """random printable text; `specials` are frequent; sometimes long (beyond the 100 byte format buffer)"""
    x = rng.random()
    if x < 0.12:
        return rng.choice(WORDS)
    if x < 0.16 and allow_empty:
        return ""
    if x < 0.20:
        n = rng.choice([99, 100, 101, 130, 260])
    else:
        n = rng.randint(0 if allow_empty else 1, maxlen)
    out = []
    for _ in range(n):
        y = rng.random()
        if y < 0.07:
            out.append(rng.choice(PERCENT))
        elif y < p_special:
            out.append(rng.choice(specials))
        elif y < p_special + 0.05 and extra:
            out.append(rng.choice(extra))
        elif y < p_special + 0.15:
            out.append(rng.choice(WORDS))
        else:
            out.append(rng.choice(PRINTABLE))
    s = "".join(out)
    if not s and not allow_empty:
        s = "g"
    return s


def line_no(rng):
    x = rng.random()
    if x < 0.7:
        return rng.randint(1, 400)
    if x < 0.8:
        return 0
    if x < 0.9:
        return rng.choice([999, 1000, 65535, 65536, 99999, 100000])
    return rng.choice([2147483647, 1000000, 123456789])


def gen_registry(rng, ntests, *, empty_groups=False, repeat_groups=False, with_package=False, with_prints=True,
                 with_filter=True, specials=SPECIAL_TC + SPECIAL_XML, print_avoid="", verbose=True):
    """operation lines describing a registry (without the final `run`)"""
    ops = []
    if with_package and rng.random() < 0.6:
        ops.append("package %s" % hx(text(rng, 8, specials + SPECIAL_FILE, allow_empty=rng.random() < 0.2)))
    ngroups = max(1, min(ntests, rng.choice([1, 1, 2, 3, 5])))
    groups = []
    while len(groups) < ngroups:
        g = text(rng, 10, specials + SPECIAL_FILE, allow_empty=empty_groups)
        if g in groups and not repeat_groups:
            continue
        groups.append(g)
    if repeat_groups and len(groups) >= 2:
        groups.append(groups[0])
    # distribute the tests over the group runs, every run non-empty where possible
    sizes = [1] * len(groups)
    for _ in range(max(0, ntests - len(groups))):
        sizes[rng.randrange(len(groups))] += 1
    names = []
    for g, size in zip(groups, sizes):
        gfile = text(rng, 14, specials + SPECIAL_FILE, allow_empty=False)
        for _ in range(size):
            name = text(rng, 10, specials)
            names.append(name)
            tfile = gfile if rng.random() < 0.85 else text(rng, 14, specials)
            tline = line_no(rng)
            kind = "ign" if rng.random() < 0.22 else "run"
            ops.append("test %s %s %s %d %s" % (hx(g), hx(name), hx(tfile), tline, kind))
            if kind == "ign" and rng.random() < 0.7:
                continue          # an ignored shell's body never runs; sometimes it still has one
            shape = rng.random()
            nacts = 0 if shape < 0.3 else rng.choice([1, 1, 2, 3, 5])
            for k in range(nacts):
                a = rng.random()
                if a < 0.45:
                    where = rng.random()
                    if where < 0.4:
                        ffile, fline = tfile, min(tline + rng.randint(0, 30), 2147483647)          # inside the test: no prefix
                    elif where < 0.6:
                        ffile, fline = tfile, max(0, tline - rng.randint(1, 10)) if tline > 0 else 0   # helper function above
                    else:
                        ffile, fline = text(rng, 14, specials, allow_empty=False), line_no(rng)        # another file
                    kind = rng.random()
                    if kind < 0.30:
                        ops.append("failx %s %d %s" % (hx(ffile), fline, hx(text(rng, 24, specials))))
                    elif kind < 0.62:
                        ops.append("fail %s %d %s" % (hx(ffile), fline, hx(text(rng, 24, specials))))
                    elif kind < 0.78:
                        ops.append("failmsg %s" % hx(text(rng, 24, specials)))          # constructor without a location
                    elif kind < 0.88:
                        ops.append("failloc %s %d" % (hx(ffile), fline))                # constructor without a message
                    else:
                        ops.append("postfail %s" % hx(text(rng, 24, specials)))         # added by a plugin after the body
                elif a < 0.6 and with_prints:
                    t = text(rng, 20, specials)
                    for ch in print_avoid:
                        t = t.replace(ch, "_")
                    ops.append("print %s %d %s" % (hx(text(rng, 8, specials)), line_no(rng), hx(t)))
                elif a < 0.8:
                    ops.append("checks %d" % rng.choice([0, 1, 2, 7]))
                else:
                    ops.append("tick %d" % rng.choice([0, 1, 5, 999, 1000, 1001, 61234]))
    if verbose and rng.random() < 0.3:
        ops.insert(0, "verbose %d" % rng.choice([1, 2, 2]))
    if with_filter and rng.random() < 0.18 and names:
        n = rng.choice(names)
        pat = n if rng.random() < 0.5 else (n[:rng.randint(0, len(n))] if n else "")
        ops.insert(rng.randint(0, len(ops)), "filter %s %d %d" % (hx(pat), rng.random() < 0.5, rng.random() < 0.5))
    return ops


# ---------------------------------------------------------------- reading the operation lines back (Python judges)

def read_registry(ops):
    """-> dict(package, filter, tests=[dict(group,name,file,line,ignored,acts=[(kind,...)])]) up to the first `run`"""
    reg = {"package": b"", "filter": None, "tests": [], "repeat": 1}
    for l in ops:
        w = l.split()
        if not w:
            continue
        try:
            if w[0] == "run":
                break
            if w[0] == "repeat" and len(w) == 2 and w[1] in "123456789":
                reg["repeat"] = int(w[1])
            elif w[0] == "package" and len(w) == 2:
                reg["package"] = unhx(w[1])
            elif w[0] == "filter" and len(w) == 4:
                reg["filter"] = (unhx(w[1]), w[2] == "1", w[3] == "1")
            elif w[0] == "test" and len(w) == 6:
                reg["tests"].append({"group": unhx(w[1]), "name": unhx(w[2]), "file": unhx(w[3]), "line": int(w[4]),
                                     "ignored": w[5] == "ign", "acts": []})
            elif w[0] in ("print", "fail", "failx") and len(w) == 4 and reg["tests"]:
                reg["tests"][-1]["acts"].append((w[0], unhx(w[1]), int(w[2]), unhx(w[3])))
            elif w[0] in ("failmsg", "postfail") and len(w) == 2 and reg["tests"]:
                reg["tests"][-1]["acts"].append((w[0], unhx(w[1])))
            elif w[0] == "failloc" and len(w) == 3 and reg["tests"]:
                reg["tests"][-1]["acts"].append((w[0], unhx(w[1]), int(w[2])))
            elif w[0] in ("checks", "tick") and len(w) == 2 and reg["tests"]:
                reg["tests"][-1]["acts"].append((w[0], int(w[1])))
        except ValueError:
            pass
    return reg


def junit_file_names(reg):
    """names of the report files of a run, in the order they are written (sanitised cpputest_[package_]group.xml;
    the group is unknown - empty - when none of its tests runs)"""
    bad = set(b'/\\?%*:|"<>')
    names = []
    for g, ts in group_runs(reg["tests"]):
        any_runs = any(should_run(reg, t) for t in ts)
        raw = b"cpputest_" + (reg["package"] + b"_" if reg["package"] else b"") + (g if any_runs else b"")
        names.append(bytes(95 if c in bad else c for c in raw) + b".xml")
    return names


def should_run(reg, t):
    if reg["filter"] is None:
        return True
    pat, strict, invert = reg["filter"]
    m = (t["name"] == pat) if strict else (pat in t["name"])
    return m != invert


def executed(t):
    """actions of a test that are executed (nothing after a failx; nothing for an ignored shell);
    the plugin's postfail actions are not part of the body"""
    if t["ignored"]:
        return []
    out = []
    for a in t["acts"]:
        if a[0] == "postfail":
            continue
        out.append(a)
        if a[0] == "failx":
            break
    return out


def failures(t):
    """(file, line, message) of every failure a test reports, in order: the body's, then the plugin's.
    A failure without location is located at the test; one without message says `no message`."""
    out = []
    for a in executed(t):
        if a[0] in ("fail", "failx"):
            out.append((a[1], a[2], a[3]))
        elif a[0] == "failmsg":
            out.append((t["file"], t["line"], a[1]))
        elif a[0] == "failloc":
            out.append((a[1], a[2], b"no message"))
    if not t["ignored"]:
        for a in t["acts"]:
            if a[0] == "postfail":
                out.append((t["file"], t["line"], a[1]))
    return out


def group_runs(tests):
    runs = []
    for t in tests:
        if runs and runs[-1][0] == t["group"]:
            runs[-1][1].append(t)
        else:
            runs.append((t["group"], [t]))
    return runs
