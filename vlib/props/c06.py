"""C06 — memory misuse is reported exactly: generator and property-specific settings.
Shares the detector model, the translator and the arena harness library with C04 (vlib/props/c04.py)."""
from . import c04 as base

ID = "C06"
HARNESS = "h_c06"
KEEP_FIRST = 1
SHRINK_BUDGET = 300

HP, NSLOTS, FILES, CALLABLE = base.HP, base.NSLOTS, base.FILES, base.CALLABLE
GROUPS = {"N": [0, 3, 9], "A": [1, 4], "M": [2, 5, 10, 11], "CA": [6, 7], "CB": [8, 12]}
FAMILY = dict(base.FAMILY)
FAMILY.update({16: "GEN"})      # the CrashOnAllocationAllocator (base class default names)
GUARD = [0x42, 0x41, 0x53]
INTERESTING = [0x00, 0xCD, 0xA5, 0xFF, 0x42, 0x41, 0x53, 0x43, 0x40, 0xEE]


class Gen(base.Gen):
    def __init__(self, rng):
        base.Gen.__init__(self, rng, c06=True)
        self.cur = {"new": 0, "newarray": 1, "malloc": 2}

    def size(self):
        x = self.rng.random()
        if x < 0.7:
            return self.rng.randint(0, 64)
        if x < 0.85:
            return self.rng.randint(0, 8)
        return self.rng.choice([74, 100, 127, 128, 147, 255, 256, 399, 400])

    def other_allocator(self, ai):
        """an allocator for the releasing side: same object, same family other object / wrapper, or another family"""
        rng = self.rng
        fam = FAMILY[ai]
        x = rng.random()
        if x < 0.35:
            return ai
        if x < 0.65:
            return rng.choice(GROUPS[fam])
        return rng.choice(CALLABLE)

    def galloc(self):
        rng = self.rng
        s = self.pick_slot()
        if s is None:
            return
        fam = rng.choice(["new", "newarray", "malloc"])
        form = rng.choice(base.ACQ_FORMS[fam])
        l, size = self.new_label(), self.size()
        f, ln = self.loc()
        self.ops.append("gacq %s %s %d %d %s %d" % (form, l, s, size, f, ln))
        self.blocks[l] = dict(slot=s, size=size, alloc=self.cur[fam], sep=(fam == "malloc"), stage=self.stage,
                              period=self.period, tracked=True, gfam=fam)
        self.occupied.add(s)

    def write(self):
        rng = self.rng
        tr = self.tracked()
        if not tr:
            return
        l = rng.choice(tr)
        size = self.blocks[l]["size"]
        if size > 0 and rng.random() < 0.45:
            off = rng.choice([0, size - 1, rng.randrange(size)])
            byte = rng.choice(INTERESTING + [rng.randrange(256)])
        else:
            pos = rng.randrange(3)
            off = size + pos
            x = rng.random()
            if x < 0.2:
                byte = GUARD[pos]                    # rewriting the byte that is there: not a change
            elif x < 0.35:
                byte = GUARD[(pos + 1 + rng.randrange(2)) % 3]
            elif x < 0.6:
                byte = rng.choice(INTERESTING)
            else:
                byte = rng.randrange(256)
        self.ops.append("write %s %d %02x" % (l, off, byte))
        if off >= size:
            self.blocks[l]["touched"] = True

    def free(self):
        rng = self.rng
        x = rng.random()
        f, ln = self.loc()
        tr = self.tracked()
        if x < 0.75 and tr:
            l = rng.choice(tr)
            b = self.blocks[l]
            self.ops.append("free %d %s 0 %s %d %d" % (self.other_allocator(b["alloc"]), l, f, ln, b["sep"]))
            self.gone(l)
        elif x < 0.83 and self.stale:
            l = rng.choice(self.stale)
            b = self.blocks[l]
            again = [m for m in tr if self.blocks[m]["slot"] == b["slot"]]
            self.ops.append("free %d %s 0 %s %d %d" % (b["alloc"], l, f, ln, again and self.blocks[again[0]]["sep"] or b["sep"]))
            for m in again:
                self.gone(m)
        elif x < 0.91 and tr:
            l = rng.choice(tr)
            d = rng.choice([-8, -7, -6, -5, -4, -3, -2, -1, 1, 2, 3, 4, 5, 6, 7, 8])
            big = [m for m in tr if self.blocks[m]["size"] > HP]
            if big and rng.random() < 0.5:
                # an interior address that falls into the block's own hash bucket
                l = rng.choice(big)
                d = HP * rng.randint(1, self.blocks[l]["size"] // HP)
            self.ops.append("free %d %s %d %s %d %d" % (self.blocks[l]["alloc"], l, d, f, ln, self.blocks[l]["sep"]))
        elif x < 0.95:
            self.ops.append("free %d null 0 %s %d %d" % (rng.choice(CALLABLE), f, ln, rng.random() < 0.5))
        else:
            a = rng.choice([1, 72, 73, 1167, 1168 + 512 * NSLOTS + rng.randrange(100000), rng.randrange(1 << 40)])
            self.ops.append("free %d @%d 0 %s %d %d" % (rng.choice(CALLABLE), a, f, ln, rng.random() < 0.5))

    def gone(self, l):
        b = self.blocks[l]
        b["tracked"] = False
        self.occupied.discard(b["slot"])
        self.stale.append(l)

    def grelease(self):
        rng = self.rng
        tr = self.tracked()
        fam = rng.choice(["new", "newarray", "malloc"])
        f, ln = self.loc()
        x = rng.random()
        if x < 0.8 and tr:
            # mostly a form of the block's own family (every form of it), sometimes another family
            l = rng.choice(tr)
            if rng.random() < 0.65:
                fam = base.FAMILY_OF_KIND.get(FAMILY[self.blocks[l]["alloc"]], fam)
            self.ops.append("grel %s %s 0 %s %d" % (rng.choice(base.REL_FORMS[fam]), l, f, ln))
            self.gone(l)
        elif x < 0.9 and tr:
            self.ops.append("grel %s %s %d %s %d" % (rng.choice(base.REL_FORMS[fam]), rng.choice(tr), rng.choice([-1, 1, 2, 3, 8]), f, ln))
        elif x < 0.95:
            self.ops.append("grel %s null 0 %s %d" % (rng.choice(base.REL_FORMS[fam]), f, ln))
        elif self.stale:
            l = rng.choice(self.stale)
            if not [m for m in tr if self.blocks[m]["slot"] == self.blocks[l]["slot"]]:
                self.ops.append("grel %s %s 0 %s %d" % (rng.choice(base.REL_FORMS[fam]), l, f, ln))

    def overloads_op(self):
        self.ops.append("overloads " + self.rng.choice(["threadsafe", "threadsafe", "plain"]))

    def setcur(self):
        fam = self.rng.choice(["new", "newarray", "malloc"])
        ai = self.rng.choice(CALLABLE)
        self.ops.append("setcur %s %d" % (fam, ai))
        self.cur[fam] = ai

    def typecheck_op(self):
        self.typecheck = not self.typecheck if self.rng.random() < 0.8 else self.typecheck
        self.ops.append("typecheck " + ("on" if self.typecheck else "off"))

    def invalidate(self):
        tr = self.tracked()
        if tr and self.rng.random() < 0.8:
            # NULL, the block itself, or an address inside / next to it (which is not a tracked address: nothing may happen)
            l = self.rng.choice(tr)
            d = 0 if self.rng.random() < 0.5 else self.rng.choice([-2, -1, 1, 2, 3, 4, 8])
            big = [m for m in tr if self.blocks[m]["size"] > HP]
            if big and self.rng.random() < 0.3:
                l = self.rng.choice(big)
                d = HP * self.rng.randint(1, self.blocks[l]["size"] // HP)
            self.ops.append("invalidate %s %d" % (l, d))
        else:
            self.ops.append("invalidate @%d 0" % self.rng.choice([0, 5, 1168, 1168 + 512 * 3 + 1]))

    # ---- C06's own operations: MemoryLeakAllocator forwarders, NullUnknownAllocator, CrashOnAllocationAllocator
    def mlaalloc(self):
        s = self.pick_slot()
        if s is None:
            return
        ai = self.rng.choice([13, 14])
        l, size = self.new_label(), self.size()
        f, ln = self.loc()
        self.ops.append("mlaalloc %d %s %d %d %s %d" % (ai, l, s, size, f, ln))
        # the record names the wrapped allocator (registry 1 resp. 12), inline layout
        self.blocks[l] = dict(slot=s, size=size, alloc={13: 1, 14: 12}[ai], sep=False, stage=self.stage, period=self.period, tracked=True)
        self.occupied.add(s)

    def mlafree(self):
        rng = self.rng
        tr = self.tracked()
        f, ln = self.loc()
        x = rng.random()
        if x < 0.8 and tr:
            inline = [l for l in tr if not self.blocks[l]["sep"]]
            l = rng.choice(inline if inline and rng.random() < 0.8 else tr)
            self.ops.append("mlafree %d %s 0 %s %d" % (rng.choice([13, 14]), l, f, ln))
            self.gone(l)
        elif x < 0.9 and tr:
            self.ops.append("mlafree %d %s %d %s %d" % (rng.choice([13, 14]), rng.choice(tr), rng.choice([-1, 1, 3]), f, ln))
        elif x < 0.95 or not self.stale:
            self.ops.append("mlafree %d null 0 %s %d" % (rng.choice([13, 14]), f, ln))
        else:
            l = rng.choice(self.stale)
            if not [m for m in tr if self.blocks[m]["slot"] == self.blocks[l]["slot"]]:
                self.ops.append("mlafree %d %s 0 %s %d" % (rng.choice([13, 14]), l, f, ln))

    def nullfree(self):
        rng = self.rng
        tr = self.tracked()
        f, ln = self.loc()
        x = rng.random()
        if x < 0.75 and tr:
            l = rng.choice(tr)
            b = self.blocks[l]
            self.ops.append("nullfree %s 0 %s %d %d" % (l, f, ln, b["sep"]))
            # whatever is reported, the record is gone and the block was NOT handed back: the client still owns it
            b["tracked"] = False
            if not self.no_drop and rng.random() < 0.7:
                self.ops.append("drop " + l)
                self.occupied.discard(b["slot"])
                self.stale.append(l)
            else:
                self.orphans.append(l)
        elif x < 0.9 and tr:
            self.ops.append("nullfree %s %d %s %d %d" % (rng.choice(tr), rng.choice([-2, -1, 1, 2]), f, ln, rng.random() < 0.5))
        else:
            self.ops.append("nullfree null 0 %s %d 0" % (f, ln))

    def nullalloc(self):
        f, ln = self.loc()
        self.ops.append("nullalloc %d %s %d %d" % (self.size(), f, ln, self.rng.random() < 0.5))

    def step(self):
        x = self.rng.random()
        n = len(self.tracked())
        if x < 0.05:
            y = self.rng.random()
            if y < 0.3:
                self.mlaalloc()
            elif y < 0.6:
                self.mlafree()
            elif y < 0.9:
                self.nullfree()
            else:
                self.nullalloc()
            return
        x = self.rng.random()
        if x < 0.24 or n == 0 and x < 0.5:
            self.alloc()
        elif x < 0.31:
            self.galloc()
        elif x < 0.52:
            self.write()
        elif x < 0.72:
            self.free()
        elif x < 0.80:
            self.grelease()
        elif x < 0.85:
            self.realloc()
        elif x < 0.89:
            self.typecheck_op()
        elif x < 0.905:
            self.overloads_op()
        elif x < 0.92:
            self.setcur()
        elif x < 0.94:
            self.stage_op()
        elif x < 0.97:
            self.invalidate()
        elif x < 0.985:
            self.period_op()
        else:
            self.report()


def gen_case(rng, n):
    g = Gen(rng)
    if rng.random() < 0.5:
        g.period = "enabled"; g.ops.append("period enable")
    for _ in range(n):
        g.step()
    # release everything that is left, so that late corruptions are judged too
    for l in list(g.tracked()):
        b = g.blocks[l]
        g.ops.append("free %d %s 0 z.c 1 %d" % (b["alloc"], l, b["sep"]))
    return g.ops


def gen_mrp_case(rng, ntests):
    """a real MemoryReporterPlugin (-pmemoryreport=normal) around scripted test bodies: its pre action makes the three report
    allocators current, its post action must put back the ones that were current before; blocks are acquired / released
    through every overload form inside and between tests (a block of one test may go back in a later one or between tests)"""
    g = Gen(rng)
    if rng.random() < 0.4:
        g.setcur()
    both = rng.random() < 0.5
    if both:
        g.ops.append("plugin create"); g.period = "enabled"
    g.ops.append("mrp create")

    def body(k):
        for _ in range(k):
            x = rng.random()
            if x < 0.4:
                g.galloc()
            elif x < 0.75:
                g.grelease()
            elif x < 0.85:
                g.write()
            elif x < 0.9:
                g.alloc()
            elif x < 0.95:
                g.free()
            elif x < 0.98:
                g.typecheck_op()
            else:
                g.overloads_op()

    for t in range(ntests):
        body(rng.randint(0, 3))                  # between two tests: the plain current allocators
        if both:
            g.ops.append("plugin pre"); g.period = "checking"
        g.ops.append("mrp pre")
        body(rng.randint(0, 8))
        g.ops.append("mrp post")
        if both:
            g.ops.append("plugin post"); g.period = "enabled"
    body(rng.randint(0, 4))
    for l in list(g.tracked()):
        b = g.blocks[l]
        g.ops.append("free %d %s 0 z.c 1 %d" % (b["alloc"], l, b["sep"]))
    return g.ops


def gen_special_case(rng, n):
    """C06's own objects made frequent: MemoryLeakAllocator forwarders, releases through the NullUnknownAllocator, and the
    CrashOnAllocationAllocator as a current allocator (all three families may share it: one object, never a mismatch)"""
    g = Gen(rng)
    if rng.random() < 0.5:
        g.period = "enabled"; g.ops.append("period enable")
    crash = rng.random() < 0.5
    nalloc = 0
    if crash:
        for fam in rng.sample(["new", "newarray", "malloc"], rng.randint(1, 3)):
            g.ops.append("setcurx %s 16" % fam)
            g.cur[fam] = 16
    for _ in range(n):
        x = rng.random()
        before = len(g.blocks)
        if x < 0.18:
            g.mlaalloc()
        elif x < 0.34:
            g.mlafree()
        elif x < 0.5:
            g.nullfree()
        elif x < 0.54:
            g.nullalloc()
        elif x < 0.62:
            g.write()
        elif x < 0.66:
            g.typecheck_op()
        elif crash and x < 0.72:
            # aim at the next allocation number (the generator's count; failed allocations make it drift, which is fine)
            g.ops.append("crashon %d" % max(0, nalloc + 1 + rng.choice([0, 0, 0, 1, -1, 2])))
        elif x < 0.86:
            g.galloc()
        elif x < 0.95:
            g.grelease()
        else:
            g.alloc()
        nalloc += len(g.blocks) - before
    for l in list(g.tracked()):
        b = g.blocks[l]
        if b["alloc"] == 16:
            fam = b.get("gfam", "new")
            g.ops.append("grel %s %s 0 z.c 1" % (base.REL_FORMS[fam][0], l))
        else:
            g.ops.append("free %d %s 0 z.c 1 %d" % (b["alloc"], l, b["sep"]))
    return g.ops


def sweep_special(tc, corrupt):
    """every allocating allocator x {both MemoryLeakAllocator wrappers, the NullUnknownAllocator} on the releasing side, and
    blocks acquired through the wrappers released through every allocator"""
    ops = ["setup", "typecheck " + ("on" if tc else "off")]
    k = 0
    for a in CALLABLE:
        for rel in ("mla13", "mla14", "null"):
            k += 1
            ops.append("alloc q%d %d 6 %d s.c %d 0" % (k, (k * 5) % NSLOTS, a, k))
            if corrupt:
                ops.append("write q%d %d 00" % (k, 6 + k % 3))
            if rel == "null":
                ops.append("nullfree q%d 0 t.c %d 0" % (k, k))
                ops.append("nullfree q%d 0 t.c %d 0" % (k, k))        # again: now it is not allocated
                ops.append("drop q%d" % k)
            else:
                ops.append("mlafree %s q%d 0 t.c %d" % (rel[3:], k, k))
                ops.append("mlafree %s q%d 0 t.c %d" % (rel[3:], k, k))
    for w in (13, 14):
        for b in CALLABLE:
            k += 1
            ops.append("mlaalloc %d q%d %d 9 s.c %d" % (w, k, (k * 5) % NSLOTS, k))
            if corrupt:
                ops.append("write q%d %d ff" % (k, 9 + k % 3))
            ops.append("free %d q%d 0 t.c %d 0" % (b, k, k))
    for size in (0, 1, 400):
        ops.append("nullalloc %d s.c 1 0" % size)
        ops.append("nullalloc %d s.c 1 1" % size)
    return ops


def gen_malformed(rng, n):
    g = Gen(rng)
    g.no_drop = True
    words = ["write", "free", "gdelete", "gfree", "gnew", "invalidate", "setcur", "typecheck", "alloc", "b1", "b2", "null", "@7", "-3", "zz",
             "999999999999", "on", "off", "new", "malloc", "13", "14", "99", "x.c", ""]
    for _ in range(n):
        x = rng.random()
        if x < 0.5:
            g.step()
        elif x < 0.8:
            g.ops.append(" ".join(rng.choice(words) for _ in range(rng.randint(1, 8))).strip() or "bogus")
        else:
            tr = g.tracked()
            l = rng.choice(tr) if tr else "nolabel"
            size = g.blocks[l]["size"] if tr else 4
            g.ops.append(rng.choice([
                "write %s %d 00" % (l, size + 3),            # beyond the guard bytes: outside the quantifier, must be skipped
                "write %s %d 00" % (l, size + 64),
                "write %s 0 0" % l, "write %s 0 zz" % l, "write nolabel 0 00",
                "setcur new 13", "setcur malloc 99", "setcur sideways 1",
                "gnew q %d 4 f.c 1" % rng.choice(sorted(g.occupied) or [0]),
                "gfree nolabel 0 f.c 1", "typecheck maybe", "invalidate nolabel 0",
                "mlafree 12 %s 0 f.c 1" % l, "mlafree 13 nolabel 0 f.c 1", "mlaalloc 15 q 3 4 f.c 1", "mlaalloc 13 q %d 4 f.c 1" % rng.choice(sorted(g.occupied) or [0]),
                "nullfree nolabel 0 f.c 1 0", "nullalloc 4 f.c 99999999999 0", "crashon zz", "setcurx new 3", "setcurx sideways 16", "setup",
            ]))
    return g.ops


# ---------------------------------------------------------------- finite sweeps

def sweep_guard(size, pos, ai, sep, slot0):
    """every byte value at one guard position of a block of one size"""
    ops = ["setup", "period enable"]
    for b in range(256):
        s = (slot0 + b * 7) % NSLOTS
        ops.append("alloc g%d %d %d %d s.c %d %d" % (b, s, size, ai, b + 1, sep))
        ops.append("write g%d %d %02x" % (b, size + pos, b))
        ops.append("free %d g%d 0 t.c %d %d" % (ai, b, b + 1, sep))
    return ops


def sweep_user(sizes, rng, ai, sep):
    """every offset inside the user bytes"""
    ops = ["setup"]
    for k, size in enumerate(sizes):
        ops.append("alloc u%d %d %d %d s.c 1 %d" % (k, (k * 11) % NSLOTS, size, ai, sep))
        for off in range(size):
            ops.append("write u%d %d %02x" % (k, off, rng.choice(INTERESTING + [rng.randrange(256)])))
        ops.append("free %d u%d 0 t.c 1 %d" % (ai, k, sep))
    return ops


def sweep_families(tc, corrupt, sep):
    """every allocating allocator x every releasing allocator"""
    ops = ["setup", "typecheck " + ("on" if tc else "off")]
    k = 0
    for a in CALLABLE:
        for b in CALLABLE:
            k += 1
            ops.append("alloc p%d %d 5 %d s.c 1 %d" % (k, (k * 5) % NSLOTS, a, sep))
            if corrupt:
                ops.append("write p%d %d 00" % (k, 5 + k % 3))
            ops.append("free %d p%d 0 t.c 1 %d" % (b, k, sep))
    return ops


def sweep_addresses(sep):
    ops = ["setup"]
    k = 0
    for size in (0, 1, 8, 16, 40, 150, 400):
        for ai in (0, 2, 8, 9):
            k += 1
            l = "i%d" % k
            ops.append("alloc %s %d %d %d s.c 1 %d" % (l, (k * 74) % NSLOTS, size, ai, sep))
            # next to / inside the block, incl. the interior addresses that share the block's hash bucket (multiples of 73)
            for d in list(range(-8, 0)) + list(range(1, 9)) + [size, size + 3, 511, 512, -512, -HP] + [HP * j for j in range(1, size // HP + 1)]:
                ops.append("invalidate %s %d" % (l, d))
                ops.append("free %d %s %d t.c 1 %d" % (ai, l, d, sep))
            ops.append("free %d %s 0 t.c 2 %d" % (ai, l, sep))
            ops.append("free %d %s 0 t.c 3 %d" % (ai, l, sep))          # stale
            ops.append("free %d null 0 t.c 4 %d" % (ai, sep))
    for a in (1, 73, 1167, 1168 + 512 * NSLOTS, 1 << 33, (1 << 47) - 1):
        ops.append("free 0 @%d 0 t.c 5 %d" % (a, sep))
    return ops


def sweep_overloads(tc, curs, threadsafe=False):
    """every acquiring form x every releasing form of the real overloads, with the current allocators `curs`, plain or
    thread-safe overloads: pairs of one family must be silent, pairs of different families a mismatch (checking on)"""
    ops = ["setup", "typecheck " + ("on" if tc else "off"), "overloads " + ("threadsafe" if threadsafe else "plain")]
    for fam, ai in curs.items():
        ops.append("setcur %s %d" % (fam, ai))
    k = 0
    for af in sum(base.ACQ_FORMS.values(), []):
        for rf in sum(base.REL_FORMS.values(), []):
            for size in (0, 9):
                k += 1
                ops.append("gacq %s o%d %d %d s.c %d" % (af, k, (k * 3) % NSLOTS, size, k))
                if size:
                    ops.append("write o%d %d 7e" % (k, size - 1))
                ops.append("grel %s o%d 0 t.c %d" % (rf, k, k))
    return ops


def sweeps(rng, tier):
    out = []
    sizes = [0, 1, 8, 63] if tier == "quick" else list(range(65)) + [100, 255, 400]
    for i, size in enumerate(sizes):
        for pos in range(3):
            ai = CALLABLE[(i + pos) % len(CALLABLE)]
            out.append(("sweep_guard", sweep_guard(size, pos, ai, (i + pos) % 2, rng.randrange(NSLOTS))))
    allsizes = list(range(65)) + [100, 400]
    for i in range(0, len(allsizes), 12):
        out.append(("sweep_user", sweep_user(allsizes[i:i + 12], rng, CALLABLE[i % len(CALLABLE)], (i // 12) % 2)))
    for tc in (True, False):
        for corrupt in (False, True):
            out.append(("sweep_families", sweep_families(tc, corrupt, int(corrupt))))
    out.append(("sweep_addresses", sweep_addresses(0)))
    out.append(("sweep_addresses", sweep_addresses(1)))
    for tc in (True, False):
        for curs in ({}, {"new": 3, "newarray": 4, "malloc": 5}, {"new": 9, "malloc": 10}, {"new": 8, "newarray": 8, "malloc": 8}):
            out.append(("sweep_overloads", sweep_overloads(tc, curs)))
            out.append(("sweep_overloads", sweep_overloads(tc, curs, threadsafe=True)))
    return out


def generate(rng, tier):
    out = []
    if tier == "quick":
        n, lens = 400, [3, 10, 30, 80, 200]
    else:
        n, lens = 5000, [10, 50, 200, 600, 1500]
    for _ in range(n):
        out.append(("gen", gen_case(rng, rng.choice(lens))))
    for _ in range(n // 10):
        out.append(("malformed", gen_malformed(rng, rng.choice([5, 20, 60]))))
    for _ in range(n // 8):
        out.append(("mrp", gen_mrp_case(rng, rng.choice([1, 2, 4, 8]))))
    for _ in range(n // 6):
        out.append(("special", gen_special_case(rng, rng.choice([4, 12, 40, 120]))))
    for tc in (True, False):
        for corrupt in (False, True):
            out.append(("sweep_special", sweep_special(tc, corrupt)))
    out += sweeps(rng, tier)
    return out


def signature(r):
    """class of a failing case: the default one with lists of addresses / totals collapsed, so that shrinking may drop blocks"""
    import re
    from vlib import flow
    return re.sub(r"\[[^\]]*\]", "[..]", flow.default_signature(r))


def translate(ctx):
    from translate import extract_leakdetector, extract_misuse
    problems = []
    for ex in (extract_leakdetector, extract_misuse):
        try:
            problems += ex.run() or []
        except Exception as e:
            problems.append("translator %s cannot translate the current source: %s" % (ex.__name__.split(".")[-1], e))
    return problems


def extra(ctx, exe):
    # the guard sweep (every guard position x all 256 byte values) is complete for the listed sizes in both tiers;
    # all sizes 0..64 only in the thorough tier
    ctx.rep.exhaustive = ctx.tier == "thorough"


def _classes(r):
    op = None
    fails = 0
    ts = False
    for l in r.impl:
        w = l.split()
        if not w:
            continue
        if w[0] == ">":
            if op and op[0] in ("free", "grel", "realloc") and fails == 0:
                yield "release_silent_" + ("overload" if op[0][0] == "g" else "direct")
            if op and op[0] in ("mlafree", "nullfree"):
                yield "release_through_%s_%s" % (op[0][:-4], "silent" if fails == 0 else "reported")
            op, fails = w[1:], 0
            if op[:1] == ["overloads"]:
                ts = op[1] == "threadsafe"
        elif w[0] == "fail":
            fails += 1
            yield "report_" + w[1] + ("_overload" if op and op[0][0] == "g" else "")
        elif w[0] == "ufree" and op and op[0] == "grel":
            yield "release_form_" + op[1]
            if ts:
                yield "threadsafe_overload_release"
            yield "overload_release_poisoned" if w[3] != "-" and set(w[3]) <= set("cd") else "overload_release_empty_block" if w[3] == "-" else "overload_release_NOT_poisoned"
        elif w[0] == "ret" and op and op[0] == "gacq" and w[1] != "0":
            yield "acquire_form_" + op[1]
        elif w[0] == "ufree" and op and op[0][0] == "g":
            if ts:
                yield "threadsafe_overload_release"
            yield "overload_release_poisoned" if w[3] != "-" and set(w[3]) <= set("cd") else "overload_release_empty_block" if w[3] == "-" else "overload_release_NOT_poisoned"
        elif w[0] == "nfree" and w[1] == "0":
            yield "bookkeeping_free_of_inline_record"
        elif w[0] == "failtext":
            yield "report_text_compared"
        elif w[0] == "crashcall":
            yield "crash_allocator_fired"
        elif w[0] == "ret" and op and op[0] in ("mlaalloc", "nullalloc"):
            yield "acquire_through_" + op[0][:-5]
    for l in r.ops:
        w = l.split()
        if w and w[0] == "write":
            yield "write_op"


def nontrivial(r):
    ks = set(_classes(r))
    return bool(ks & {"report_mismatch", "report_corruption", "report_nonallocated", "overload_release_poisoned",
                      "report_mismatch_overload", "report_corruption_overload", "report_nonallocated_overload"})


def observe(r, rep):
    for k in _classes(r):
        rep.count("branch." + k)


TRUSTED = [
    "Lean 4 kernel; axioms of every theorem audited (propext, Classical.choice, Quot.sound at most)",
    "hand-written model lean/CppUModel/Model/LeakDetector.lean (table, reallocMemory, stage release, the guard loops, block contents), tied to "
    "src/CppUTest/MemoryLeakDetector.cpp, TestMemoryAllocator.cpp and MemoryLeakWarningPlugin.cpp by the h_c06 correspondence of this run "
    "(real detector, real allocator objects and wrappers, real operator delete / delete[] / free overloads); deallocMemory, "
    "checkForCorruption, invalidateMemory, the type-checking switch and isOfEqualType of that model are PROVED equal to what the "
    "translator reads from the source at check time",
    "extractors translate/extract_leakdetector.py (matchingAllocation statement by statement, GuardBytes, guard size, poison byte, the six "
    "release wrappers, overload forwarding) and translate/extract_misuse.py (statement lists of checkForCorruption / deallocMemory / "
    "invalidateMemory / reportFailure, the three report functions and their messages, the two location formats, default / NullUnknown / "
    "base-class allocator names, MemoryLeakAllocator forwarders, CrashOnAllocationAllocator compare); shape checks only: the guard loops, "
    "actualAllocator / name / alloc_name / free_name forwarders, hasBeenDestroyed, NullUnknownAllocator bodies",
    "the interpreters of lean/CppUModel/Model/Misuse.lean (meaning given to the regenerated statement lists and printf formats); the report "
    "text they produce is compared byte for byte with the text the real reporter receives (`failtext` lines)",
    "the block contents are a ghost field of the model record (user bytes + guard bytes of the block the record describes); distinct live "
    "blocks do not overlap (platform allocator)",
    "PlatformSpecificMemset / PlatformSpecificVSNprintf of the Gcc platform behave as memset / vsnprintf",
]
ASSUMPTIONS = [
    "writes are confined to the user bytes and the guard bytes of an outstanding block (a write behind the guard bytes hits padding or the "
    "inline record and is outside the property's quantifier)",
    "`a guard byte was changed` is read as: its current value differs from the pattern byte (a byte rewritten with its own value is not a change)",
    "two allocator objects with one identity are one object (ConsistentIds); the family of an allocator is the name of its actual allocator; "
    "the three default allocators are three families (checked: regenerated names, theorem default_families_distinct, oracle clause at setup)",
    "a block is released with the bookkeeping layout it was allocated with, except through the real overloads, which choose the layout per family, "
    "and through MemoryLeakAllocator::free_memory, which always uses the inline layout",
    "the reporter returns (recording MemoryLeakFailure, no longjmp), so the release continues after a report as the code is written",
    "the releasing allocator object is alive: deallocMemory's hasBeenDestroyed() branch (record dropped, nothing checked, reported or freed) is "
    "proved from the regenerated statement list but not exercised, because using a destroyed object is undefined behaviour",
    "a report that does not fit the detector's 4096-byte text buffer (`fail lost`) is C14's subject and not judged here",
]
RULE = ("histories of alloc/write/release over all 13 callable allocator objects (3 standard, same-name and other-name custom ones, "
        "accounting wrappers incl. nested) on both sides, the two MemoryLeakAllocator objects through their own alloc_memory / free_memory, "
        "the NullUnknownAllocator on the releasing and acquiring side, a CrashOnAllocationAllocator as current allocator of one to three "
        "families with a moving crash number, type checking on/off, direct API and the real overloads with changing current "
        "allocators, stale/interior(+-1..8)/foreign/NULL addresses; finite sweeps: every guard position x all 256 byte values (sizes "
        "0,1,8,63 quick; 0..64,100,255,400 thorough), every user offset of sizes 0..64,100,400, 13x13 allocator pairs x checking on/off x "
        "intact/corrupted, 13 allocators x {both MemoryLeakAllocators, NullUnknownAllocator} x checking on/off x intact/corrupted, 3x3 overload "
        "pairs x 8 current-allocator settings; the complete text of every report is compared; non-trivial = at least one report or one poisoned release")
LEVEL_TEXT = ("Machine-checked Lean 4 theorems over the executable detector model: the report of a release is classified by four disjoint "
              "iff-cases (silent / non-allocated / mismatch / corruption) for every state, address, allocator pair and type-checking "
              "setting — stated both for the hand model and for deallocMemory / checkForCorruption AS REGENERATED from the source "
              "(statement lists executed by an interpreter and proved equal to the hand model, so a reordering, a dropped else, an inverted "
              "guard or a changed argument breaks a proof); the regenerated matchingAllocation accepts iff checking is off or the families "
              "agree, with isOfEqualType regenerated as name equality; the guard loop accepts iff all guard bytes hold the pattern; a write "
              "of any byte at any user offset changes no verdict; a write of byte b at guard position i is reported iff b differs from the "
              "pattern byte; wrappers compare as their actual allocator at any depth and MemoryLeakAllocator's own free_memory is a release "
              "through the wrapped allocator; the three default allocators, NullUnknownAllocator and the base-class default are five "
              "different families (regenerated names); release through delete / delete[] / free hands back exactly that block with all user "
              "bytes poisoned (invalidateMemory regenerated: fill byte, length, lookup), with the verdict of a plain release; the text handed "
              "to the reporter is, for every category and field values, the category line followed by the two location lines built from the "
              "regenerated formats, and its first line decodes to the category. The model is tied to the code on every run by the "
              "differential harness (ASan/UBSan), and the implementation's observations are judged by an independent oracle.")
LEVEL_NOTE = ("Trusted: Lean kernel; the hand-written parts of the model that are not regenerated (table, realloc, stage release, guard loops; "
              "validated by this run's correspondence); the two extractors and the interpreters of the regenerated lists (validated by the "
              "byte-for-byte text comparison and the event comparison); ghost contents per record. Not carried by theorems: that the compiled "
              "guard loop reads exactly these three bytes (observed: exhaustive sweep under ASan); vsnprintf/memset of the platform; behaviour "
              "after a longjmp-ing reporter; a destroyed releasing allocator (proved from the list, never executed); the accounting wrappers' "
              "own bookkeeping (observed only).")
TECHNIQUE = ("Lean 4 classification/invariance proofs over an executable model; misuse path (deallocMemory, checkForCorruption, invalidateMemory, "
             "report functions, formats, allocator names, forwarders) regenerated from the source as statement lists and proved equal to the "
             "model; differential correspondence harness incl. the real overloads, MemoryLeakAllocator / NullUnknownAllocator / "
             "CrashOnAllocationAllocator objects and the complete report text; exhaustive guard-byte sweep")
