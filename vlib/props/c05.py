"""C05 — tracked allocations return sound blocks for every size, or fail cleanly: generator and settings."""
import re
from vlib import core, flow

ID = "C05"
HARNESS = "h_c05"
KEEP_FIRST = 1          # `config`
SHRINK_BUDGET = 200

M64 = (1 << 64) - 1
LIMIT = 1 << 20

TRUSTED = [
    "Lean 4 kernel; axioms of every theorem audited (propext, Classical.choice, Quot.sound at most)",
    "translate/extract_alloclayout.py: (a) the size expressions (calculateVoidPointerAlignedSize, sizeOfMemoryWithCorruptionInfo, node offset, "
    "request sizes, both overflow guards, the calloc test/request/memset, strdup/strndup lengths) are parsed from the current source and "
    "emitted as BitVec 64 functions; (b) the bodies of allocMemory, storeLeakInformation, reallocateMemoryAndLeakInformation, reallocMemory "
    "(with its two conditional blocks) and deallocMemory are split into statements and emitted as micro-step lists "
    "(Gen/AllocLayoutCode.lean); (c) every global operator new/delete overload, the C entry points, both function-pointer switches, the "
    "thread-safe twins and the allocators' small bodies are emitted as tables. The interpreter of the micro-steps "
    "(Model/AllocLayoutCode.lean) is hand-written; the driver replays every trace through the regenerated lists, so a translator or "
    "interpreter mistake shows up as a disagreement with the code",
    "hand-written model lean/CppUModel/Model/AllocLayout.lean: proved equal to the regenerated statement lists for allocMemory / reallocMemory "
    "/ deallocMemory / storeLeakInformation (allocMemoryCode_eq, reallocMemoryCode_eq, deallocMemoryCode_eq, history_gen_eq); the C wrappers "
    "(calloc, strdup_alloc, strlen, operator new's throw) stay hand-modelled with regenerated expressions and shape-checked statement order, "
    "tied by the h_c05 correspondence (this run, ASan/UBSan, default build and -DCPPUTEST_DISABLE_MEM_CORRUPTION_CHECK)",
    "sizeof(MemoryLeakDetectorNode) is computed from the struct fields (LP64) and also printed by the harness (a mismatch is a visible diff)",
    "platform allocator contract (environment hypothesis of the theorems): an answer is NULL or a block of exactly the requested "
    "length, disjoint from every live block; realloc hands back the common prefix; blocks are 16-byte aligned (observed each run)",
]
ASSUMPTIONS = [
    "LP64 (size_t = 64 bits, pointers 8 bytes)",
    "with the DEFAULT allocators a NULL from PlatformSpecificMalloc is turned by checkedMalloc into the test failure "
    "'malloc returned null pointer' (pinned upstream behaviour, its body is regenerated: one_line_bodies); the oracle accepts this outcome "
    "as a clean failure (the request does not return, the test is failed, the tracked set is unchanged) next to NULL and std::bad_alloc",
    "two distinct underlying blocks never overlap: platform allocator contract, observed under ASan, not proved",
    "the theorems hold for every sizeof(MemoryLeakDetectorNode) that is a multiple of 8 below 2^32 (the regenerated value is 64)",
    "allocators outlive the history (`allocator->hasBeenDestroyed()` is false in deallocMemory)",
    "the whole-history invariant covers the layout the public wrappers choose (inline record for new/new[], separate for malloc, separate "
    "for everything without guard bytes); the other value of allocatNodesSeperately (direct API use) is covered by the single-step "
    "theorems and by the correspondence (stream sepmix), not by the invariant",
    "known findings (listed, not hidden): c05-node-alloc-null (reallocMemory dereferences a NULL accounting node), "
    "c05-nothrow-new-terminate (test failure thrown through the noexcept nothrow operator new)",
]
RULE = ("per case a history of tracked allocations through a private MemoryLeakDetector (recording allocators, three families, BOTH values of "
        "allocatNodesSeperately in every family) and through the global API (cpputest_malloc/calloc/realloc/free/strdup/strndup, eight "
        "operator new forms incl. the (file, int line) overloads, five operator delete forms incl. sized and nothrow, scalar and array), in the "
        "default and in the thread-safe overload mode (switched in the middle of histories), with the default allocators, the "
        "NullUnknownAllocator and the CrashOnAllocationAllocator as current allocator; sizes: every size 0..4096 (thorough; dense sample in "
        "quick), powers of two +-3, the top 64 values of SIZE_MAX and the neighbourhood of the overflow guard, calloc pairs around "
        "num*size = 2^64, SUCCESSFUL requests of 2^32+k bytes (k in 0,1,16,4096: alloc / realloc small->huge->larger->small / free on a lazily "
        "backed mapping, observed through the first and last 32 bytes), strings of length 0..300 x strndup n; fault schedules: the k-th call of alloc_memory / allocMemoryLeakNode / "
        "PlatformSpecificRealloc / PlatformSpecificMalloc answers NULL for every k of a workload (thorough); non-trivial = at least one "
        "successful and one failed request, or a realloc; distinct = distinct op sequences")

FAMS = ["new", "newarr", "malloc"]
NEWV = ["new", "new_nothrow", "new_debug", "new_array", "new_array_nothrow", "new_array_debug"]
NEWV_THROWING = ["new", "new_debug", "new_array", "new_array_debug"]
NEWV_INT = ["new_debug_int", "new_array_debug_int"]          # the (file, int line) overloads
DELX = ["loc_int", "loc_size", "sized", "nothrow"]           # the operator delete overloads besides the plain one


class Lab:
    def __init__(self):
        self.k = 0

    def new(self, p="b"):
        self.k += 1
        return "%s%d" % (p, self.k)


def pow2_sizes():
    out = []
    for k in range(0, 64):
        for d in (-3, -2, -1, 0, 1, 2, 3):
            v = (1 << k) + d
            if 0 <= v <= M64:
                out.append(v)
    return sorted(set(out))


def top_sizes():
    # the top 64 values and the neighbourhood of the guard boundary (2^64 - 75 .. 2^64 - 68) and of 2^63
    out = list(range(M64 - 63, M64 + 1)) + list(range(M64 - 90, M64 - 63))
    out += [(1 << 63) - 1, 1 << 63, (1 << 63) + 1, M64 // 2, M64 - 4096, M64 - LIMIT]
    return out


def sweep_case(rng, sizes, fam=None):
    """alloc / realloc / free of the given sizes; every size is used as a request, as an old and as a new realloc size"""
    ops, L = ["config"], Lab()
    for sz in sizes:
        f = fam or rng.choice(FAMS)
        a = L.new()
        ops.append("alloc %s %d %s %d" % (f, sz, a, rng.randrange(200)))
        x = rng.random()
        if x < 0.6:
            other = rng.choice(sizes) if rng.random() < 0.5 else max(0, sz + rng.choice([-9, -8, -1, 1, 7, 8, 9, 64]))
            b = L.new()
            ops.append("realloc %s %s %d %s %d" % (f, a, other, b, rng.randrange(200)))
            ops.append("peek %s" % b)
            ops.append("free %s %s" % (f, b))
            ops.append("free %s %s" % (f, a))          # skipped by nobody: a is stale when the realloc worked (then: no-op check below)
        else:
            ops.append("free %s %s" % (f, a))
    ops.append("finish")
    return ops


def clean_sweep_case(rng, sizes):
    """like sweep_case but without the deliberate stale free (well-formed history)"""
    ops, L = ["config"], Lab()
    live = []
    for sz in sizes:
        f = rng.choice(FAMS)
        a = L.new()
        ops.append("alloc %s %d %s %d" % (f, sz, a, rng.randrange(200)))
        live.append((a, f))
        if rng.random() < 0.6:
            other = rng.choice(sizes) if rng.random() < 0.5 else max(0, sz + rng.choice([-9, -8, -1, 1, 7, 8, 9, 64]))
            b = L.new()
            # success replaces a by b; failure (too big) leaves a: both stay in `live`, ops on a dead label are skipped by the harness
            ops.append("realloc %s %s %d %s %d" % (f, a, other, b, rng.randrange(200)))
            ops.append("peek %s" % b)
            ops.append("peek %s" % a)
        if rng.random() < 0.3 and sz <= LIMIT:
            g = L.new("g")
            ops.append("gmalloc %d %s %d" % (sz, g, rng.randrange(200)))
            if rng.random() < 0.5:
                g2 = L.new("g")
                ops.append("grealloc %s %d %s %d" % (g, rng.choice(sizes), g2, rng.randrange(200)))
        if rng.random() < 0.3:
            n = L.new("n")
            ops.append("gnew %s %d %s %d" % (rng.choice(NEWV), sz, n, rng.randrange(200)))
    ops.append("finish")
    return ops


def huge_case(rng, sizes):
    """sizes that cannot be satisfied: every entry point, with live blocks around that must survive"""
    ops, L = ["config"], Lab()
    keep = []
    for f in FAMS:
        a = L.new()
        ops.append("alloc %s %d %s %d" % (f, rng.choice([0, 1, 10, 64, 300]), a, rng.randrange(200)))
        keep.append((a, f))
    g = L.new("g")
    ops.append("gmalloc 24 %s 5" % g)
    for sz in sizes:
        x = rng.randrange(8)
        if x == 0:
            ops.append("alloc %s %d %s 1" % (rng.choice(FAMS), sz, L.new()))
        elif x == 1:
            a, f = rng.choice(keep)
            ops.append("realloc %s %s %d %s 1" % (f, a, sz, L.new()))
            ops.append("peek %s" % a)
        elif x == 2:
            ops.append("realloc %s null %d %s 1" % (rng.choice(FAMS), sz, L.new()))
        elif x == 3:
            ops.append("gmalloc %d %s 1" % (sz, L.new("g")))
        elif x == 4:
            ops.append("grealloc %s %d %s 1" % (g, sz, L.new("g")))
            ops.append("gpeek %s" % g)
        elif x == 5:
            ops.append("gnew %s %d %s 1" % (rng.choice(NEWV_THROWING), sz, L.new("n")))
        elif x == 6:
            ops.append("gcalloc %d 1 %s 1" % (sz, L.new("g")))
        else:
            ops.append("gcalloc 1 %d %s 1" % (sz, L.new("g")))
    for a, f in keep:
        ops.append("peek %s" % a)
    ops.append("finish")
    return ops


def calloc_pairs(rng):
    out = []
    for s in [1, 2, 3, 7, 8, 255, 256, 4096, (1 << 16) + 1, 1 << 31, (1 << 32) - 1, 1 << 32, (1 << 32) + 1, 1 << 33, (1 << 63) - 1, 1 << 63,
              (1 << 63) + 1, M64 - 1, M64]:
        q = M64 // s
        for n in (q - 1, q, q + 1, q + 2):
            if 0 <= n <= M64:
                out.append((n, s))
                out.append((s, n))
    out += [(0, 0), (0, 5), (5, 0), (0, M64), (M64, 0), (1, 1), (3, 5), (16, 16), (1, 4096), (64, 64), (M64, M64), (1 << 32, 1 << 32),
            ((1 << 32) + 1, (1 << 32) - 1), (M64 // 2 + 2, 2)]
    for _ in range(40):
        a = rng.randrange(0, 70)
        b = rng.randrange(0, 70)
        out.append((a, b))
    return out


def calloc_case(rng, pairs):
    ops, L = ["config"], Lab()
    g = L.new("g")
    ops.append("gmalloc 40 %s 9" % g)
    for n, s in pairs:
        ops.append("gcalloc %d %d %s %d" % (n, s, L.new("g"), rng.randrange(200)))
    ops.append("gpeek %s" % g)
    ops.append("finish")
    return ops


def rand_string(rng, n):
    mode = rng.randrange(4)
    if mode == 0:
        bs = bytes(rng.randrange(32, 127) for _ in range(n))
    elif mode == 1:
        bs = bytes(rng.randrange(1, 256) for _ in range(n))
    elif mode == 2:
        bs = bytes([65 + (i % 26) for i in range(n)])
    else:   # an embedded NUL: the C string ends there
        bs = bytearray(rng.randrange(1, 256) for _ in range(n))
        if n:
            bs[rng.randrange(n)] = 0
        bs = bytes(bs)
    return bs.hex() if bs else "-"


# every string is also duplicated with these bounds (n + 1 wraps at SIZE_MAX; 32/63-bit truncation boundaries)
STRNDUP_BIG_N = [M64, M64 - 1, 1 << 63, (1 << 63) - 1, 1 << 32, (1 << 32) - 1, (1 << 32) + 1]


def str_case(rng, lengths):
    ops, L = ["config"], Lab()
    for ln in lengths:
        h = rand_string(rng, ln)
        ops.append("gstrdup %s %s" % (h, L.new("g")))
        ns = {0, 1, max(0, ln - 1), ln, ln + 1, rng.randrange(0, 310)} | set(STRNDUP_BIG_N)
        for n in sorted(ns):
            ops.append("gstrndup %s %d %s" % (h, n, L.new("g")))
    ops.append("finish")
    return ops


def workload(rng, n, nothrow_ok=True):
    """a mixed, well-formed history on both paths (no fault lines)"""
    ops, L = [], Lab()
    priv, glob, news = [], [], []      # (label, fam)
    small = [0, 1, 3, 8, 13, 16, 24, 63, 64, 100, 255, 300, 1000, 4096]
    for _ in range(n):
        x = rng.random()
        sz = rng.choice(small) if rng.random() < 0.8 else rng.randrange(0, 5000)
        sd = rng.randrange(200)
        if x < 0.18:
            f = rng.choice(FAMS)
            a = L.new()
            if rng.random() < 0.25:     # the layout the public wrappers never choose for this family
                ops.append("alloc %s %d %s %d %d" % (f, sz, a, sd, 0 if f == "malloc" else 1))
            else:
                ops.append("alloc %s %d %s %d" % (f, sz, a, sd))
            priv.append((a, f))
        elif x < 0.34 and priv:
            a, f = rng.choice(priv)
            b = L.new()
            ops.append("realloc %s %s %d %s %d" % (f, a, sz, b, sd))
            priv.append((b, f))
            ops.append("peek %s" % a)
            ops.append("peek %s" % b)
        elif x < 0.42 and priv:
            a, f = priv.pop(rng.randrange(len(priv)))
            ops.append("free %s %s" % (f, a))          # the harness skips labels that never got a block
        elif x < 0.54:
            g = L.new("g")
            ops.append("gmalloc %d %s %d" % (sz, g, sd))
            glob.append(g)
        elif x < 0.64 and glob:
            g = rng.choice(glob)
            g2 = L.new("g")
            ops.append("grealloc %s %d %s %d" % (g, sz, g2, sd))
            glob.append(g2)
            ops.append("gpeek %s" % g)
            ops.append("gpeek %s" % g2)
        elif x < 0.70:
            g = L.new("g")
            ops.append("gcalloc %d %d %s %d" % (rng.randrange(0, 20), rng.randrange(0, 40), g, sd))
            glob.append(g)
        elif x < 0.76:
            g = L.new("g")
            h = rand_string(rng, rng.randrange(0, 40))
            if rng.random() < 0.5:
                ops.append("gstrdup %s %s" % (h, g))
            else:
                ops.append("gstrndup %s %d %s" % (h, rng.randrange(0, 45) if rng.random() < 0.7 else rng.choice(STRNDUP_BIG_N), g))
            glob.append(g)
        elif x < 0.88:
            nl = L.new("n")
            ops.append("gnew %s %d %s %d" % (rng.choice((NEWV if nothrow_ok else NEWV_THROWING) + NEWV_INT), sz, nl, sd))
            news.append(nl)
        elif x < 0.93 and glob:
            ops.append("gfree %s" % glob.pop(rng.randrange(len(glob))))
        elif news:
            nl = news.pop(rng.randrange(len(news)))
            ops.append("gdelete %s" % nl if rng.random() < 0.5 else "gdeletex %s %s" % (rng.choice(DELX), nl))
    return ops


def fault_points(ops):
    """(kind, k) for every call of a faultable kind a fault-free run of `ops` makes (upper bounds)"""
    na = sum(1 for o in ops if o.startswith("alloc "))
    nr = sum(1 for o in ops if o.startswith("realloc ") or o.startswith("grealloc "))
    npm = sum(2 for o in ops if o.split()[0] in ("gmalloc", "gcalloc", "gstrdup", "gstrndup")) + \
        sum(1 for o in ops if o.split()[0] in ("gnew", "grealloc"))
    return [("alloc", k) for k in range(1, na + 1)] + [("realloc", k) for k in range(1, nr + 1)] + \
           [("pmalloc", k) for k in range(1, npm + 1)]


def fault_case(w, points):
    return ["config"] + ["fail %s %d" % p for p in points] + w + ["finish"]


def rzero_case(rng, faults=True):
    """`realloc(p, 0)` and `realloc(NULL, n)` through cpputest_realloc (mem_leak_realloc) and through the private detector
    in every family, with and without a failing platform realloc"""
    ops, L = ["config"], Lab()
    sizes = [0, 1, 2, 7, 8, 9, 24, 100, 300]
    for _ in range(rng.randrange(2, 6)):
        a = L.new("g")
        ops.append("gmalloc %d %s %d" % (rng.choice(sizes), a, rng.randrange(200)))
        for _ in range(rng.randrange(1, 4)):
            if faults and rng.random() < 0.25:
                ops.append("fail realloc 1")
            b = L.new("g")
            ops.append("grealloc %s %d %s %d" % (a, 0 if rng.random() < 0.6 else rng.choice(sizes), b, rng.randrange(200)))
            ops.append("gpeek %s" % a)
            ops.append("gpeek %s" % b)
            # on success the block is b, on failure still a: both orders of release are tried by the harness (dead labels are skipped)
            a2 = L.new("g")
            ops.append("grealloc %s %d %s %d" % (b, rng.choice(sizes), a2, rng.randrange(200)))
            ops.append("gfree %s" % a2)
            ops.append("gfree %s" % b)
        ops.append("gfree %s" % a)
        if faults and rng.random() < 0.25:
            ops.append("fail realloc 1")
        n = L.new("g")
        ops.append("grealloc null %d %s %d" % (0 if rng.random() < 0.5 else rng.choice(sizes), n, rng.randrange(200)))
        ops.append("gpeek %s" % n)
        if rng.random() < 0.7:
            ops.append("gfree %s" % n)
        f = rng.choice(FAMS)
        p1 = L.new()
        ops.append("alloc %s %d %s %d" % (f, rng.choice(sizes), p1, rng.randrange(200)))
        if faults and rng.random() < 0.25:
            ops.append("fail realloc 1")
        p2 = L.new()
        ops.append("realloc %s %s 0 %s %d" % (f, p1, p2, rng.randrange(200)))
        ops.append("peek %s" % p1)
        p3 = L.new()
        ops.append("realloc %s null %d %s %d" % (f, 0 if rng.random() < 0.5 else rng.choice(sizes), p3, rng.randrange(200)))
        ops.append("free %s %s" % (f, p2))
    ops.append("finish")
    return ops


def sepmix_case(rng, faults=True):
    """MemoryLeakDetector::allocMemory / reallocMemory / deallocMemory with BOTH values of allocatNodesSeperately in
    every family (the public wrappers only ever use inline for new/new[] and separate for malloc): sizes around the
    alignment steps and the overflow guard, failing alloc_memory / allocMemoryLeakNode / PlatformSpecificRealloc"""
    ops, L = ["config"], Lab()
    sizes = [0, 1, 4, 5, 7, 8, 13, 16, 61, 64, 100, 255, 300, 4096]
    big = [M64, M64 - 2, M64 - 66, M64 - 67, M64 - 74, M64 - 75, M64 - 76, 1 << 63, (1 << 63) + 5]
    live = []
    for _ in range(rng.randrange(4, 12)):
        f = rng.choice(FAMS)
        sep = rng.randrange(2)
        x = rng.random()
        if x < 0.45 or not live:
            a = L.new()
            if faults and rng.random() < 0.2:
                ops.append("fail %s 1" % rng.choice(["alloc", "node"]))       # a NULL node is handled by allocMemory (realloc: listed finding)
            ops.append("alloc %s %d %s %d %d" % (f, rng.choice(sizes) if rng.random() < 0.85 else rng.choice(big), a, rng.randrange(200), sep))
            live.append((a, f))
        elif x < 0.75:
            k = rng.randrange(len(live))
            a, f = live[k]
            b = L.new()
            fails = False
            if faults and rng.random() < 0.3:
                ops.append("fail realloc 1")
                fails = True
            if rng.random() < 0.85:
                nsz = rng.choice(sizes)
            else:
                nsz, fails = rng.choice(big), True
            ops.append("realloc %s %s %d %s %d" % (f, a, nsz, b, rng.randrange(200)))
            ops.append("peek %s" % a)
            ops.append("peek %s" % b)
            if not fails:
                live[k] = (b, f)          # the block now goes by its new label (a stale pointer is C06's subject)
        elif x < 0.85:
            b = L.new()
            if faults and rng.random() < 0.3:
                ops.append("fail realloc 1")
            ops.append("realloc %s null %d %s %d %d" % (f, rng.choice(sizes), b, rng.randrange(200), sep))
            live.append((b, f))
        else:
            a, f = live.pop(rng.randrange(len(live)))
            ops.append("free %s %s" % (f, a))
    for a, f in live:
        if rng.random() < 0.5:
            ops.append("peek %s" % a)
    ops.append("finish")
    return ops


def forms_case(rng, faults=False):
    """every global operator new / delete overload: plain, (file, int line), (file, size_t line), sized, std::nothrow,
    scalar and array, paired in every combination the language allows (the delete overloads all end in the same function)"""
    ops, L = ["config"], Lab()
    sizes = [0, 1, 3, 8, 24, 100, 1000]
    forms = (NEWV_THROWING + NEWV_INT) if faults else (NEWV + NEWV_INT)
    for _ in range(rng.randrange(3, 9)):
        v = rng.choice(forms)
        n = L.new("n")
        if faults and rng.random() < 0.3:
            ops.append("fail pmalloc 1")
        sz = rng.choice(sizes) if rng.random() < 0.85 else rng.choice([M64, M64 - 70, M64 - 80, 1 << 63])
        if sz > LIMIT and v not in NEWV_THROWING + NEWV_INT:
            v = rng.choice(NEWV_THROWING + NEWV_INT)       # (a nothrow form with a failing default allocator is the listed finding)
        ops.append("gnew %s %d %s %d" % (v, sz, n, rng.randrange(200)))
        ops.append("gpeek %s" % n)
        ops.append("gdelete %s" % n if rng.random() < 0.25 else "gdeletex %s %s" % (rng.choice(DELX), n))
    ops.append("finish")
    return ops


def crashalloc_case(rng):
    """CrashOnAllocationAllocator (never matching crash number) as the current allocator of the three families"""
    ops, L = ["config"], Lab()
    for rnd in range(rng.randrange(1, 3)):
        ops.append("gcrashalloc on")
        w = workload(rng, rng.choice([4, 8, 12]), nothrow_ok=False)
        w = [o for o in w if o.split()[0] not in ("alloc", "realloc", "free", "peek")]
        ops += w
        ops += ["gfree g%d" % k for k in range(1, 40)] + ["gdelete n%d" % k for k in range(1, 40)]    # dead labels are skipped
        ops.append("gcrashalloc off")
        ops.append("gmalloc 9 %s 1" % ("z%d" % rnd))
        ops.append("gfree z%d" % rnd)
    ops.append("finish")
    return ops


def tsafe_case(rng, faults):
    """the same workloads through the threadsafe_mem_leak_* entry points (turnOnThreadSafeNewDeleteOverloads), switching
    back and forth in the middle of a history (blocks allocated in one mode are resized / released in the other)"""
    ops = ["config", "gthreadsafe on"]
    w = workload(rng, rng.choice([6, 12, 20]), nothrow_ok=not faults)
    if faults:
        pts = fault_points(w)
        pts = [p for p in pts if p[0] != "alloc"]
        if pts:
            ops.append("fail %s %d" % rng.choice(pts))
    cut = rng.randrange(len(w) + 1)
    ops += w[:cut]
    if rng.random() < 0.6:
        ops.append("gthreadsafe off")
        k = rng.randrange(cut, len(w) + 1)
        ops += w[cut:k]
        ops.append("gthreadsafe on")
        ops += w[k:]
    else:
        ops += w[cut:]
    for sz in rng.sample([M64, M64 - 70, M64 - 76, 1 << 63], 2):       # impossible sizes in this mode: NULL / bad_alloc, never a lock left held
        ops.append("gnew %s %d %s 1" % (rng.choice(NEWV + NEWV_INT), sz, "t%d" % sz))
        ops.append("gmalloc %d %s 1" % (sz, "u%d" % sz))
    ops.append("gmalloc 5 last 1")
    ops.append("finish")
    return ops


def oom_case(rng):
    ops, L = ["config"], Lab()
    g0 = L.new("g")
    ops.append("gmalloc 12 %s 3" % g0)
    n0 = L.new("n")
    ops.append("gnew new 12 %s 4" % n0)
    for _ in range(rng.randrange(2, 5)):
        if rng.random() < 0.5:
            ops.append("goom on")
            for _ in range(rng.randrange(1, 5)):
                x = rng.randrange(4)      # (cpputest_realloc in this mode is the listed finding c05-node-alloc-null: known stream)
                g = L.new("g")
                if x == 0:
                    ops.append("gmalloc %d %s 1" % (rng.randrange(0, 100), g))
                elif x == 1:
                    ops.append("gcalloc %d %d %s 1" % (rng.randrange(0, 10), rng.randrange(0, 10), g))
                elif x == 2:
                    ops.append("gstrdup %s %s" % (rand_string(rng, rng.randrange(0, 20)), g))
                else:
                    ops.append("gstrndup %s %d %s" % (rand_string(rng, rng.randrange(0, 20)),
                                                        rng.randrange(0, 25) if rng.random() < 0.7 else rng.choice(STRNDUP_BIG_N), g))
            ops.append("gpeek %s" % g0)
            ops.append("goom off")
            ops.append("gmalloc 7 %s 2" % L.new("g"))
        else:
            ops.append("gnullnew on")
            for _ in range(rng.randrange(1, 5)):
                ops.append("gnew %s %d %s 1" % (rng.choice(NEWV), rng.randrange(0, 100), L.new("n")))
            ops.append("gpeek %s" % n0)
            ops.append("gnullnew off")
            ops.append("gnew %s 9 %s 2" % (rng.choice(NEWV), L.new("n")))
    ops.append("finish")
    return ops


def malformed_case(rng):
    ops, L = ["config"], Lab()
    labels = []
    for _ in range(rng.randrange(3, 14)):
        x = rng.random()
        if x < 0.35 or not labels:
            f = rng.choice(FAMS)
            a = L.new()
            ops.append("alloc %s %d %s %d" % (f, rng.randrange(0, 70), a, rng.randrange(200)))
            labels.append((a, f))
        elif x < 0.6:
            a, f = rng.choice(labels)
            ops.append("free %s %s" % (f, a))                     # may be a second free of the same block
        elif x < 0.8:
            a, f = rng.choice(labels)
            b = L.new()
            ops.append("realloc %s %s %d %s 1" % (f, a, rng.randrange(0, 70), b))   # may be a stale pointer
            labels.append((b, f))
        elif x < 0.9:
            ops.append(rng.choice(["free malloc nosuch", "realloc new nosuch 5 x 1", "peek nosuch", "alloc bogus 1 a 1", "gfree nosuch",
                                   "gdelete nosuch", "frobnicate", "alloc new", "fail what 1", "gnew bogus 1 a 1"]))
        else:
            a, f = rng.choice(labels)
            ops.append("peek %s" % a)
    ops.append("finish")
    return ops


def known_cases(rng, n):
    """the two listed findings, in their own tagged stream"""
    out = []
    for _ in range(n):
        L = Lab()
        x = rng.randrange(5)
        sz, sz2 = rng.randrange(0, 300), rng.randrange(0, 300)
        if x == 0:      # platform realloc worked, the new accounting node cannot be allocated
            if rng.random() < 0.5:
                out.append(("known", ["config", "alloc malloc %d b1 1" % sz, "fail node 1", "realloc malloc b1 %d b2 2" % sz2, "finish"]))
            else:       # the same with a separately kept node in the new / new[] family (direct API use)
                kf = rng.choice(["new", "newarr"])
                out.append(("known", ["config", "alloc %s %d b1 1 1" % (kf, sz), "fail node 1", "realloc %s b1 %d b2 2" % (kf, sz2), "finish"]))
        elif x == 1:    # platform realloc failed, the node for re-tracking the old block cannot be allocated
            out.append(("known", ["config", "alloc malloc %d b1 1" % sz, "fail realloc 1", "fail node 1",
                                  "realloc malloc b1 %d b2 2" % sz2, "peek b1", "finish"]))
        elif x == 2:    # the same through cpputest_realloc with the default allocator
            out.append(("known", ["config", "gmalloc %d g1 1" % sz, "fail realloc 1", "fail pmalloc 1",
                                  "grealloc g1 %d g2 2" % sz2, "gpeek g1", "finish"]))
        elif x == 3:    # stock code only: simulated out-of-memory mode, realloc(NULL, n): the platform realloc works, the node allocation is NULL
            out.append(("known", ["config", "goom on", "grealloc null %d g1 1" % sz, "finish"]))
        else:
            out.append(("known", ["config", "fail pmalloc 1", "gnew %s %d n1 1" % (rng.choice(["new_nothrow", "new_array_nothrow"]), sz), "finish"]))
    return out


BIG = 1 << 32
BIG_K = [0, 1, 16, 4096]


def big_cases(rng, ks=BIG_K):
    """SUCCESSFUL tracked requests of 2^32 + k bytes (the recording allocator answers them with a lazily backed mapping):
    alloc / write first and last bytes / realloc (small -> huge -> larger -> small) / free, observed through the edges"""
    out = []
    for k in ks:
        fam, sep = rng.choice(FAMS), rng.choice([0, 1])
        out.append(("big", ["config", "balloc %s %d B1 %d %d" % (fam, BIG + k, rng.randrange(1, 200), sep), "bfree B1", "finish"]))
        fam, sep = rng.choice(FAMS), rng.choice([0, 1])
        small, k2 = rng.choice([1, 8, 20, 33, 100, 257]), rng.choice([j for j in (1, 16, 4096, 8192) if j > k])
        out.append(("big", ["config",
                            "balloc %s %d B1 %d %d" % (fam, small, rng.randrange(1, 200), sep),
                            "brealloc %s B1 %d B2 %d %d" % (fam, BIG + k, rng.randrange(1, 200), sep),
                            "brealloc %s B2 %d B3 %d %d" % (fam, BIG + k2, rng.randrange(1, 200), sep),
                            "brealloc %s B3 %d B4 %d %d" % (fam, rng.choice([5, 40, 64, 1000]), rng.randrange(1, 200), sep),
                            "bfree B4", "finish"]))
        fam, sep = rng.choice(FAMS), rng.choice([0, 1])
        out.append(("big", ["config", "alloc %s %d b1 %d" % (rng.choice(FAMS), rng.randrange(1, 300), rng.randrange(1, 200)),
                            "brealloc %s null %d B1 %d %d" % (fam, BIG + k, rng.randrange(1, 200), sep),
                            "balloc %s %d B2 %d %d" % (rng.choice(FAMS), BIG + rng.choice(BIG_K), rng.randrange(1, 200), rng.choice([0, 1])),
                            "peek b1", "finish"]))
    return out


def chunks(xs, n):
    return [xs[i:i + n] for i in range(0, len(xs), n)]


def generate(rng, tier):
    thorough = tier == "thorough"
    out = []
    # 1. size sweep 0..4096
    if thorough:
        for rep in range(3):
            sizes = list(range(0, 4097))
            rng.shuffle(sizes)
            for ch in chunks(sizes, 12):
                out.append(("sweep", clean_sweep_case(rng, ch)))
        for f in FAMS:                       # every size 0..4096 in every family
            sizes = list(range(0, 4097))
            rng.shuffle(sizes)
            for ch in chunks(sizes, 24):
                out.append(("sweep", sweep_case(rng, ch, fam=f)))
    else:
        sizes = list(range(0, 300)) + rng.sample(range(300, 4093), 400) + [4093, 4094, 4095, 4096]
        rng.shuffle(sizes)
        for ch in chunks(sizes, 10):
            out.append(("sweep", clean_sweep_case(rng, ch)))
        rng.shuffle(sizes)
        for ch in chunks(sizes, 20):
            out.append(("sweep", sweep_case(rng, ch)))
    # 2. powers of two +-3 and the top of the range
    p2 = pow2_sizes()
    for rep in range(6 if thorough else 2):
        for ch in chunks(p2, 16):
            out.append(("pow2", huge_case(rng, ch)))
        tops = top_sizes()
        for ch in chunks(tops, 12):
            out.append(("top", huge_case(rng, ch)))
        for f in FAMS:
            out.append(("top", sweep_case(rng, list(range(M64 - 63, M64 + 1)), fam=f)))
    # 3. calloc pairs
    pairs = calloc_pairs(rng)
    for ch in chunks(pairs, 14):
        out.append(("calloc", calloc_case(rng, ch)))
    # 4. strings
    lengths = list(range(0, 301)) if thorough else list(range(0, 20)) + rng.sample(range(20, 301), 30) + [299, 300]
    for ch in chunks(lengths, 4):
        out.append(("str", str_case(rng, ch)))
    # 5. workloads, fault-free and with every single fault point
    for i in range(2000 if thorough else 200):
        w = workload(rng, rng.choice([6, 12, 25, 40] if thorough else [6, 12, 25]))
        out.append(("work", ["config"] + w + ["finish"]))
    for i in range(400 if thorough else 40):
        w = workload(rng, rng.choice([5, 9, 14, 20] if thorough else [5, 9, 14]), nothrow_ok=False)
        pts = fault_points(w)
        if not thorough:
            pts = rng.sample(pts, min(len(pts), 10))
        for p in pts:
            out.append(("fault", fault_case(w, [p])))
        # two faults of one kind / of alloc+realloc / alloc+pmalloc (never realloc+pmalloc: listed double fault)
        for _ in range(6 if thorough else 2):
            if len(pts) >= 2:
                a, b = rng.sample(pts, 2)
                kinds = {a[0], b[0]}
                if kinds == {"realloc", "pmalloc"}:
                    continue
                if a[0] == b[0]:
                    # re-arming one kind replaces the countdown: keep the later one only
                    out.append(("fault", fault_case(w, [max(a, b)])))
                else:
                    out.append(("fault", fault_case(w, [a, b])))
    # 6. out-of-memory modes
    for i in range(400 if thorough else 30):
        out.append(("oom", oom_case(rng)))
    # 6b. realloc(p, 0) and realloc(NULL, n)
    for i in range(300 if thorough else 25):
        out.append(("rzero", rzero_case(rng)))
    # 6c. both node layouts in every family; every operator new / delete overload; CrashOnAllocationAllocator
    for i in range(600 if thorough else 60):
        out.append(("sepmix", sepmix_case(rng)))
    for i in range(300 if thorough else 30):
        out.append(("forms", forms_case(rng, faults=(i % 3 == 0))))
    for i in range(150 if thorough else 12):
        out.append(("crashalloc", crashalloc_case(rng)))
    for i in range(400 if thorough else 40):
        out.append(("tsafe", tsafe_case(rng, faults=(i % 2 == 0))))
    # 7. malformed stream
    for i in range(1000 if thorough else 60):
        out.append(("malformed", malformed_case(rng)))
    # 7b. successful requests of 2^32 + k bytes
    out += big_cases(rng)
    # 8. the listed findings
    out += known_cases(rng, 12 if thorough else 4)
    return out


def translate(ctx):
    from translate import extract_alloclayout
    return extract_alloclayout.run()


# --------------------------------------------------------------------------- classification

def _op_blocks(lines):
    """[(op line, [observation lines])]"""
    out = []
    for l in lines:
        if l.startswith("> "):
            out.append((l, []))
        elif out and not l.startswith("crash "):
            out[-1][1].append(l)
    return out


def signature(r):
    """maps the two listed findings to stable strings; everything else: the default classes"""
    blocks = _op_blocks(r.impl or [])
    failing = None
    if r.spec and r.spec.startswith("spec FAIL"):        # the first operation the oracle objects to
        m = re.search(r"op#(\d+)", r.spec)
        if m and int(m.group(1)) < len(blocks):
            failing = blocks[int(m.group(1))]
    elif r.crash and blocks:
        failing = blocks[-1]
    if failing:
        op, obs = failing
        w = op.split()
        oom = False
        for o, _ in blocks:
            if o.startswith("> goom "):
                oom = o.endswith(" on")
            if o is op:
                break
        if w[1] == "grealloc" and r.crash and oom and obs and re.fullmatch(r"urealloc \d+ \d+ [1-9]\d*", obs[-1]):
            return "c05-node-alloc-null"          # NullUnknownAllocator: the node allocation is NULL without a platform call
        if w[1] in ("realloc", "reallocx", "grealloc"):
            # the accounting node of a reallocation could not be allocated
            node_null = any(re.fullmatch(r"unode \d+ 0", o) for o in obs)
            pm_null = any(re.fullmatch(r"pm \d+ 0", o) for o in obs) and any(o.startswith("urealloc ") for o in obs)
            if node_null or pm_null:
                return "c05-node-alloc-null"
        if w[1] == "gnew" and len(w) > 2 and w[2] in ("new_nothrow", "new_array_nothrow") and r.crash and \
                any(re.fullmatch(r"pm \d+ 0", o) for o in obs):
            return "c05-nothrow-new-terminate"
    return flow.default_signature(r)


def nontrivial(r):
    rets = [l for l in (r.impl or []) if l.startswith("ret ")]
    ok = any(re.fullmatch(r"ret \d+ \d+", l) for l in rets)
    bad = any(l in ("ret null", "ret badalloc", "ret testfail") for l in rets)
    re_ = any(l.startswith("urealloc ") for l in (r.impl or []))
    return (ok and bad) or re_


def observe(r, rep):
    for op, obs in _op_blocks(r.impl or []):
        w = op.split()
        name = w[1]
        if name in ("allocx", "reallocx", "freex"):
            rep.count("branch.non_default_node_layout(%s)" % name)
        if name == "gdeletex":
            rep.count("branch.operator_delete_overload(%s)" % w[2])
        ret = next((o for o in obs if o.startswith("ret ")), None)
        if ret is None:
            continue
        kind = "ptr" if re.fullmatch(r"ret \d+ \d+", ret) else ret.split()[1]
        rep.count("ret.%s.%s" % (name, kind))
        if name in ("balloc", "brealloc") and kind == "ptr" and int(w[3 if name == "balloc" else 4]) >= BIG:
            rep.count("branch.request_of_2^32_bytes_or_more_succeeded")
        env_null = any(re.fullmatch(r"(ualloc|unode|pm) \d+ 0", o) or re.fullmatch(r"urealloc \d+ \d+ 0", o) for o in obs)
        called = any(o.split()[0] in ("ualloc", "pm", "urealloc") for o in obs)
        if kind != "ptr":
            if env_null:
                rep.count("branch.failed_because_platform_answered_NULL")
            elif not called:
                rep.count("branch.rejected_before_any_platform_call(overflow guard, calloc test, NullUnknownAllocator)")
        if name == "gnew" and len(w) > 2 and w[2].endswith("_int"):
            rep.count("branch.operator_new_file_int_line_overload")
        if name in ("realloc", "reallocx", "grealloc"):
            if any(re.fullmatch(r"urealloc [1-9]\d* \d+ 0", o) for o in obs):
                rep.count("branch.realloc_failed_old_block_retracked")
            elif kind == "ptr":
                rep.count("branch.realloc_moved")
        if any(o.startswith("misuse ") for o in obs):
            rep.count("branch.misuse_report")


# --------------------------------------------------------------------------- second build variant

VARIANT_ONLY = set()    # signatures of listed findings that only reproduce in the second build variant (none at present)


def extra(ctx, exe):
    """the same driver and oracle against a build with -DCPPUTEST_DISABLE_MEM_CORRUPTION_CHECK
    (guard size 0, alignment = identity, nodes always separate); the harness prints the variant's constants"""
    rep, rng = ctx.rep, ctx.rng
    exe2 = core.build_harness(HARNESS, "nocorrupt")
    thorough = ctx.tier == "thorough"
    cases = []
    for c in flow.read_corpus(ID):
        cases.append(c)
    sizes = list(range(0, 4097)) if thorough else list(range(0, 80)) + rng.sample(range(80, 4097), 80)
    rng.shuffle(sizes)
    for i, ch in enumerate(chunks(sizes, 10)):
        cases.append(("nc-sweep:%d" % i, clean_sweep_case(rng, ch)))
    for i, ch in enumerate(chunks(top_sizes(), 12)):
        cases.append(("nc-top:%d" % i, huge_case(rng, ch)))
    for i, ch in enumerate(chunks(pow2_sizes(), 16)):
        cases.append(("nc-pow2:%d" % i, huge_case(rng, ch)))
    for i in range(200 if thorough else 12):
        w = workload(rng, rng.choice([6, 12, 20]), nothrow_ok=False)
        cases.append(("nc-work:%d" % i, ["config"] + w + ["finish"]))
        pts = [p for p in fault_points(w) if p[0] != "pmalloc" or True]
        for p in (pts if thorough else rng.sample(pts, min(len(pts), 4))):
            cases.append(("nc-fault:%d" % len(cases), fault_case(w, [p])))
    for i, (_, ops) in enumerate(big_cases(rng, [16, 4096])):
        cases.append(("nc-big:%d" % i, ops))
    for i in range(60 if thorough else 5):
        cases.append(("nc-oom:%d" % i, oom_case(rng)))
    for i in range(100 if thorough else 10):
        cases.append(("nc-rzero:%d" % i, rzero_case(rng)))
    for i, ch in enumerate(chunks(calloc_pairs(rng), 20)):
        cases.append(("nc-calloc:%d" % i, calloc_case(rng, ch)))
    for i in range(200 if thorough else 20):
        cases.append(("nc-sepmix:%d" % i, sepmix_case(rng)))
    for i in range(80 if thorough else 8):
        cases.append(("nc-forms:%d" % i, forms_case(rng, faults=(i % 3 == 0))))
    for i in range(80 if thorough else 8):
        cases.append(("nc-tsafe:%d" % i, tsafe_case(rng, faults=(i % 2 == 0))))
    results, _, err = flow.run_cases(ctx.mod, exe2, cases)
    known = {k["signature"] for k in core.known_findings(ID) if k.get("status") == "known"}
    bad = {}
    noted = set()
    for r in results:
        rep.evaluations += 1
        rep.traces += 1
        rep.count("cases.nocorrupt")
        if not any(l.startswith("cfg 0 ") for l in (r.impl or [])):
            bad.setdefault("variant", r)
        if flow.is_impl_failure(ctx.mod, r) or not r.agree:
            sig = signature(r)
            if sig in known:
                if sig not in noted and sig in VARIANT_ONLY:
                    noted.add(sig)
                    k = [k for k in core.known_findings(ID) if k.get("signature") == sig][0]
                    rep.known("%s (%s) [build without guard bytes]" % (k.get("what", sig), k.get("id", "")))
                continue
            cur = bad.get(sig)
            if cur is None or len(r.ops) < len(cur.ops):
                bad[sig] = r
    rep.notes.append("nocorrupt variant: %d cases, %d failing classes" % (len(results), len(bad)))
    for sig, r in sorted(bad.items())[:3]:
        impl = flow.is_impl_failure(ctx.mod, r)
        hdr = ["kind: build variant -DCPPUTEST_DISABLE_MEM_CORRUPTION_CHECK (run with core.build_harness('h_c05','nocorrupt'))",
               "signature: " + sig, "detail: " + flow.describe(r), "found in case: " + r.id]
        rep.violation("property %s, build without guard bytes: %s" % (ID, flow.describe(r)),
                      flow.replay_text(ctx.mod, r, hdr), name="nocorrupt", no_input=not impl)


LEVEL_TEXT = ("Machine-checked Lean 4 theorems, for all 64-bit sizes, both build configurations and every node size that is a multiple "
              "of 8. REGENERATED from the current source on every run and used by the theorems: (1) every size expression (aligned size, size "
              "with corruption info, node offset, request sizes, both overflow guards, calloc test, strdup/strndup lengths) as BitVec 64 "
              "functions; (2) the STATEMENT LISTS of allocMemory, storeLeakInformation, reallocateMemoryAndLeakInformation, reallocMemory and "
              "deallocMemory, executed by an interpreter and PROVED EQUAL to the model the theorems are about (allocMemoryCode_eq, "
              "reallocMemoryCode_eq, deallocMemoryCode_eq; history_gen_eq: every history run by the source's statement lists is the model's "
              "history); (3) the wiring of all 18 global operator new/delete overloads, of the C entry points, of both function-pointer "
              "switches, the thread-safe twins (same body behind the lock) and the allocators' small bodies. Proved: the overflow guard "
              "rejects exactly the sizes whose bookkeeping-extended size does not fit size_t, and a request succeeds IF AND ONLY IF the size "
              "is accepted and the allocator delivered (alloc_succeeds_iff); for every accepted size the user bytes, guard bytes and inline "
              "record are pairwise disjoint, inside the requested block, the record 8-aligned, the platform never asked for 0 bytes; the "
              "calloc test is exact and a successful calloc zero-filled; strdup/strndup copy exactly the C string / its n-prefix for every "
              "bound n. WHOLE-HISTORY INVARIANT of the byte-level model: every state reachable from the empty detector through new/new[]/"
              "malloc/calloc/strdup/strndup/realloc/free/delete/delete[] and client stores, of any length, under the platform contract, has "
              "pairwise different tracked blocks, each live, exactly as long as requested, guard bytes intact, the record inline behind the "
              "guard or in a live block of its own; no operation writes outside a block or dereferences NULL (outside the two listed "
              "findings, excluded by name). From the invariant alone: realloc keeps the first min(old,new) user bytes and swaps the records; "
              "a failing platform realloc re-tracks the old block untouched; realloc(p,0) and realloc(NULL,n) behave as allocations; "
              "free/delete/delete[] release exactly the block with one platform free carrying the caller's own pointer; the pointer handed "
              "out is the platform's block at offset 0; failed requests leave the tracked set unchanged; throwing operator new never returns "
              "NULL; every operator new overload reaches a variant of its own array-ness. The model is tied to the code on every run by a "
              "differential harness under ASan/UBSan (private detector with recording allocators and both node layouts, the global API with "
              "failing platform seams in both overload modes, default build and -DCPPUTEST_DISABLE_MEM_CORRUPTION_CHECK); the "
              "implementation's own observations are judged by an independent specification oracle.")
LEVEL_NOTE = ("Trusted: Lean kernel; the translator and the hand-written micro-step interpreter (both validated against the code by this "
              "run's correspondence, which replays through the regenerated lists); the hand-modelled C wrappers (calloc, strdup_alloc, "
              "strlen: expressions regenerated, statement order shape-checked); the platform allocator contract (fresh, disjoint, 16-aligned "
              "blocks; realloc keeps the prefix). Not carried by theorems: that distinct underlying blocks do not overlap and that the "
              "compiled code touches only what the model touches (observed under ASan with exact-size blocks); the non-default value of "
              "allocatNodesSeperately inside the whole-history invariant (single-step theorems + correspondence only); "
              "AccountingTestMemoryAllocator / MemoryLeakAllocator as underlying allocator (not driven). With the default allocators a "
              "platform NULL becomes the test failure 'malloc returned null pointer' (accepted as clean failure). Two listed findings "
              "remain: reallocMemory dereferences a NULL accounting node (c05-node-alloc-null; proved to be a property of the regenerated "
              "statement list: reallocGen_node_null_ub), nothrow operator new terminates when the default allocator fails the test "
              "(c05-nothrow-new-terminate).")
TECHNIQUE = ("Lean 4 proofs over BitVec 64 size arithmetic and over statement lists regenerated from the source (interpreter + equality "
             "with a bounds-instrumented byte-level model, whole-history invariant) + differential correspondence harness with fault "
             "injection (two build variants, two overload modes)")
