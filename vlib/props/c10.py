"""C10 — thread-safe allocation mode: generator and property-specific settings."""
ID = "C10"
HARNESS = "h_c10"
VARIANT = "tsan"
KEEP_FIRST = 0
import os, re
# a failing case of this property typically costs 2 s (deadline probe) or 6 s (watchdog) per shrink test
SHRINK_BUDGET = int(os.environ.get("VERIF_SHRINK_BUDGET", "30"))
STALL_SIGNATURE = "C10:stalled-after-misuse-report"
KNOWN_SIGNATURE = "C10:misuse-report-while-locked"
RACE_SIGNATURE = "C10:malloc-count-race"
# halt_on_error=0: a ThreadSanitizer report does not stop the case; the harness' report hook prints one `tsan-race ...`
# line per report, every other observation is still made and compared, and the child exits with 79 (`crash tsan`)
# VH_TIMEOUT: outer per-case deadline (SIGALRM); deadlocks are reported much earlier by the harness' own watchdog
# (`stalled` after 6 s without any completed operation) and by the 2 s probe after a misuse
ENV = {"TSAN_OPTIONS": "halt_on_error=0:exitcode=79", "VH_TIMEOUT": "60"}
# The data race on TestHarness_c.cpp's `malloc_count` (cpputest_malloc_location bumps it before the locked call) is not a
# race on the detector's state; it is classified as its own finding.  Set to False to tolerate it instead.
MALLOC_COUNT_RACE_IS_FINDING = False

TRUSTED = [
    "Lean 4 kernel; axioms of every theorem audited (propext, Classical.choice, Quot.sound at most)",
    "hand-written interpreter of the scoped-lock statements and interleaving model lean/CppUModel/Model/ThreadSafe.lean (the statement "
    "lists themselves are regenerated), tied to src/CppUTest/MemoryLeakWarningPlugin.cpp by the h_c10 correspondence of this run",
    "extractor translate/extract_threadsafe.py (function-pointer table, entry points, the three switches, first statement and "
    "detector calls of every switched function; constructor / destructor / releaseBeforeFailing of MemLeakScopedMutex, the flag's "
    "initialiser and MemoryLeakWarningReporter::fail as statement lists; shape of ScopedMutexLock / SimpleMutex)",
    "which outputs allocate through operator new in printFailure (model parameter Out.alloc; exercised: the fixture's string buffer "
    "= no, the real JUnitTestOutput = yes); that the console / TeamCity outputs do not is read from the source, not exercised",
    "pthread mutex semantics, the C++ memory model and setjmp/longjmp (modelled: acquire blocks while held; longjmp skips destructors "
    "and everything after failWith)",
    "g++ ThreadSanitizer for the race observations on the explored schedules",
    "underlying allocator contract: a live block is never handed out again (hypothesis `fresh`)",
]
ASSUMPTIONS = [
    "a schedule is an interleaving of WHOLE wrappers: justified by wiring_complete (every entry point is switched to a function "
    "that takes the scoped lock first) plus mutex semantics; absence of data races for all schedules is a runtime fact, observed "
    "with ThreadSanitizer and forced pre-emption on the generated schedules only",
    "misuse reports are raised on the test's own (main) thread - also while worker threads run (op runm); a report from another "
    "thread would longjmp across threads (undefined) and is outside the quantifier - the harness counts such reports instead of "
    "raising them",
    "every thread that can raise a report does so from inside a wrapper of the thread-safe table (the flag memLeakMutexIsHeld is "
    "one global: a report raised outside any wrapper WHILE another thread is inside one would release that thread's lock; "
    "with the thread-safe table installed no entry point bypasses the wrappers - wiring_complete)",
    "the underlying malloc/realloc succeed (no out-of-memory inside the concurrent phase)",
]
RULE = ("1-16 pthreads, each running a generated script of new / new[] / nothrow / debug-new / malloc / calloc / realloc / delete / "
        "delete[] / free on thread-private labels plus hand-overs (give/take) between threads, pre-emption forced at every lock "
        "acquire and release from the case's seed; second phases reuse blocks left over; misuse sub-scenarios: 16 kinds of misuse "
        "(non-allocated, allocator mismatch, guard overrun; each through free / delete / delete[] / realloc) in thread-safe and "
        "default mode, each followed by the next allocation in a helper thread under a 2 s deadline; misuse-grid: every cell of "
        "misuse class x release wrapper in thread-safe mode followed by multi-threaded phases under the 6 s progress watchdog; "
        "misuse-row: 2-6 misuses in a row; misuse-switch: misuse, plain overloads (misuse there), thread-safe again (also through "
        "save/restore), misuse, threads; misuse-concurrent (runm): the test's own thread reports a misuse WHILE 2-16 worker threads "
        "are inside the wrappers; misuse-junit: the misuse raised inside a nested real test whose result goes to a REAL "
        "JUnitTestOutput (file seams stubbed), whose printFailure allocates through operator new - in thread-safe mode through "
        "the locked wrapper on the reporting thread - in thread-safe and default mode, alone, in rows and followed by threads "
        "(2 s watchdog inside the op); malformed stream: lines with wrong owners, "
        "unknown labels, bad thread ids (must be skipped); wiring stream: histories of on/off and balanced "
        "saveAndDisable/restore cycles (single, nested, repeated) and the fresh-process history (thread-safe mode switched on "
        "before the first tracked allocation, so the cycle inside the first getGlobalDetector() runs under it), each followed by a "
        "phase in which several threads use EVERY one of the 21 entry points. non-trivial = a concurrent run with >= 2 threads "
        "or a misuse")

SIZES = [1, 2, 7, 8, 16, 24, 31, 64, 100, 255, 1000, 4096]
ALLOCS = [("new", "n"), ("newnt", "n"), ("newdbg", "n"), ("newdbgi", "n"),
          ("newarr", "a"), ("newarrnt", "a"), ("newarrdbg", "a"), ("newarrdbgz", "a"),
          ("malloc", "m"), ("calloc", "m"), ("mallocd", "m"), ("mallocd", "m")]
RELEASE = {"n": "delete", "a": "delarr", "m": "free"}
RELEASES = {"n": ["delete", "deletesz", "deletent", "deletedbg", "deletedbgi"],
            "a": ["delarr", "delarrsz", "delarrnt", "delarrdbg", "delarrdbgi"],
            "m": ["free"]}
MISUSES = ["free_bogus", "delete_bogus", "delarr_bogus", "realloc_bogus", "new_free", "malloc_delete", "new_delarr",
           "newarr_delete", "corrupt_free", "corrupt_delete", "corrupt_delarr", "corrupt_realloc",
           "new_realloc", "newarr_realloc", "newarr_free", "malloc_delarr"]
# misuse class x release wrapper it is raised in (every cell is generated in thread-safe mode on every run)
MISUSE_GRID = {
    ("nonallocated", "free"): "free_bogus", ("nonallocated", "delete"): "delete_bogus",
    ("nonallocated", "delete[]"): "delarr_bogus", ("nonallocated", "realloc"): "realloc_bogus",
    ("mismatch", "free"): "new_free", ("mismatch", "delete"): "malloc_delete",
    ("mismatch", "delete[]"): "new_delarr", ("mismatch", "realloc"): "new_realloc",
    ("corrupt", "free"): "corrupt_free", ("corrupt", "delete"): "corrupt_delete",
    ("corrupt", "delete[]"): "corrupt_delarr", ("corrupt", "realloc"): "corrupt_realloc",
}
MISUSE_CELL = {v: "%s/%s" % k for k, v in MISUSE_GRID.items()}
MISUSE_CELL.update({"newarr_delete": "mismatch/delete", "newarr_realloc": "mismatch/realloc", "newarr_free": "mismatch/free",
                    "malloc_delarr": "mismatch/delete[]"})


# which of the 21 externally visible entry points a script form goes through
ENTRY = {"new": "operator new(size_t)", "newnt": "operator new(size_t,nothrow)", "newdbg": "operator new(size_t,cstr,size_t)",
         "newdbgi": "operator new(size_t,cstr,int)", "newarr": "operator new[](size_t)", "newarrnt": "operator new[](size_t,nothrow)",
         "newarrdbg": "operator new[](size_t,cstr,int)", "newarrdbgz": "operator new[](size_t,cstr,size_t)",
         "delete": "operator delete(ptr)", "deletesz": "operator delete(ptr,size_t)", "deletent": "operator delete(ptr,nothrow)",
         "deletedbg": "operator delete(ptr,cstr,size_t)", "deletedbgi": "operator delete(ptr,cstr,int)",
         "delarr": "operator delete[](ptr)", "delarrsz": "operator delete[](ptr,size_t)", "delarrnt": "operator delete[](ptr,nothrow)",
         "delarrdbg": "operator delete[](ptr,cstr,size_t)", "delarrdbgi": "operator delete[](ptr,cstr,int)",
         "malloc": "cpputest_malloc_location_with_leak_detection", "calloc": "cpputest_malloc_location_with_leak_detection",
         "mallocd": "cpputest_malloc_location_with_leak_detection", "realloc": "cpputest_realloc_location_with_leak_detection",
         "free": "cpputest_free_location_with_leak_detection"}


class Gen:
    """builds one linearisation of a multi-threaded history; the per-thread projections are the scripts"""

    def __init__(self, rng):
        self.rng = rng
        self.macro = "all"    # which threads may use the macro path malloc/calloc (cpputest_malloc_location): all | one | none
        self.next_label = 0
        self.held = {}        # tid -> list of (label, family)
        self.transit = []     # (label, family, to)

    def label(self):
        self.next_label += 1
        return self.next_label

    def size(self):
        return self.rng.choice(SIZES) if self.rng.random() < 0.8 else self.rng.randint(1, 6000)

    def phase(self, n, steps, handover=0.12, malformed=False):
        rng = self.rng
        ops = ["threads %d %d" % (n, rng.randint(1, 10 ** 9))]
        for t in range(n):
            self.held.setdefault(t, [])
        for _ in range(steps):
            t = rng.randrange(n)
            mine = self.held[t]
            incoming = [x for x in self.transit if x[2] == t]
            x = rng.random()
            if malformed and x < 0.25:
                ops.append(self.bad_line(n, t))
                continue
            if incoming and x < 0.5:
                lab, fam, _ = rng.choice(incoming)
                self.transit.remove((lab, fam, t))
                mine.append((lab, fam))
                ops.append("t %d take b%d" % (t, lab))
            elif x < 0.45 or not mine:
                if rng.random() < 0.12:
                    lab = self.label()
                    ops.append("t %d realloc b%d %d" % (t, lab, self.size()))      # realloc(NULL, size)
                    mine.append((lab, "m"))
                else:
                    form, fam = rng.choice(ALLOCS)
                    if form in ("malloc", "calloc") and (self.macro == "none" or (self.macro == "one" and t != 0)):
                        form = "mallocd"
                    lab = self.label()
                    ops.append("t %d %s b%d %d" % (t, form, lab, self.size()))
                    mine.append((lab, fam))
            elif x < 0.45 + handover and n > 1:
                lab, fam = mine.pop(rng.randrange(len(mine)))
                to = rng.choice([u for u in range(n) if u != t])
                self.transit.append((lab, fam, to))
                ops.append("t %d give b%d %d" % (t, lab, to))
            elif x < 0.70 and any(f == "m" for _, f in mine):
                lab, fam = rng.choice([m for m in mine if m[1] == "m"])
                ops.append("t %d realloc b%d %d" % (t, lab, self.size()))
            else:
                lab, fam = mine.pop(rng.randrange(len(mine)))
                ops.append("t %d %s b%d" % (t, rng.choice(RELEASES[fam]), lab))
        # complete most hand-overs (a block may stay in transit: nobody holds it, it is still outstanding)
        for lab, fam, to in list(self.transit):
            if to < n and rng.random() < 0.9:
                self.transit.remove((lab, fam, to))
                self.held[to].append((lab, fam))
                ops.append("t %d take b%d" % (to, lab))
        ops.append("run")
        return ops

    def sweep(self, n, keep=0.25):
        """a phase in which EVERY allocation and release entry point is used at least once (all 21 entry points: the
        four new / four new[] forms, the five delete / five delete[] forms, malloc, calloc, realloc, free), spread over
        the threads so that releases of one thread overlap allocations of another"""
        rng = self.rng
        ops = ["threads %d %d" % (n, rng.randint(1, 10 ** 9))]
        for t in range(n):
            self.held.setdefault(t, [])
        pairs = []
        for forms, rels, fam in ((["new", "newnt", "newdbg", "newdbgi", "new"], RELEASES["n"], "n"),
                                 (["newarr", "newarrnt", "newarrdbg", "newarrdbgz", "newarr"], RELEASES["a"], "a")):
            rels = list(rels)
            rng.shuffle(rels)
            for f, r in zip(forms, rels):
                pairs.append((f, r, fam))
        for f in ("malloc", "calloc", "mallocd", "realloc"):
            pairs.append((f, "free", "m"))
        rng.shuffle(pairs)
        todo = []          # (thread, alloc line or None, [follow-up lines], label, family, keep)
        for f, r, fam in pairs:
            t = rng.randrange(n)
            if f in ("malloc", "calloc") and (self.macro == "none" or (self.macro == "one" and t != 0)):
                f = "mallocd"
            lab = self.label()
            follow = []
            if fam == "m" and rng.random() < 0.6:
                follow.append("t %d realloc b%d %d" % (t, lab, self.size()))
            follow.append("t %d %s b%d" % (t, r, lab))
            todo.append([t, "t %d %s b%d %d" % (t, f, lab, self.size()), follow, lab, fam])
        pending = list(todo)
        started = []
        while pending or started:
            if pending and (not started or rng.random() < 0.55):
                it = pending.pop()
                ops.append(it[1])
                started.append(it)
            else:
                it = rng.choice(started)
                ops.append(it[2].pop(0))
                if not it[2]:
                    started.remove(it)
        # a few blocks stay with their threads
        for _ in range(rng.randrange(0, 4)):
            t = rng.randrange(n)
            form, fam = rng.choice(ALLOCS)
            if form in ("malloc", "calloc") and (self.macro == "none" or (self.macro == "one" and t != 0)):
                form = "mallocd"
            lab = self.label()
            ops.append("t %d %s b%d %d" % (t, form, lab, self.size()))
            self.held[t].append((lab, fam))
        ops.append("run")
        return ops

    def bad_line(self, n, t):
        rng = self.rng
        others = [(u, l) for u, ls in self.held.items() if u != t for l in ls]
        k = rng.randrange(9)
        if k == 0 and others:
            u, (lab, fam) = rng.choice(others)
            return "t %d %s b%d" % (t, RELEASE[fam], lab)                  # release of another thread's block
        if k == 1 and self.held.get(t):
            lab, fam = rng.choice(self.held[t])
            wrong = rng.choice([f for f in "nam" if f != fam])
            return "t %d %s b%d" % (t, RELEASE[wrong], lab)                 # wrong family (a misuse: kept out of the threads)
        if k == 2:
            return "t %d free b%d" % (t, self.next_label + 50 + rng.randrange(5))    # never allocated
        if k == 3:
            return "t %d new b%d %d" % (n + rng.randrange(3), self.label(), 8)       # thread that does not exist
        if k == 4 and self.held.get(t):
            lab, fam = rng.choice(self.held[t])
            return "t %d new b%d 8" % (t, lab)                              # label in use
        if k == 5:
            return "t %d take b%d" % (t, rng.randint(1, max(1, self.next_label)))    # nothing handed over
        if k == 6:
            return rng.choice(["t", "t 0", "t x new b1 8", "t 0 new c1 8", "t 0 new b99999 8", "t 0 new b1 0", "t 0 frob b1",
                               "threads 0 1", "threads 99 1", "misuse nothing", "run now", "t 0 give b1 0", "", "cleanup x",
                               "restore", "fresh", "save x", "restore", "save\nrestore"])
        if k == 7 and self.held.get(t):
            lab, fam = rng.choice(self.held[t])
            return "t %d give b%d %d" % (t, lab, t)                         # hand-over to itself
        return "t %d delete b%d" % (t, rng.randint(1, max(1, self.next_label)))


def conc_case(rng, tier, malformed=False):
    g = Gen(rng)
    g.macro = rng.choice(["none", "none", "one", "all", "all"])
    big = tier != "quick"
    n = rng.choice([2, 2, 3, 4, 5, 8, 12, 16])
    steps = rng.choice([6, 20, 60, 150] if not big else [20, 100, 400, 1200])
    ops = ["fresh"] if rng.random() < 0.1 else ["on"]
    if rng.random() < 0.2:
        ops += save_restore(rng)
    ops += g.phase(n, steps, malformed=malformed)
    if rng.random() < 0.4:                      # second phase: another thread count, left-over blocks stay with their owners
        n2 = rng.choice([2, 3, 4, 8, 16])
        if rng.random() < 0.3:
            ops += save_restore(rng)
        ops += g.phase(n2, max(4, steps // 2), malformed=malformed)
    if rng.random() < 0.85:
        ops.append("cleanup")
    if rng.random() < 0.3:
        ops.append("off")
    return ops


def save_restore(rng):
    """balanced saveAndDisable / restore cycles: single, nested, repeated"""
    k = rng.random()
    if k < 0.5:
        return ["save", "restore"]
    if k < 0.75:
        return ["save", "save", "restore", "restore"]
    if k < 0.9:
        return ["save", "restore", "save", "restore"]
    return ["save", "save", "restore", "save", "restore", "restore"]


def wiring_case(rng, tier):
    """after ANY history of switches and balanced save / restore cycles that ends in thread-safe mode, every one of the
    eleven pointers is on its locking wrapper: the phase that follows uses every entry point from several threads"""
    g = Gen(rng)
    g.macro = rng.choice(["none", "none", "one", "all"])
    n = rng.choice([2, 2, 3, 4, 6])
    v = rng.randrange(6)
    if v == 0:        # fresh process: thread-safe mode on before the first tracked allocation (cycle inside getGlobalDetector)
        ops = ["fresh"]
    elif v == 1:
        ops = ["fresh"] + save_restore(rng)
    elif v == 2:
        ops = ["on"] + save_restore(rng)
    elif v == 3:      # a cycle in default mode first (the saved copies then hold the unlocked functions), then on + cycle
        ops = save_restore(rng) + ["on"] + save_restore(rng)
    elif v == 4:
        ops = ["on", "off"] + save_restore(rng) + ["on"] + (save_restore(rng) if rng.random() < 0.5 else [])
    else:             # threads have run before the cycle
        ops = ["on"] + g.phase(n, rng.choice([4, 12, 30])) + save_restore(rng)
    ops += g.sweep(n)
    if rng.random() < 0.5:
        ops += save_restore(rng) + g.sweep(rng.choice([2, 3, 5]))
    if rng.random() < 0.4:
        ops += g.phase(n, rng.choice([6, 20, 60] if tier == "quick" else [20, 100, 300]))
    if rng.random() < 0.85:
        ops.append("cleanup")
    if rng.random() < 0.2:
        ops.append("off")
    return ops


def single_default_case(rng):
    g = Gen(rng)
    ops = g.phase(1, rng.choice([5, 20, 60]), handover=0)
    if rng.random() < 0.7:
        ops.append("cleanup")
    return ops


def misuse_case(rng, threadsafe):
    g = Gen(rng)
    g.macro = rng.choice(["none", "one"])     # keep the two findings of the unchanged tree in separate cases
    ops = []
    if threadsafe:
        ops.append("on")
        if rng.random() < 0.5:
            ops += g.phase(rng.choice([2, 3, 4]), rng.choice([4, 12, 30]))
    elif rng.random() < 0.3:
        ops += g.phase(1, rng.choice([4, 12]), handover=0)
    ops.append("misuse " + rng.choice(MISUSES))
    # the run continues (only reachable when the lock was not left held)
    if rng.random() < 0.6:
        if not threadsafe:
            ops.append("on")
        ops += g.phase(rng.choice([2, 4]), rng.choice([4, 12, 30]))
        ops.append("cleanup")
        if rng.random() < 0.5:
            ops.append("misuse " + rng.choice(MISUSES))
    return ops


def misuse_then_work(rng, kind, tier):
    """thread-safe mode, one misuse (through the wrapper of its grid cell), then further allocations and releases from
    several threads: they only finish if the report gave the detector's lock back (watchdog: 6 s without progress)"""
    g = Gen(rng)
    g.macro = rng.choice(["none", "one"])
    ops = ["fresh"] if rng.random() < 0.1 else ["on"]
    if rng.random() < 0.4:
        ops += g.phase(rng.choice([2, 3]), rng.choice([4, 10]))
    ops.append("misuse " + kind)
    ops += g.phase(rng.choice([2, 3, 4, 8]), rng.choice([6, 16, 40] if tier == "quick" else [16, 60, 200]))
    if rng.random() < 0.5:
        ops += g.sweep(rng.choice([2, 3]))
    ops.append("cleanup")
    return ops


def misuse_row_case(rng, tier):
    """several misuses in a row (each must find the lock free again), then work"""
    g = Gen(rng)
    g.macro = "none"
    ops = ["on"]
    for _ in range(rng.choice([2, 3, 4, 6])):
        ops.append("misuse " + rng.choice(MISUSES))
    ops += g.phase(rng.choice([2, 4]), rng.choice([6, 20]))
    for _ in range(rng.choice([0, 1, 2])):
        ops.append("misuse " + rng.choice(MISUSES))
    ops.append("cleanup")
    return ops


def misuse_switch_case(rng, tier):
    """misuse in thread-safe mode, back to the plain overloads (misuse there: the flag is clear, nothing may be
    unlocked), thread-safe mode on again (also through a save/restore cycle), misuse, then threads"""
    g = Gen(rng)
    g.macro = "none"
    ops = ["on", "misuse " + rng.choice(MISUSES), "off"]
    if rng.random() < 0.7:
        ops.append("misuse " + rng.choice(MISUSES))
    if rng.random() < 0.4:
        ops += g.phase(1, rng.choice([4, 10]), handover=0)
    ops.append("on")
    if rng.random() < 0.5:
        ops += save_restore(rng)
    ops.append("misuse " + rng.choice(MISUSES))
    if rng.random() < 0.5:
        ops += save_restore(rng)
    ops += g.phase(rng.choice([2, 3, 5]), rng.choice([6, 20, 40]))
    ops.append("cleanup")
    if rng.random() < 0.3:
        ops += ["off", "misuse " + rng.choice(MISUSES)]
    return ops


def misuse_concurrent_case(rng, tier):
    """the test's own thread misuses the allocator WHILE the worker threads are inside the wrappers (`runm`); afterwards
    more phases, which only finish if the lock was given back"""
    g = Gen(rng)
    g.macro = "none"
    ops = ["on"]
    if rng.random() < 0.3:
        ops += save_restore(rng)
    n = rng.choice([2, 3, 4, 8, 16])
    ph = g.phase(n, rng.choice([10, 30, 80] if tier == "quick" else [30, 100, 400]))
    ph[-1] = "runm " + rng.choice(MISUSES)
    ops += ph
    for _ in range(rng.choice([0, 1, 2])):
        ph = g.phase(rng.choice([2, 4]), rng.choice([6, 20]))
        if rng.random() < 0.5:
            ph[-1] = "runm " + rng.choice(MISUSES)
        ops += ph
    if rng.random() < 0.5:
        ops.append("misuse " + rng.choice(MISUSES))
    ops.append("cleanup")
    return ops


def misuse_junit_case(rng, tier, threadsafe):
    """a misuse whose failure is recorded by the real JUnit output (printFailure allocates through operator new), mixed
    with misuses recorded by the fixture's string buffer, then work from several threads"""
    g = Gen(rng)
    g.macro = "none"
    ops = []
    if threadsafe:
        ops.append("fresh" if rng.random() < 0.1 else "on")
        if rng.random() < 0.4:
            ops += g.phase(rng.choice([2, 3]), rng.choice([4, 10]))
    for _ in range(rng.choice([1, 1, 2, 3])):
        ops.append("misuse %s%s" % (rng.choice(MISUSES), " junit" if rng.random() < 0.75 else ""))
    if threadsafe and rng.random() < 0.3:
        ops += ["off", "misuse %s junit" % rng.choice(MISUSES), "on"]
    if not threadsafe:
        ops.append("on")
    ops += g.phase(rng.choice([2, 3, 4]), rng.choice([6, 16]))
    ops.append("cleanup")
    if rng.random() < 0.4:
        ops.append("misuse %s junit" % rng.choice(MISUSES))
    return ops


def generate(rng, tier):
    quick = tier == "quick"
    out = []
    for _ in range(150 if quick else 1000):
        out.append(("conc", conc_case(rng, tier)))
    for _ in range(45 if quick else 300):
        out.append(("wiring", wiring_case(rng, tier)))
    for _ in range(14 if quick else 60):
        out.append(("malformed", conc_case(rng, tier, malformed=True)))
    for _ in range(8 if quick else 30):
        out.append(("single", single_default_case(rng)))
    for k in MISUSES if quick else MISUSES * 3:
        out.append(("misuse-default", ["misuse " + k] if rng.random() < 0.4 else misuse_case(rng, False)))
    ms = list(MISUSES)
    rng.shuffle(ms)
    for k in (ms[:6] if quick else ms):
        out.append(("misuse-threadsafe", ["on", "misuse " + k]))
    for _ in range(4 if quick else 12):
        out.append(("misuse-threadsafe", misuse_case(rng, True)))
    # the failure recorded by an output that allocates through operator new (real JUnit output): smallest form first
    ms = list(MISUSES)
    rng.shuffle(ms)
    for k in (ms[:5] if quick else ms):
        out.append(("misuse-junit", ["on", "misuse %s junit" % k]))
    for k in (ms[5:7] if quick else ms):
        out.append(("misuse-junit", ["misuse %s junit" % k]))
    for _ in range(5 if quick else 30):
        out.append(("misuse-junit", misuse_junit_case(rng, tier, True)))
    for _ in range(2 if quick else 10):
        out.append(("misuse-junit", misuse_junit_case(rng, tier, False)))
    # every cell of the grid misuse class x release wrapper, each followed by further work under the watchdog
    for rep in range(1 if quick else 4):
        for cell in sorted(MISUSE_GRID):
            out.append(("misuse-grid", misuse_then_work(rng, MISUSE_GRID[cell], tier)))
    for _ in range(6 if quick else 30):
        out.append(("misuse-row", misuse_row_case(rng, tier)))
    for _ in range(6 if quick else 30):
        out.append(("misuse-switch", misuse_switch_case(rng, tier)))
    for k in rng.sample(MISUSES, 3):      # smallest form first: two threads, one operation each
        out.append(("misuse-concurrent", ["on", "threads 2 %d" % rng.randint(1, 10 ** 9), "t 0 new b1 8", "t 1 mallocd b2 8",
                                          "runm " + k, "cleanup"]))
    for _ in range(16 if quick else 80):
        out.append(("misuse-concurrent", misuse_concurrent_case(rng, tier)))
    return out


def translate(ctx):
    from translate import extract_threadsafe
    return extract_threadsafe.run()


def ignore_line(l):
    """implementation lines the model does not produce by design: the attributed malloc_count race reports (their number
    depends on the schedule) and the exit status that follows from them.  r.crash is still set, so such a case is still a
    failure of the implementation; every OTHER `tsan-race` line stays and shows up as a disagreement + oracle failure."""
    return l.startswith("tsan-race data-race global malloc_count ") or l == "crash tsan"


def signature(r):
    """the two findings of the unchanged tree keep their own stable signatures (only when NOTHING else is wrong with the
    case: model and implementation agree on every other line); everything else is classified as usual"""
    from vlib import flow
    if r.spec and r.spec.startswith("spec FAIL") and "misuse-report-while-locked" in r.spec and not r.crash:
        # one stable class whatever the kind of misuse, and whether or not the model (which follows the regenerated
        # statements of the scoped lock) predicts it
        return KNOWN_SIGNATURE
    if r.spec and r.spec.startswith("spec FAIL") and "stalled-after-misuse-report" in r.spec:
        return STALL_SIGNATURE
    if r.crash == "crash tsan" and r.agree and r.spec == "spec ok":
        return RACE_SIGNATURE
    if not r.crash and r.spec and r.spec.startswith("spec FAIL") and "did not hold the detector lock" in r.spec:
        # one class whatever entry forms are named in the message (otherwise every form is shrunk separately)
        return "spec:underlying allocator call by a thread that did not hold the detector lock"
    sig = flow.default_signature(r)
    if sig.startswith("spec:"):
        # one class per message, not one per kind of misuse
        sig = re.sub(r"\b(misuse|runm) [a-z_]+( junit)?", r"\1 K\2", sig)
    return sig


def tolerated(r):
    return (not MALLOC_COUNT_RACE_IS_FINDING) and signature(r) == RACE_SIGNATURE


def nontrivial(r):
    n = 0
    for l in r.impl:
        if l.startswith("> threads "):
            n = int(l.split()[2])
        elif (l == "> run" or l.startswith("> runm ")) and n >= 2:
            return True
        elif l.startswith("> misuse"):
            return True
    return False


def observe(r, rep):
    n = 0
    on = False
    misused = False
    for l in r.impl:
        w = l.split()
        if l.startswith("> threads "):
            n = int(w[2])
        elif l in ("> on", "> fresh"):
            on = True
        elif l == "> off":
            on = False
        elif l == "> run" or l.startswith("> runm "):
            rep.count("run.threads_%s" % ("1" if n == 1 else "2-4" if n <= 4 else "5-8" if n <= 8 else "9-16"))
            if misused:
                rep.count("run.after_a_misuse_report")
            if l.startswith("> runm "):
                misused = True
                rep.count("misuse_while_threads_run." + MISUSE_CELL.get(w[2], w[2]))
                rep.count("misuse_while_threads_run.threads_%s" % ("2-4" if n <= 4 else "5-8" if n <= 8 else "9-16"))
        elif l.startswith("> t ") and len(w) > 3:
            rep.count("script." + w[3])
            rep.count("entry." + ENTRY.get(w[3], w[3]))
        elif l.startswith("> misuse"):
            rep.count("misuse." + w[2])
            rep.count("misuse_cell.%s.%s" % ("threadsafe" if on else "default", MISUSE_CELL.get(w[2], w[2])))
            rep.count("misuse_output.%s.%s" % ("threadsafe" if on else "default",
                                               "junit(allocates)" if len(w) > 3 and w[3] == "junit" else "string-buffer"))
            if misused:
                rep.count("misuse.after_an_earlier_misuse")
            misused = True
        elif l in ("> save", "> restore", "> fresh"):
            rep.count("switch." + w[1])
        elif l == "> skip":
            rep.count("skipped_line")
        elif w and w[0] == "locks":
            rep.count("lock_acquisitions", int(w[1]))
        elif w and w[0] == "recorded" and len(w) > 1:
            rep.count("junit_failure_recorded." + w[1])
        elif w and w[0] in ("lockstate", "next"):
            rep.count("%s.%s" % (w[0], w[1]))
        elif w and w[0] == "crash":
            rep.count("crash." + (w[1] if len(w) > 1 else "?"))


LEVEL_TEXT = ("Partial. Machine-checked Lean 4 theorems (no bound on threads, operations or schedules): (1) lock discipline of the "
              "threadsafe_* wrappers over statement lists REGENERATED from the source on every run (constructor and destructor of "
              "MemLeakScopedMutex, releaseBeforeFailing, MemoryLeakWarningReporter::fail, the flag's initialiser) and executed as a state "
              "machine over mutex and flag: after EVERY operation - a misuse report of any kind included - the lock is free and the flag "
              "clear (lock_free_after_every_op / C10_full_holds), every history of wrapper calls with misuses anywhere never blocks and "
              "computes the sequential detector run (run_wrappers_every_history), also across switches to the plain overloads and back "
              "(mode_switches_every_history); a wrapper blocks while the lock is held; flag invariant: at every statement boundary of a "
              "wrapper call, on either exit, flag=true implies lock held, the flag is set exactly where the body runs and clear between "
              "calls, it is cleared BEFORE the mutex is given back (wrapper_trace_misuse); a report outside any wrapper (default mode) "
              "touches no lock; why the repair is needed: the same code without the releaseBeforeFailing call (the code before b50078d), "
              "without the flag assignment in the constructor, or without the clearing in the destructor is refuted by the old witness "
              "free(&local) (C10_full_fails_without_release_call, ..._without_flag_set, stale_flag_without_flag_clear); "
              "(2) wiring_complete by `decide` over the switch table regenerated from "
              "MemoryLeakWarningPlugin.cpp on every run (all 21 entry points go through the 11 pointers, each of the three switches "
              "assigns every pointer exactly once, every function installed by turnOnThreadSafeNewDeleteOverloads constructs the "
              "scoped lock as its first statement and calls the same detector operations as the unlocked one); "
              "save_restore_roundtrip by `decide` over the regenerated copy lists of saveAndDisableNewDeleteOverloads / "
              "restoreNewDeleteOverloads (restore (save s) puts all 11 pointers back for the thread-safe, default and off "
              "configurations, also nested, repeated and inside the first getGlobalDetector() call); (3) for EVERY "
              "interleaving of whole wrappers that respects the ownership discipline (distinct live ids, a thread releases / "
              "reallocates / hands over only blocks it holds, a block is taken only after it was given - so blocks allocated in one "
              "thread and freed in another are included -, no overrun): no misuse is "
              "ever reported, live ids stay distinct, the outstanding set after the threads finish is the union of what each thread "
              "still holds (+ blocks in transit) and equals the result of running the threads one after another; two operations on "
              "different blocks commute; every release that is not reported released an outstanding block of the same family, and a "
              "release of a non-outstanding block is always reported. NOT proved, only observed on the generated schedules: absence of "
              "data races in the compiled code and the real mutex / longjmp behaviour - the h_c10 harness runs 1-16 pthreads through all 21 real "
              "entry points (also after save/restore cycles and in a fresh process) under ThreadSanitizer with pre-emption forced at "
              "every lock acquire/release and checks mutual exclusion, "
              "one acquisition and one release per operation, every underlying allocator call made under the lock, block contents, detector totals "
              "after join against the threads' own tables, that everything held can be released afterwards, completion of the "
              "next allocation within 2 s after each of 16 kinds of misuse in thread-safe and default mode, and completion of "
              "multi-threaded phases during and after misuse reports (6 s progress watchdog).")
LEVEL_NOTE = ("Trusted: Lean kernel; the hand-written interpreter and interleaving model (validated against the code by this run's "
              "correspondence); the extractor; pthread/longjmp semantics as modelled; ThreadSanitizer. Data-race freedom for ALL schedules is a runtime "
              "fact that no theorem here carries; the theorems show that mutual exclusion over whole operations implies "
              "schedule-independent accounting, and the regenerated wiring obligation shows every entry point is under the lock. "
              "The former finding C10:misuse-report-while-locked was repaired by b50078d (the report gives the lock back before it leaves "
              "by longjmp); its witness corpus/C10/misuse_lock.ops now passes and stays in the corpus, the model executes the repaired "
              "statements as regenerated, and the refutation was replaced by the proof of the full lock clause. The flag of the repair is "
              "one global: the model (whole wrappers, one lock bit) does not cover a report raised outside any wrapper while another thread "
              "is inside one (outside the quantifier, see ASSUMPTIONS). Remaining finding of the unchanged tree, tolerated: "
              "C10:malloc-count-race (ThreadSanitizer data race on TestHarness_c.cpp's malloc_count, bumped by "
              "cpputest_malloc_location before the locked call; not detector state, every other observation unaffected).")
TECHNIQUE = ("Lean 4 state-machine, refinement and interleaving proofs over an executable model whose scoped-lock statements and "
             "function-pointer wiring are regenerated from the source (decide / induction) + differential multi-thread harness under "
             "ThreadSanitizer with forced pre-emption, report attribution hook, progress watchdog and a deadline probe")
