"""C18 — string buffer cache: generator and property-specific settings."""
ID = "C18"
HARNESS = "h_c18"
KEEP_FIRST = 1
TRUSTED = [
    "Lean 4 kernel; axioms of every theorem audited (propext, Classical.choice, Quot.sound at most)",
    "hand-written model lean/CppUModel/Model/Cache.lean, tied to src/CppUTest/SimpleStringInternalCache.cpp by the h_c18 correspondence (this run)",
    "constants extractor translate/extract_cache.py (class sizes, cached limit, struct sizes) regenerating Gen/CacheConstants.lean",
    "underlying TestMemoryAllocator contract: live blocks are disjoint, ids fresh (hypothesis Fresh)",
    "the cache's node table is taken from defaultMallocAllocator() in the constructor and is not observed",
]
ASSUMPTIONS = [
    "LP64 struct sizes (SimpleStringMemoryBlock = 16 bytes)",
    "a buffer released with a size of another class than it was requested with is outside the property's quantifier",
]
RULE = ("histories of alloc/dealloc/clearcache/clearall over sizes dense around the class boundaries "
        "32/64/96/128/256, releases in arbitrary order, foreign pointers and wrong sizes inside the same class; "
        "non-trivial = at least one reuse from a free list or one unknown release; distinct = distinct op sequences")

SIZES = [0, 1, 2, 31, 32, 33, 63, 64, 65, 95, 96, 97, 127, 128, 129, 255, 256, 257, 300, 1024]
BOUNDS = [32, 64, 96, 128, 256]


def cls(size):
    for b in BOUNDS:
        if size <= b:
            return b
    return None


def gen_case(rng, n, malformed=False):
    ops = ["create"]
    live = []          # (label, size) handed out
    released = []      # labels released since the last clear (still valid memory: double release is safe to try)
    k = 0
    for _ in range(n):
        x = rng.random()
        if x < 0.45 or not live:
            size = rng.choice(SIZES) if rng.random() < 0.8 else rng.randint(0, 1024)
            k += 1
            ops.append("alloc %d b%d" % (size, k))
            live.append(("b%d" % k, size))
            # a buffer of this class may now be reused: earlier releases of the class are no longer
            # safe to repeat (the label would alias a buffer that is in use again)
            released = [(l, sz) for (l, sz) in released if cls(sz) != cls(size)]
        elif x < 0.78:
            i = rng.randrange(len(live))
            label, size = live[i]
            c = cls(size)
            rsize = size
            if c is not None and rng.random() < 0.3:     # wrong size, same class
                lo = BOUNDS[BOUNDS.index(c) - 1] + 1 if BOUNDS.index(c) > 0 else 0
                rsize = rng.randint(lo, c)
            elif malformed and size > 0 and rng.random() < 0.4:        # size of another class: outside the quantifier
                # (the warning prints the buffer with %s, so a 0-byte buffer, which holds no string, is excluded)
                rsize = rng.choice(SIZES)
            ops.append("dealloc %s %d" % (label, rsize))
            if cls(rsize) == c:
                live.pop(i)
                if c is not None and size > 0:
                    released.append((label, size))
        elif x < 0.84:
            ops.append("dealloc foreign%d %d" % (rng.randrange(8), rng.choice(SIZES)))
        elif x < 0.88 and released:
            # releasing the same cached buffer again (it sits in a free list, so it is "unknown")
            label, size = rng.choice(released)
            ops.append("dealloc %s %d" % (label, size))
        elif x < 0.94:
            ops.append("clearcache")
            released = []
        else:
            ops.append("clearall")
            released = []
            live = []
    if rng.random() < 0.7:
        ops.append("clearall")
    if rng.random() < 0.5:
        ops.append("destroy")
    return ops


def gen_stale(rng):
    """separately tagged stream: releasing a buffer that the cache itself has already returned to the
    underlying allocator (after clearCache for a free buffer / clearAll for any buffer)"""
    ops = ["create"]
    n = rng.randint(1, 4)
    sizes = [rng.choice([1, 10, 32, 40, 100, 200, 256]) for _ in range(n)]
    for i, sz in enumerate(sizes):
        ops.append("alloc %d s%d" % (sz, i))
    ops.append("clearall")
    i = rng.randrange(n)
    ops.append("dealloc s%d %d" % (i, sizes[i]))
    return ops


def gen_global(rng, n):
    """the global cache object: strings are allocated/released through its SimpleStringCacheAllocator and the
    object is destroyed while some buffers (cached, free-listed, uncached) are still outstanding"""
    ops = ["gcreate"]
    live = []
    k = 0
    for _ in range(n):
        if rng.random() < 0.6 or not live:
            size = rng.choice(SIZES) if rng.random() < 0.8 else rng.randint(1, 1024)
            k += 1
            ops.append("alloc %d g%d" % (size, k))
            live.append(("g%d" % k, size))
        else:
            i = rng.randrange(len(live))
            label, size = live.pop(i)
            ops.append("dealloc %s %d" % (label, size))
    ops.append("gdestroy")
    return ops


STALE_SIG = "C18:stale-buffer-read-after-clear"


def signature(r):
    from vlib.flow import default_signature
    tag = r.id.split(":")[0]
    stale_case = tag == "stale" or (tag == "corpus" and "stale_after" in r.id) or tag in ("known", "s", "replay")
    if stale_case and r.crash and "asan" in r.crash:
        # only the stale-release shape: the crash must happen on a dealloc that follows a clear
        ops = [l.split()[0] for l in r.ops]
        if "clearall" in ops or "clearcache" in ops:
            last = [l for l in r.impl if l.startswith("> ")]
            if last and last[-1].startswith("> dealloc"):
                return STALE_SIG
    return default_signature(r)


def generate(rng, tier):
    n = 400 if tier == "quick" else 6000
    out = []
    for i in range(n):
        ln = rng.choice([3, 8, 20, 40, 80]) if tier == "quick" else rng.choice([5, 20, 60, 150, 400])
        out.append(("gen", gen_case(rng, ln)))
    for i in range(n // 10):
        out.append(("malformed", gen_case(rng, rng.choice([5, 20, 40]), malformed=True)))
    for i in range(10):
        out.append(("stale", gen_stale(rng)))
    for i in range(n // 8):
        out.append(("global", gen_global(rng, rng.choice([0, 1, 3, 8, 20, 40]))))
    out.append(("nested", ["gnested"]))
    return out


def translate(ctx):
    from translate import extract_cache
    return extract_cache.run()


def nontrivial(r):
    reuse = False
    for i, l in enumerate(r.impl):
        if l.startswith("> alloc") and i + 1 < len(r.impl) and r.impl[i + 1].startswith("ret "):
            reuse = True
    return reuse or any(l == "warn" for l in r.impl)


def observe(r, rep):
    for i, l in enumerate(r.impl):
        if l.startswith("> alloc") and i + 1 < len(r.impl) and r.impl[i + 1].startswith("ret "):
            rep.count("branch.reuse_from_free_list")
        elif l == "warn":
            rep.count("branch.unknown_release_warning")
        elif l.startswith("ualloc"):
            rep.count("branch.underlying_alloc")

LEVEL_TEXT = ("Machine-checked Lean 4 theorems over an executable model of SimpleStringInternalCache, for every history "
              "of alloc/dealloc/clearCache/clearAll of any length: conservation of underlying blocks (nothing invented, "
              "nothing forgotten, nothing freed twice), no buffer handed out while in use, returned buffer at least the "
              "requested size and from the request's own class, clearAll returns everything, unknown release = one-time "
              "warning with unchanged state. The model is tied to the code on every run by a differential harness "
              "(real cache, recording allocator, ASan/UBSan) and by regenerated constants; the implementation's own "
              "observations are judged by an independent specification oracle.")
LEVEL_NOTE = ("Trusted: Lean kernel; the hand-written model (validated against the code by the correspondence of this run); "
              "the extractor for class sizes / cached limit; that distinct live underlying blocks do not overlap (platform "
              "allocator). Not carried by theorems: byte-level overlap of the compiled code (observed under ASan).")
TECHNIQUE = "Lean 4 invariant/conservation proofs over an executable model + differential correspondence harness + regenerated constants"
