"""C18 — string buffer cache: generator and property-specific settings."""
ID = "C18"
HARNESS = "h_c18"
KEEP_FIRST = 1
# every case is a few dozen cache operations (milliseconds): a case that runs for seconds hangs (a list that
# has become cyclic); the default 60 s deadline would make a run with many such cases take tens of minutes
ENV = {"VH_TIMEOUT": "4"}
SHRINK_BUDGET = 80
TRUSTED = [
    "Lean 4 kernel; axioms of every theorem audited (propext, Classical.choice, Quot.sound at most)",
    "translate/extract_cache_code.py: parser + lowering of the list code of SimpleStringInternalCache.cpp into the statement "
    "language of Model/CacheSyntax.lean (callees inlined with parameter binding, `return` out of inlined loops via a flag "
    "local); its output is executed by the interpreter as THE model of this run's correspondence, so a translator bug shows "
    "up as a disagreement with the real code",
    "the interpreter lean/CppUModel/Model/CacheHeap.lean (semantics of the statement language: cells created by an allocation, "
    "removed by free_memory, access to a missing cell is an error), tied to the compiled code by the h_c18 correspondence",
    "constants extractor translate/extract_cache.py (class sizes, cached limit, struct sizes, destructor statement order, "
    "adaptor bodies and name) regenerating Gen/CacheConstants.lean",
    "hand-written models of the object life cycle (create/destroy, GlobalSimpleStringCache, SimpleStringCacheAllocator, "
    "SimpleString as client) in Model/Cache.lean, tied by the h_c18 correspondence (this run)",
    "underlying TestMemoryAllocator contract: live blocks are disjoint, ids fresh, the list-node allocation is not NULL "
    "(hypotheses Fresh / FreshH; the code does not check for NULL)",
    "the cache's node table is taken from defaultMallocAllocator() in the constructor and is not observed",
]
ASSUMPTIONS = [
    "LP64 struct sizes (SimpleStringMemoryBlock = 16 bytes)",
    "a buffer released with a size of another class than it was requested with is outside the property's quantifier",
    "fuel of the interpreter (4000 in the driver; histories have at most ~450 operations) exceeds number of blocks + 60 (theorems: any fuel >= blocks + history length + 60)",
]
RULE = ("histories of alloc/dealloc/clearcache/clearall/hasfree over sizes dense around the class boundaries "
        "32/64/96/128/256, releases in arbitrary order, foreign pointers and wrong sizes inside the same class; two cache "
        "objects one after the other; the global cache object with buffers requested through its allocator adaptor, real "
        "SimpleString objects (lengths at the class boundaries, append, destroy), another string allocator installed before "
        "destruction; non-trivial = at least one reuse from a free list or one unknown release; distinct = distinct op sequences")

SIZES = [0, 1, 2, 31, 32, 33, 63, 64, 65, 95, 96, 97, 127, 128, 129, 255, 256, 257, 300, 1024]
BOUNDS = [32, 64, 96, 128, 256]


def cls(size):
    for b in BOUNDS:
        if size <= b:
            return b
    return None


def gen_case(rng, n, malformed=False):
    ops = ["create"]
    live = []          # (label, size) handed out
    released = []      # labels released since the last clear (still valid memory: double release is safe to try)
    k = 0
    for _ in range(n):
        x = rng.random()
        if x < 0.45 or not live:
            size = rng.choice(SIZES) if rng.random() < 0.8 else rng.randint(0, 1024)
            k += 1
            ops.append("alloc %d b%d" % (size, k))
            live.append(("b%d" % k, size))
            # a buffer of this class may now be reused: earlier releases of the class are no longer
            # safe to repeat (the label would alias a buffer that is in use again)
            released = [(l, sz) for (l, sz) in released if cls(sz) != cls(size)]
        elif x < 0.78:
            i = rng.randrange(len(live))
            label, size = live[i]
            c = cls(size)
            rsize = size
            if c is not None and rng.random() < 0.3:     # wrong size, same class
                lo = BOUNDS[BOUNDS.index(c) - 1] + 1 if BOUNDS.index(c) > 0 else 0
                rsize = rng.randint(lo, c)
            elif malformed and size > 0 and rng.random() < 0.4:        # size of another class: outside the quantifier
                # (the warning prints the buffer with %s, so a 0-byte buffer, which holds no string, is excluded)
                rsize = rng.choice(SIZES)
            ops.append("dealloc %s %d" % (label, rsize))
            if cls(rsize) == c:
                live.pop(i)
                if c is not None and size > 0:
                    released.append((label, size))
        elif x < 0.84:
            ops.append("dealloc foreign%d %d" % (rng.randrange(8), rng.choice(SIZES)))
        elif x < 0.88 and released:
            # releasing the same cached buffer again (it sits in a free list, so it is "unknown")
            label, size = rng.choice(released)
            ops.append("dealloc %s %d" % (label, size))
        elif x < 0.90:
            ops.append("hasfree %d" % rng.choice(SIZES))
        elif x < 0.95:
            ops.append("clearcache")
            released = []
        else:
            ops.append("clearall")
            released = []
            live = []
    if rng.random() < 0.7:
        ops.append("clearall")
    if rng.random() < 0.5:
        ops.append("destroy")
    return ops


def gen_stale(rng):
    """separately tagged stream: releasing a buffer that the cache itself has already returned to the
    underlying allocator (after clearCache for a free buffer / clearAll for any buffer)"""
    ops = ["create"]
    n = rng.randint(1, 4)
    sizes = [rng.choice([1, 10, 32, 40, 100, 200, 256]) for _ in range(n)]
    for i, sz in enumerate(sizes):
        ops.append("alloc %d s%d" % (sz, i))
    ops.append("clearall")
    i = rng.randrange(n)
    ops.append("dealloc s%d %d" % (i, sizes[i]))
    return ops


# string lengths whose buffer (length + 1) sits on / next to a class boundary
STRLENS = [0, 1, 30, 31, 32, 62, 63, 64, 94, 95, 96, 126, 127, 128, 254, 255, 256, 257, 400]


def gen_global(rng, n):
    """the global cache object: buffers are allocated/released through its SimpleStringCacheAllocator, real
    SimpleString objects are created / appended to / destroyed while it is installed, another string allocator
    may be installed before the object is destroyed, and the object is destroyed while some buffers (cached,
    free-listed, uncached) are still outstanding"""
    ops = ["gcreate"]
    live = []
    strs = []
    k = 0
    swap_at = rng.randrange(n + 1) if rng.random() < 0.35 else -1
    swapped = False
    for j in range(n):
        if j == swap_at:
            ops.append("gswap")
            swapped = True
        x = rng.random()
        if x < 0.04:
            ops.append("names")
        elif x < 0.40 and not swapped:
            y = rng.random()
            if y < 0.5 or not strs:
                k += 1
                ops.append("sstr %d s%d" % (rng.choice(STRLENS) if rng.random() < 0.85 else rng.randint(0, 600), k))
                strs.append("s%d" % k)
            elif y < 0.75:
                ops.append("sappend %s %d" % (rng.choice(strs), rng.choice([0, 1, 2, 31, 32, 33, 64, 200])))
            else:
                ops.append("sdel %s" % strs.pop(rng.randrange(len(strs))))
        elif x < 0.75 or not live:
            size = rng.choice(SIZES) if rng.random() < 0.8 else rng.randint(1, 1024)
            k += 1
            ops.append("alloc %d g%d" % (size, k))
            live.append(("g%d" % k, size))
        else:
            i = rng.randrange(len(live))
            label, size = live.pop(i)
            ops.append("dealloc %s %d" % (label, size))
    if swap_at == n:
        ops.append("gswap")
    ops.append("gdestroy")
    return ops


def gen_two_objects(rng):
    """state must not survive from one cache object to the next: the second object does not know the first
    one's buffers and warns again (its own one-time flag)"""
    ops = gen_case(rng, rng.choice([3, 8, 20]))
    ops = [o for o in ops if o not in ("destroy",)]
    ops += ["dealloc foreign%d %d" % (rng.randrange(8), rng.choice(SIZES)), "clearall", "destroy"]
    second = gen_case(rng, rng.choice([3, 8, 20]))
    # fresh labels for the second object
    second = [o.replace(" b", " c") if o.startswith(("alloc", "dealloc b")) else o for o in second]
    ops += second[:1] + ["dealloc foreign%d %d" % (rng.randrange(8), rng.choice(SIZES))] + second[1:]
    return ops


STALE_SIG = "C18:stale-buffer-read-after-clear"


def signature(r):
    from vlib.flow import default_signature
    tag = r.id.split(":")[0]
    stale_case = tag == "stale" or (tag == "corpus" and "stale_after" in r.id) or tag in ("known", "s", "replay")
    if stale_case and r.crash and "asan" in r.crash:
        # only the stale-release shape: the crash must happen on a dealloc that follows a clear
        ops = [l.split()[0] for l in r.ops]
        if "clearall" in ops or "clearcache" in ops:
            last = [l for l in r.impl if l.startswith("> ")]
            if last and last[-1].startswith("> dealloc"):
                return STALE_SIG
    return default_signature(r)


def generate(rng, tier):
    n = 400 if tier == "quick" else 6000
    out = []
    for i in range(n):
        ln = rng.choice([3, 8, 20, 40, 80]) if tier == "quick" else rng.choice([5, 20, 60, 150, 400])
        out.append(("gen", gen_case(rng, ln)))
    for i in range(n // 10):
        out.append(("malformed", gen_case(rng, rng.choice([5, 20, 40]), malformed=True)))
    for i in range(10):
        out.append(("stale", gen_stale(rng)))
    for i in range(n // 3):
        out.append(("global", gen_global(rng, rng.choice([0, 1, 3, 8, 20, 40]))))
    for i in range(n // 20):
        out.append(("twoobj", gen_two_objects(rng)))
    out.append(("nested", ["gnested"]))
    return out


def translate(ctx):
    from translate import extract_cache, extract_cache_code
    return (extract_cache.run() or []) + (extract_cache_code.run() or [])


def nontrivial(r):
    reuse = False
    for i, l in enumerate(r.impl):
        if l.startswith("> alloc") and i + 1 < len(r.impl) and r.impl[i + 1].startswith("ret "):
            reuse = True
    return reuse or any(l == "warn" for l in r.impl)


def observe(r, rep):
    ops = [l.split()[0] for l in r.ops]
    if "gswap" in ops:
        rep.count("branch.other_allocator_installed_before_gdestroy")
    last_op = ""
    for l in r.impl:
        if l.startswith("> "):
            last_op = l.split()[1]
        elif l.startswith("ufree") and last_op == "dealloc":
            rep.count("branch.uncached_release")
        elif l.startswith("ufree") and last_op == "gdestroy":
            rep.count("branch.blocks_returned_by_global_destructor")
        elif l.startswith("newbuf"):
            rep.count("branch.string_append_realloc")
        elif l == "hasfree 1":
            rep.count("branch.hasfree_true")
    for i, l in enumerate(r.impl):
        if l.startswith(("> alloc", "> sstr")) and i + 1 < len(r.impl) and r.impl[i + 1].startswith("ret "):
            rep.count("branch.reuse_from_free_list")
        elif l == "warn":
            rep.count("branch.unknown_release_warning")
        elif l.startswith("ualloc"):
            rep.count("branch.underlying_alloc")

LEVEL_TEXT = ("Machine-checked Lean 4 theorems, for every history of alloc/dealloc/clearCache/clearAll of any length: "
              "(1) list level: conservation of underlying blocks (nothing invented, nothing forgotten, nothing freed twice), no "
              "buffer handed out while in use (per step and along whole histories), returned buffer at least the requested size "
              "and from the request's own class, clearAll / destruction of the global object return everything, unknown release = "
              "one-time warning with unchanged state; (2) pointer level: alloc, dealloc, clearCache, clearAll and getIndexForCache "
              "are REGENERATED from SimpleStringInternalCache.cpp on every run into a small statement language (callees inlined) and "
              "interpreted over a heap of list cells; theorems `stepH_refines` / `runH_refines` prove that these regenerated "
              "programs never touch a dead or NULL pointer, terminate on every chain, and produce exactly the list model's "
              "allocator traffic, return values and warnings while keeping a heap that represents the list state - so (1) holds of "
              "what the source says at check time, and an edit of a statement breaks a proof. The interpreter running the "
              "regenerated programs is also the model that is diffed against the real cache (recording allocator, ASan/UBSan) on "
              "every generated history, together with the hand list model; the implementation's own observations are judged by an "
              "independent specification oracle.")
LEVEL_NOTE = ("Trusted: Lean kernel; the translator of the list code and the interpreter's semantics (both validated by the "
              "correspondence of this run); the extractor for constants and the destructor shape; the hand models of object "
              "construction/destruction, of the global object/adaptor and of SimpleString as a client (correspondence only); that "
              "distinct live underlying blocks do not overlap and the allocator does not return NULL. Only observed: the node "
              "table allocation (defaultMallocAllocator), the warning's text beyond its first line, byte-level overlap of the "
              "compiled code (ASan).")
TECHNIQUE = ("Lean 4 refinement proofs (pointer-level interpreter of source-regenerated code = list model, loops by induction on "
             "the chain) + invariant/conservation proofs + differential correspondence harness + regenerated constants")
