"""C07 — per-test leak verdict and blame: generator and property-specific settings."""
ID = "C07"
HARNESS = "h_c07"
KEEP_FIRST = 1          # the `mode` line
ENV = {"VH_TIMEOUT": "150"}    # per-case deadline: a case takes milliseconds; 150 s only fires on a real hang,
                               # not when the machine is heavily loaded by other checks
TRUSTED = [
    "Lean 4 kernel; axioms of every theorem audited (propext, Classical.choice, Quot.sound at most)",
    "hand-written interpreter lean/CppUModel/Model/LeakPlugin.lean (abstract detector: records with period stamp and "
    "allocation number; runner phases), tied to the code by the h_c07 correspondence of this run (private detector and "
    "global detector with real new/new[]/malloc)",
    "extractor translate/extract_leakplugin.py: statement lists of preTestAction/postTestAction/startChecking/stopChecking/"
    "enable, the failure condition, isInPeriod, the demotion rule, constructor values and the runner's call order are "
    "regenerated into Gen/LeakPluginCode.lean on every run; counting/reporting/stamping loops are shape-checked",
    "the hash table of the real detector is abstracted to a list (its exactness for every history is property C04; "
    "Props/C07x composes the two); the private-detector mode of the harness uses an arena with chosen addresses so that all "
    "blocks fall into three hash buckets and bucket-level defects show as wrong verdicts",
    "report text -> (allocation number, size) entries by the harness' parser; truncation of long reports is observed, "
    "not modelled (C14)",
    "extractor translate/extract_leakchain.py: statement order and enabled_ guards of TestPlugin::runAllPre/PostTestAction, the "
    "place where installPlugin/addPlugin link a plugin, the plugins RunAllTests/runAllTestsMain install and the final-report "
    "statement, and how MockSupportPluginReporter records a failure are regenerated into Gen/LeakChainCode.lean on every run and "
    "executed by the chain interpreter Model/LeakPluginChain.lean",
    "plugins other than the leak plugin are scripted (class ScriptPlugin in h_c07: memory operations and result.addFailure); the "
    "real MockSupportPlugin is shape-checked, not linked",
    "mode runner: the console text of the real RunAllTests (-v) is cut into per-test segments by the harness' parser; the leak "
    "plugin's pre/post action are not observable there and are placed where the installation order puts them",
]
ASSUMPTIONS = [
    "a block id stands for the address of a live block: scripts never allocate a live id and never free or realloc a "
    "non-live one (no-ops in harness and model); global mode: realloc only of malloc'ed blocks (others are skipped: `badkind`)",
    "realloc outcomes are scripted: the platform realloc either succeeds or returns NULL (seam wrapped by the harness)",
    "allocation numbers do not wrap (unsigned, 2^32 allocations)",
    "the leak plugin is the only plugin that adds failures in post actions; overloads on (the default) unless the case says "
    "`nooverloads`, for which the property demands nothing but the absence of a leak failure",
    "global mode: the only tracked allocation the runner makes inside the window (the test object) is released inside it",
    "constructor / destructor of the test object perform memory operations only (a failing check there is outside the scripts)",
    "separate process: fork/waitpid behave (C11); the child's trace is read through shared memory",
    "several plugins: exactly one leak plugin, enabled; the other plugins' actions perform tracked memory operations and add "
    "failures without leaving the action; a failure recorded by a plugin BEFORE the leak plugin's pre action is outside the "
    "property's quantifier (the oracle demands nothing of that test's verdict)",
    "the window demanded by the oracle opens at the leak plugin's pre action or, at the latest, at the constructor of the test "
    "object, and closes at the leak plugin's post action",
    "RunAllTests: at least one test ran (a run without tests counts as failed, C01); the final report is not part of the property "
    "statement: it is modelled and compared, the oracle demands nothing of it",
]
RULE = ("sequences of 1-30 scripted tests, each with 0-6 alloc/free/realloc per phase (setup, body, teardown, and between tests), "
        "frees of earlier tests' blocks, tracked reallocs of own and earlier blocks with the platform realloc succeeding or "
        "failing (PlatformSpecificRealloc seam), memory operations in the constructor / destructor of the test object, tests "
        "run in a separate process, further plugin objects constructed between/inside tests (kept or destroyed) with "
        "declarations made through the real EXPECT_N_LEAKS / IGNORE_ALL_LEAKS_IN_TEST macros, overload switches between tests, FinalReport(n), destroyGlobalDetector, expected-leak counts 0-3, ignore flag, own failures in any phase; both detector "
        "modes; non-trivial = at least two tests and at least one leak failure or one test passing with outstanding blocks; "
        "distinct = distinct op sequences; half of the cases install 1-3 further plugins before/after the leak plugin (`plugins` "
        "line = installation order) whose pre/post actions allocate, release (blocks of the test, of earlier tests), realloc and add "
        "failures, plugins disabled/enabled by name between tests; a `chain` stream with plugins in every case; a `runner` stream in "
        "which the real CommandLineTestRunner::RunAllTests makes the whole run (60 % of them steered to pass so that the final "
        "report is printed)")

PHASES = ["s", "b", "t"]
AKINDS = ["new", "newarr", "malloc"]


class Sim:
    """generator-side view of which labels are live (follows the abort rule of Utest::run)"""

    def __init__(self):
        self.live = []          # labels
        self.next_label = 1
        self.freed = []
        self.kind = {}          # label -> allocation family (global mode: only malloc blocks can be realloc'ed)
        self.install = ["L"]    # installation order of the plugins
        self.enabled = {}       # scripted plugin -> enabled


def gen_phase_cmds(rng, sim, tno, ph, n_ops, st, is_global, malformed):
    """st: per-test dict (aborted flags, mine) ; returns op lines"""
    ops = []
    for _ in range(n_ops):
        executed = not st["aborted"]
        x = rng.random()
        if st.get("mem_only"):
            x *= 0.85              # constructor / destructor: memory operations only
        if x < 0.50:
            reuse = sim.freed and rng.random() < 0.10
            if reuse:
                label = rng.choice(sim.freed)
            else:
                label = sim.next_label
                sim.next_label += 1
            if malformed and sim.live and rng.random() < 0.2:
                label = rng.choice(sim.live)            # duplicate: a no-op
            size = rng.choice([1, 2, 3, 4, 7, 8, 9, 15, 16, 17, 24]) if rng.random() < 0.9 else rng.randint(0, 40)
            line = "cmd %d %s alloc %d %d" % (tno, ph, label, size)
            akind = rng.choice(AKINDS + ["malloc"])
            if is_global:
                line += " " + akind
            ops.append(line)
            if executed and label not in sim.live and label < 2048:
                sim.kind[label] = akind
                sim.live.append(label)
                st["mine"].append(label)
                if label in sim.freed:
                    sim.freed.remove(label)
        elif x < 0.62 and sim.live and not st.get("no_realloc"):
            # tracked realloc of an own or an earlier test's block; the platform realloc succeeds or fails
            cand = [l for l in sim.live if not is_global or sim.kind.get(l) == "malloc"]
            if malformed and rng.random() < 0.25:
                cand = list(sim.live) + [rng.randint(1, sim.next_label + 2)]
            if not cand:
                cand = [rng.choice(sim.live)]           # global mode, no malloc block: the harness says `badkind`
            mine = [l for l in cand if l in st["mine"]]
            earlier = [l for l in cand if l not in st["mine"]]
            if earlier and (rng.random() < 0.55 or not mine):
                label = rng.choice(earlier)
            else:
                label = rng.choice(mine or cand)
            size = rng.choice([1, 4, 8, 16, 24, 40])
            ok_kind = (not is_global) or sim.kind.get(label) == "malloc"
            if rng.random() < 0.5:
                ops.append("cmd %d %s realloc-fail %d %d" % (tno, ph, label, size))
            else:
                y = rng.random()
                if y < 0.25:
                    new = label                                   # the result keeps the old label
                elif malformed and sim.live and y < 0.45:
                    new = rng.choice(sim.live)                    # probably a live label: a no-op
                else:
                    new = sim.next_label
                    sim.next_label += 1
                ops.append("cmd %d %s realloc %d %d %d" % (tno, ph, label, new, size))
                if executed and ok_kind and label in sim.live and (new == label or new not in sim.live) and new < 2048:
                    sim.live.remove(label)
                    if label in st["mine"]:
                        st["mine"].remove(label)
                    else:
                        st["freed_earlier"] = True
                    sim.live.append(new)
                    st["mine"].append(new)
                    sim.kind[new] = sim.kind.get(label, "malloc")
                    if new != label:
                        sim.freed.append(label)
                    if new in sim.freed:
                        sim.freed.remove(new)
        elif x < 0.85:
            if not sim.live or (malformed and rng.random() < 0.2):
                label = rng.randint(1, max(2, sim.next_label + 2))      # probably not live
            else:
                mine = [l for l in st["mine"] if l in sim.live]
                earlier = [l for l in sim.live if l not in st["mine"]]
                y = rng.random()
                if earlier and (y < 0.45 or not mine):
                    label = rng.choice(earlier)
                    st["freed_earlier"] = True
                elif mine:
                    label = rng.choice(mine)
                else:
                    label = rng.choice(sim.live)
            ops.append("cmd %d %s free %d" % (tno, ph, label))
            if executed and label in sim.live:
                sim.live.remove(label)
                if label in st["mine"]:
                    st["mine"].remove(label)
                sim.freed.append(label)
        elif x < 0.865 and not st.get("passing"):
            ops.append("cmd %d %s fail" % (tno, ph))
            if executed:
                st["aborted"] = True
        elif x < 0.985:
            ops.append("cmd %d %s expect %d" % (tno, ph, rng.choice([0, 1, 1, 2, 2, 3])))
        else:
            ops.append("cmd %d %s ignore" % (tno, ph))
    return ops


def gen_plugin_actions(rng, sim, tno, which, plugs, st, is_global, malformed, fail_p):
    """pre (`p`) / post (`q`) actions of the scripted plugins `plugs` (in execution order)"""
    ops = []
    for k in plugs:
        if not sim.enabled.get(k, True):
            if rng.random() < 0.4:      # a disabled plugin's script must not be performed
                ops.append("cmd %d %s%d alloc %d 5" % (tno, which, k, 1900 + k))
            continue
        if rng.random() < 0.45:
            continue
        keep = (st["aborted"], st.get("mem_only"))
        st["aborted"], st["mem_only"] = False, True
        ops += gen_phase_cmds(rng, sim, tno, "%s%d" % (which, k), rng.randint(1, 3), st, is_global, malformed)
        st["aborted"], st["mem_only"] = keep
        if rng.random() < fail_p:
            ops.append("cmd %d %s%d fail" % (tno, which, k))
    return ops


def gen_test(rng, sim, tno, is_global, malformed, bulk=False, runner=False, passing=False):
    ops = ["test %d" % tno]
    st = {"aborted": False, "mine": [], "freed_earlier": False, "passing": passing}
    inst = sim.install                           # installation order, "L" = the leak plugin
    li = inst.index("L") if "L" in inst else len(inst)
    inner = [k for k in inst[:li]]               # installed before the leak plugin: behind it in the chain
    outer = [k for k in inst[li + 1:]]           # installed after it: in front of it
    # between tests
    if (not runner) and rng.random() < 0.25:
        st0 = {"aborted": False, "mine": [], "freed_earlier": False, "no_realloc": not malformed}
        lines = gen_phase_cmds(rng, sim, tno, "o", rng.randint(1, 3), st0, is_global, malformed)
        if not malformed:
            lines = [l for l in lines if l.split()[3] in ("alloc", "free")]
            # a `fail`/`expect`/`ignore` outside a test is not executed: the simulation above did not abort either
        ops += lines
    style = rng.random()
    separate = (not bulk) and (not runner) and rng.random() < 0.10
    if separate:
        ops.append("cmd %d o separate" % tno)
        saved = (list(sim.live), list(sim.freed), dict(sim.kind))
    if (inner or outer) and (not runner) and rng.random() < 0.10:
        k = rng.choice(inner + outer)
        on = rng.random() < 0.4
        ops.append("cmd %d o %s %d" % (tno, "enable" if on else "disable", k))
        sim.enabled[k] = on
    elif malformed and rng.random() < 0.1:
        ops.append("cmd %d o disable %d" % (tno, rng.randint(0, 5)))
    if (not is_global) and rng.random() < 0.08:
        ops.append("cmd %d o overloads %s" % (tno, rng.choice(["off", "off", "on"])))
    elif (not is_global) and rng.random() < 0.15:
        ops.append("cmd %d o overloads on" % tno)

    def obj_phase(ph):
        # constructor / destructor of the test object: inside the window, never aborted
        keep = st["aborted"]
        st["aborted"] = False
        st["mem_only"] = True
        lines = gen_phase_cmds(rng, sim, tno, ph, rng.randint(1, 3), st, is_global, malformed)
        st["mem_only"] = False
        st["aborted"] = keep
        return lines

    # a further plugin object (never installed) is constructed: between the tests or inside this one
    p2 = rng.random()
    if runner and p2 < 0.05:
        p2 = 0.07
    if p2 < 0.05:
        ops.append("cmd %d o plugin2 %s" % (tno, rng.choice(["keep", "destroy"])))
    elif p2 < 0.09:
        ops.append("cmd %d %s plugin2 %s" % (tno, rng.choice(["s", "b", "b", "t"]), rng.choice(["keep", "destroy"])))
    # pre actions: the chain is walked head first (the plugin installed last acts first)
    if outer and not bulk:
        st0 = {"aborted": False, "mine": [], "freed_earlier": False}
        ops += gen_plugin_actions(rng, sim, tno, "p", list(reversed(outer)), st0, is_global, malformed,
                                  0.15 if malformed else 0.0)
    if inner and not bulk:
        ops += gen_plugin_actions(rng, sim, tno, "p", list(reversed(inner)), st, is_global, malformed, 0.0 if passing else 0.03)
    if (not bulk) and rng.random() < 0.25:
        ops += obj_phase("c")
    for ph in PHASES:
        if ph == "s":
            st["aborted"] = False
        elif ph == "t":
            st["aborted"] = False
        # body keeps the abort of the setup
        n_ops = rng.randint(0, 6)
        if bulk:
            n_ops = rng.randint(8, 14)
        lines = gen_phase_cmds(rng, sim, tno, ph, n_ops, st, is_global, malformed)
        if bulk:
            lines = [l for l in lines if l.split()[3] == "alloc"]
        ops += lines
    dtor_lines = obj_phase("d") if (not bulk) and rng.random() < 0.25 else []
    # steer towards the interesting verdicts: declare exactly the outstanding number / one off
    if not bulk and style < 0.30:
        n = len(st["mine"])
        target = n if rng.random() < 0.6 else max(0, n + rng.choice([-1, 1]))
        ops.append("cmd %d %s expect %d" % (tno, rng.choice(["b", "t"]), target))
    ops += dtor_lines
    # post actions: the rest of the chain first (the plugin installed first acts first)
    if inner and not bulk:
        ops += gen_plugin_actions(rng, sim, tno, "q", inner, st, is_global, malformed, 0.0 if passing else 0.12)
    if outer and not bulk:
        st0 = {"aborted": False, "mine": [], "freed_earlier": False}
        ops += gen_plugin_actions(rng, sim, tno, "q", outer, st0, is_global, malformed, 0.08)
    if passing:
        # the test declares exactly what is outstanding at the leak plugin's post action (or asks to ignore it)
        ops.append("cmd %d t ignore" % tno if rng.random() < 0.25 else "cmd %d t expect %d" % (tno, len(st["mine"])))
    if separate:
        # what the child did to the memory does not exist in the parent
        sim.live, sim.freed, sim.kind = saved
    return ops


def gen_case(rng, tier, mode, malformed=False, chain=None, passing=False):
    runner = mode == "runner"
    is_global = mode == "global" or runner
    ops = ["mode " + mode]
    sim = Sim()
    if rng.random() < (0.5 if chain is None else chain):
        ks = rng.sample([1, 2, 3, 4], rng.choice([1, 1, 2, 2, 3]))
        if not runner:
            ks.insert(rng.randint(0, len(ks)), "L")
        if malformed and rng.random() < 0.3:
            ks = [k for k in ks if k != "L"] + rng.choice([[], ["L"], [7]])       # no leak plugin named / unknown plugin
        ops.append("plugins " + " ".join(str(k) for k in ks))
        sim.install = [k for k in ks if k == "L" or (isinstance(k, int) and 1 <= k <= 4)]
        if "L" not in sim.install:
            sim.install.append("L")
    ntests = rng.choice([1, 2, 3, 4, 6, 8, 12, 20, 30]) if tier == "thorough" else rng.choice([1, 2, 3, 4, 5, 6, 8, 12, 30])
    if runner:
        ntests = rng.choice([1, 2, 3, 4, 5, 6, 8])
    labels = list(range(1, ntests + 1))
    if malformed:
        rng.shuffle(labels)
    for tno in labels:
        bulk = (not malformed) and rng.random() < 0.03
        ops += gen_test(rng, sim, tno, is_global, malformed, bulk and not passing, runner, passing)
    if malformed and rng.random() < 0.5:
        # commands for tests declared long ago (appended to their phases) and for undeclared tests
        for _ in range(rng.randint(1, 6)):
            t = rng.randint(1, ntests + 2)
            ops.append("cmd %d %s %s" % (t, rng.choice(["o", "c", "s", "b", "t", "d"]),
                                         rng.choice(["alloc %d %d" % (rng.randint(1, 60), rng.randint(0, 20)),
                                                     "free %d" % rng.randint(1, 60), "fail", "ignore",
                                                     "expect %d" % rng.randint(0, 3)])))
    if not is_global and rng.random() < 0.5:
        n = len(sim.live)
        ops.append("final %d" % rng.choice([0, 0, n, n, max(0, n - 1), n + 1]))
    if is_global and not runner and rng.random() < 0.3:
        ops.append("destroy")
    return ops


def fixed_cases():
    """the situations the property names, one each (they also document the protocol)"""
    return [
        ("fixed", ["mode private", "test 1", "cmd 1 b alloc 1 8", "test 2", "cmd 2 b alloc 2 4", "cmd 2 b free 2", "final 0"]),
        ("fixed", ["mode private", "test 1", "cmd 1 b alloc 1 8", "test 2", "cmd 2 b free 1", "cmd 2 b alloc 2 4"]),
        ("fixed", ["mode private", "test 1", "cmd 1 s alloc 1 8", "cmd 1 s fail", "cmd 1 b alloc 2 8", "cmd 1 t alloc 3 8",
                   "test 2", "cmd 2 b expect 1", "cmd 2 b alloc 4 1"]),
        ("fixed", ["mode private", "test 1", "cmd 1 b ignore", "cmd 1 b alloc 1 8", "test 2", "cmd 2 b alloc 2 8"]),
        ("fixed", ["mode private", "test 1", "cmd 1 b expect 2", "cmd 1 b alloc 1 8", "test 2", "cmd 2 b alloc 2 8",
                   "cmd 2 t alloc 3 8", "test 3", "cmd 3 b expect 1"]),
        ("fixed", ["mode global", "test 1", "cmd 1 b alloc 1 8 new", "test 2", "cmd 2 b free 1", "cmd 2 b alloc 2 4 malloc",
                   "test 3", "cmd 3 s alloc 3 8 newarr", "cmd 3 b fail", "test 4", "cmd 4 t alloc 4 3 new", "cmd 4 t expect 1"]),
        ("fixed", ["mode private", "test 1", "cmd 1 b expect 1", "cmd 1 b alloc 1 10", "test 2", "cmd 2 b realloc-fail 1 1000",
                   "test 3", "cmd 3 b realloc 1 2 20", "test 4", "cmd 4 b free 2"]),
        ("fixed", ["mode global", "test 1", "cmd 1 b expect 1", "cmd 1 b alloc 1 10 malloc", "test 2", "cmd 2 b realloc-fail 1 1000",
                   "test 3", "cmd 3 b realloc 1 2 20", "test 4", "cmd 4 b free 2"]),
        ("fixed", ["mode private", "test 1", "cmd 1 c alloc 20 8", "cmd 1 b expect 1", "cmd 1 b alloc 1 10", "cmd 1 d free 20",
                   "test 2", "cmd 2 o separate", "cmd 2 b alloc 5 3", "cmd 2 b free 1",
                   "test 3", "cmd 3 o overloads off", "cmd 3 b alloc 6 3", "cmd 3 b expect 2",
                   "test 4", "cmd 4 o overloads on", "cmd 4 d alloc 7 3", "test 5", "cmd 5 b free 1", "cmd 5 b free 5", "final 2"]),
        ("fixed", ["mode global", "test 1", "cmd 1 c alloc 20 8 new", "cmd 1 b alloc 1 10 malloc", "test 2", "cmd 2 o separate",
                   "cmd 2 b fail", "test 3", "cmd 3 o separate", "cmd 3 b alloc 2 1 new", "cmd 3 b expect 1", "destroy"]),
        ("fixed", ["mode private", "test 1", "cmd 1 o plugin2 keep", "cmd 1 b expect 1", "cmd 1 b alloc 1 8",
                   "test 2", "cmd 2 b plugin2 destroy", "cmd 2 b ignore", "cmd 2 b alloc 2 8", "test 3", "cmd 3 t expect 2",
                   "cmd 3 t alloc 3 1", "cmd 3 t alloc 4 1"]),
        ("fixed", ["mode global", "test 1", "cmd 1 b plugin2 keep", "cmd 1 b expect 1", "cmd 1 b alloc 1 8 new",
                   "test 2", "cmd 2 o plugin2 destroy", "cmd 2 b ignore", "cmd 2 b alloc 2 8 malloc"]),
        ("fixed", ["mode private nooverloads", "test 1", "cmd 1 b alloc 1 8", "test 2", "cmd 2 b expect 1"]),
        # a mock-like plugin whose post action releases what the body allocated: installed before the leak plugin
        # (inside the window: clean) / after it (the release comes after the verdict: reported)
        ("fixed", ["mode private", "plugins 1 L", "test 1", "cmd 1 b alloc 1 8", "cmd 1 q1 free 1", "test 2", "cmd 2 p1 alloc 2 4",
                   "test 3", "cmd 3 q1 free 2", "cmd 3 q1 fail", "cmd 3 b alloc 3 3"]),
        ("fixed", ["mode private", "plugins L 1", "test 1", "cmd 1 b alloc 1 8", "cmd 1 q1 free 1", "test 2", "cmd 2 p1 alloc 2 4",
                   "test 3", "cmd 3 q1 free 2", "cmd 3 q1 fail", "cmd 3 b alloc 3 3", "final 0"]),
        # the whole run made by CommandLineTestRunner::RunAllTests (its own leak plugin, console output, final report)
        ("fixed", ["mode runner", "plugins 1 2", "test 1", "cmd 1 b alloc 1 8 new", "cmd 1 q1 free 1", "cmd 1 p2 alloc 2 4 malloc",
                   "test 2", "cmd 2 b alloc 3 8 newarr", "test 3", "cmd 3 b expect 1", "cmd 3 b alloc 4 3 malloc", "cmd 3 s alloc 5 3 new",
                   "cmd 3 s fail"]),
        ("fixed", ["mode runner", "test 1", "cmd 1 b expect 1", "cmd 1 b alloc 4 3 malloc", "test 2", "cmd 2 b ignore",
                   "cmd 2 t alloc 5 6 new"]),
        ("fixed", ["mode runner", "test 1", "cmd 1 b alloc 4 3 malloc", "cmd 1 t free 4"]),
        ("fixed", ["mode global", "plugins 2 L 1 3", "test 1", "cmd 1 p3 alloc 1 8 new", "cmd 1 p2 alloc 2 8 malloc", "cmd 1 b alloc 3 1 newarr",
                   "cmd 1 q2 free 3", "cmd 1 q1 free 1", "test 2", "cmd 2 o disable 2", "cmd 2 p2 alloc 9 9 new", "cmd 2 b free 2",
                   "cmd 2 q3 alloc 4 2 new", "test 3", "cmd 3 o separate", "cmd 3 o enable 2", "cmd 3 p2 alloc 5 1 new", "cmd 3 q1 fail"]),
        ("fixed", ["mode private"] + ["test 1"] + ["cmd 1 b alloc %d 8" % i for i in range(1, 31)] + ["test 2", "cmd 2 b alloc 40 1"]),
    ]


def generate(rng, tier):
    n = 1200 if tier == "quick" else 5000
    out = list(fixed_cases())
    for i in range(n):
        mode = "private" if rng.random() < 0.5 else "global"
        out.append(("gen-" + mode, gen_case(rng, tier, mode)))
    for i in range(n // 8):
        mode = rng.choice(["private", "global", "private nooverloads"])
        out.append(("malformed", gen_case(rng, tier, mode, malformed=True)))
    for i in range(n // 25):
        out.append(("nooverloads", gen_case(rng, tier, "private nooverloads")))
    for i in range(n // 8):
        mode = "private" if rng.random() < 0.5 else "global"
        out.append(("chain-" + mode, gen_case(rng, tier, mode, chain=1.0)))
    for i in range(n // 10):
        out.append(("runner", gen_case(rng, tier, "runner", malformed=(i % 10 == 9), passing=(i % 10 < 6))))
    return out


def translate(ctx):
    from translate import extract_leakplugin, extract_leakchain
    problems, errors = [], []
    for ex in (extract_leakplugin, extract_leakchain):      # each one regenerates its own Gen file
        try:
            problems += ex.run() or []
        except Exception as e:
            errors.append("%s: %s" % (ex.__name__.split(".")[-1], e))
    if errors:
        raise Exception("; ".join(errors))
    return problems


def _tests(r):
    """per-test summaries from the implementation's lines"""
    tests, cur, last_cmd = [], None, None
    live = set()
    seen_p2 = [False]
    for l in r.impl:
        w = l.split()
        if not w:
            continue
        if w[0] == ">":
            if w[1] == "test":
                cur = {"mine": set(), "own": 0, "ignore": False, "expect": None, "leakfail": None, "freed_earlier": False,
                       "skipped": 0, "window": False, "trunc": False, "warn": False, "events": []}
                tests.append(cur)
            elif w[1] == "pre" and cur is not None:
                cur["window"] = True
            last_cmd = w[1:]
        elif cur is not None and last_cmd and last_cmd[0] == "post" and w[0] == "failures":
            cur["posted"] = True
        elif cur is not None and last_cmd and last_cmd[0] == "done" and w[0] == "order":
            pre = w[1:w.index("/")] if "/" in w else []
            if len(pre) > 1:
                cur["events"].append("chain_leak_plugin_%s" % ("outermost" if pre[0] == "L" else "innermost" if pre[-1] == "L" else "in_the_middle"))
        elif cur is not None and last_cmd and last_cmd[0] == "cmd":
            kind = last_cmd[2]
            if len(last_cmd[1]) == 2 and last_cmd[1][0] in "pq" and w[0] in ("num", "ok"):
                where = "inside_window" if (cur["window"] and not cur.get("posted")) else "outside_window"
                cur["events"].append("plugin_%s_%s_%s" % ("pre" if last_cmd[1][0] == "p" else "post",
                                                          "failure" if kind == "fail" else "memory_op", where))
                if kind == "free" and last_cmd[3] in cur["mine"]:
                    cur["events"].append("plugin_releases_block_of_the_test_" + where)
            if kind in ("disable", "enable") and w[0] == "ok":
                cur["events"].append("plugin_" + kind + "d_by_name")
            if last_cmd[1] in ("c", "d") and w[0] in ("num", "ok") and kind in ("alloc", "free", "realloc"):
                cur["events"].append("memory_op_in_constructor" if last_cmd[1] == "c" else "memory_op_in_destructor")
            if kind == "plugin2" and w[0] == "ok":
                cur["events"].append("second_plugin_constructed_" + ("between_tests" if last_cmd[1] == "o" else "inside_test"))
                seen_p2[0] = True
            if kind in ("expect", "ignore") and w[0] == "ok" and seen_p2[0]:
                cur["events"].append("declaration_after_second_plugin")
            if kind == "overloads" and w[0] == "ok":
                cur["events"].append("overloads_switched_" + last_cmd[3])
            if w[0] == "num" and kind == "realloc":
                old, new = last_cmd[3], last_cmd[4]
                cur["events"].append("realloc_ok_own_block" if old in cur["mine"] else "realloc_ok_earlier_block")
                if old in live and old not in cur["mine"]:
                    cur["freed_earlier"] = True
                live.discard(old)
                cur["mine"].discard(old)
                live.add(new)
                if cur["window"]:
                    cur["mine"].add(new)
            elif w[0] == "ok" and kind == "realloc-fail":
                cur["events"].append("realloc_failed_own_block" if last_cmd[3] in cur["mine"] else "realloc_failed_earlier_block")
            elif w[0] == "badkind":
                cur["events"].append("realloc_skipped_not_malloc")
            elif w[0] == "num" and kind == "alloc":
                live.add(last_cmd[3])
                if cur["window"]:
                    cur["mine"].add(last_cmd[3])
            elif w[0] == "ok" and kind == "free":
                if last_cmd[3] in live and last_cmd[3] not in cur["mine"]:
                    cur["freed_earlier"] = True
                live.discard(last_cmd[3])
                cur["mine"].discard(last_cmd[3])
            elif w[0] == "ok" and kind == "fail":
                cur["own"] += 1
            elif w[0] == "ok" and kind == "ignore":
                cur["ignore"] = True
            elif w[0] == "ok" and kind == "expect":
                cur["expect"] = int(last_cmd[3])
            elif w[0] == "skipped":
                cur["skipped"] += 1
        elif cur is not None and w[0] == "leakfail":
            cur["leakfail"] = w[1]
            cur["trunc"] = w[-1] == "1"
        elif last_cmd and last_cmd[0] == "runnerend" and w[0] == "final" and tests:
            tests[-1]["events"].append("runner_final_report_" + w[1])
        elif cur is not None and w[0] == "warn":
            cur["warn"] = True
        elif cur is not None and w[0] == "parentfail":
            cur["events"].append("separate_process_child_failed" if w[1] != "0" else "separate_process_child_passed")
    return tests


def nontrivial(r):
    ts = _tests(r)
    return len(ts) >= 2 and any(t["leakfail"] or (t["mine"] and not t["own"]) for t in ts)


def observe(r, rep):
    for t in _tests(r):
        n = len(t["mine"])
        if t["leakfail"] == "report":
            rep.count("branch.leak_failure_with_report")
            if t["freed_earlier"]:
                rep.count("branch.leak_failure_although_earlier_block_freed")
            if t["expect"]:
                rep.count("branch.leak_failure_expected_nonzero_mismatch")
        elif t["leakfail"] == "noleaks":
            rep.count("branch.failure_expected_leaks_missing")
        elif t["own"] and n:
            rep.count("branch.already_failed_with_outstanding_blocks")
        elif t["ignore"] and n:
            rep.count("branch.ignored_with_outstanding_blocks")
        elif n and t["expect"] == n:
            rep.count("branch.pass_expected_equals_outstanding")
        elif n == 0 and not t["own"]:
            rep.count("branch.clean_pass")
        for e in t["events"]:
            rep.count("branch." + e)
        if "realloc_failed_earlier_block" in t["events"] and not t["leakfail"] and not t["own"]:
            rep.count("branch.pass_after_failed_realloc_of_earlier_block")
        if t["trunc"]:
            rep.count("branch.report_truncated")
        if t["warn"]:
            rep.count("branch.overloads_off_warning")
        if t["skipped"]:
            rep.count("branch.commands_skipped_after_own_failure")
        if t["freed_earlier"]:
            rep.count("branch.test_frees_earlier_block")


LEVEL_TEXT = ("Machine-checked Lean 4 theorems, for every sequence of scripted tests of any length (any alloc/free script in "
              "setup, body, teardown and between tests, frees of earlier tests' blocks, tracked reallocs of own and earlier "
              "blocks with the platform realloc succeeding or failing, any expected count, ignore flag, own failures): a leak failure is added exactly when the test passed its own checks, did not ask to ignore leaks and "
              "the number of blocks allocated between its pre and post action and still outstanding differs from the declared "
              "number; the report lists exactly those blocks and states their number; no block that was live before a test's pre "
              "action appears in its report; frees of earlier blocks do not change the verdict; a test with an own failure gets "
              "no leak failure; a failed realloc changes nothing (the old block keeps its test), a successful one makes the "
              "result a block of the reallocating test; the window is pre action to post action with createTest/destroyTest "
              "inside (constructor/destructor allocations count); EXPECT_N_LEAKS assigns (last one wins), IGNORE sticks; a test in "
              "a separate process leaves the parent's detector unchanged and costs the parent exactly one failure iff the child "
              "failed; FinalReport(n) is silent iff n enabled blocks are outstanding; overloads off: warning instead of failure; flags are reset after every test. The theorems are about an interpreter that executes statement "
              "lists regenerated from the C++ source on every run; interpreter and abstract detector are tied to the code by a "
              "differential harness (real plugin, real runner, private and global detector, ASan/UBSan) and the "
              "implementation's own observations are judged by an independent specification oracle. "
              "NEW: the leak plugin inside a chain of plugins — for every chain with one enabled leak plugin, any plugins before and after "
              "it (enabled or not) and any scripts of their pre/post actions: the verdict is the property's with the window = leak pre action "
              "to leak post action (plugins installed before the leak plugin act inside it, the ones installed after it outside), the report "
              "lists exactly the window's blocks and none that existed at the pre action, a failure added inside the window by another plugin "
              "suppresses the leak failure, later post actions cannot change the verdict; whole-run theorem over sequences of tests each "
              "under its own chain; RunAllTests' arrangement puts every other plugin inside the window and prints FinalReport(0) exactly "
              "when the run passed. Chain walk order, guards, installation place and the runner's statements are regenerated from the source.")
LEVEL_NOTE = ("Trusted: Lean kernel; the interpreter and the list abstraction of the detector's hash table (validated by the "
              "correspondence of this run; table exactness is C04); the statement extractor; the harness' report parser. "
              "Observed only, not proved: truncated reports (more than ~19 entries) still state the true total; the runner's "
              "own allocation inside the window is released inside it. Not modelled: TestTestingFixture (nested registry), the "
              "real MockSupportPlugin's allocations (scripted instead), a second leak plugin on the same detector, disabling the leak "
              "plugin itself, -r repetitions, crash on fail.")
TECHNIQUE = ("Lean 4 refinement proof (model run = history-level specification) over an interpreter of regenerated statement "
             "lists + differential correspondence harness + specification oracle on the implementation's observations")
