"""C07 — per-test leak verdict and blame: generator and property-specific settings."""
ID = "C07"
HARNESS = "h_c07"
KEEP_FIRST = 1          # the `mode` line
ENV = {"VH_TIMEOUT": "150"}    # per-case deadline: a case takes milliseconds; 150 s only fires on a real hang,
                               # not when the machine is heavily loaded by other checks
TRUSTED = [
    "Lean 4 kernel; axioms of every theorem audited (propext, Classical.choice, Quot.sound at most)",
    "hand-written interpreter lean/CppUModel/Model/LeakPlugin.lean (abstract detector: records with period stamp and "
    "allocation number; runner phases), tied to the code by the h_c07 correspondence of this run (private detector and "
    "global detector with real new/new[]/malloc)",
    "extractor translate/extract_leakplugin.py: statement lists of preTestAction/postTestAction/startChecking/stopChecking/"
    "enable, the failure condition, isInPeriod, the demotion rule, constructor values and the runner's call order are "
    "regenerated into Gen/LeakPluginCode.lean on every run; counting/reporting/stamping loops are shape-checked",
    "the hash table of the real detector is abstracted to a list (its exactness for every history is property C04; "
    "Props/C07x composes the two); the private-detector mode of the harness uses an arena with chosen addresses so that all "
    "blocks fall into three hash buckets and bucket-level defects show as wrong verdicts",
    "report text -> (allocation number, size) entries by the harness' parser; truncation of long reports is observed, "
    "not modelled (C14)",
]
ASSUMPTIONS = [
    "a block id stands for the address of a live block: scripts never allocate a live id and never free or realloc a "
    "non-live one (no-ops in harness and model); global mode: realloc only of malloc'ed blocks (others are skipped: `badkind`)",
    "realloc outcomes are scripted: the platform realloc either succeeds or returns NULL (seam wrapped by the harness)",
    "allocation numbers do not wrap (unsigned, 2^32 allocations)",
    "the leak plugin is the only plugin that adds failures in post actions; overloads on (the default) unless the case says "
    "`nooverloads`, for which the property demands nothing but the absence of a leak failure",
    "global mode: the only tracked allocation the runner makes inside the window (the test object) is released inside it",
    "constructor / destructor of the test object perform memory operations only (a failing check there is outside the scripts)",
    "separate process: fork/waitpid behave (C11); the child's trace is read through shared memory",
]
RULE = ("sequences of 1-30 scripted tests, each with 0-6 alloc/free/realloc per phase (setup, body, teardown, and between tests), "
        "frees of earlier tests' blocks, tracked reallocs of own and earlier blocks with the platform realloc succeeding or "
        "failing (PlatformSpecificRealloc seam), memory operations in the constructor / destructor of the test object, tests "
        "run in a separate process, further plugin objects constructed between/inside tests (kept or destroyed) with "
        "declarations made through the real EXPECT_N_LEAKS / IGNORE_ALL_LEAKS_IN_TEST macros, overload switches between tests, FinalReport(n), destroyGlobalDetector, expected-leak counts 0-3, ignore flag, own failures in any phase; both detector "
        "modes; non-trivial = at least two tests and at least one leak failure or one test passing with outstanding blocks; "
        "distinct = distinct op sequences")

PHASES = ["s", "b", "t"]
AKINDS = ["new", "newarr", "malloc"]


class Sim:
    """generator-side view of which labels are live (follows the abort rule of Utest::run)"""

    def __init__(self):
        self.live = []          # labels
        self.next_label = 1
        self.freed = []
        self.kind = {}          # label -> allocation family (global mode: only malloc blocks can be realloc'ed)


def gen_phase_cmds(rng, sim, tno, ph, n_ops, st, is_global, malformed):
    """st: per-test dict (aborted flags, mine) ; returns op lines"""
    ops = []
    for _ in range(n_ops):
        executed = not st["aborted"]
        x = rng.random()
        if st.get("mem_only"):
            x *= 0.85              # constructor / destructor: memory operations only
        if x < 0.50:
            reuse = sim.freed and rng.random() < 0.10
            if reuse:
                label = rng.choice(sim.freed)
            else:
                label = sim.next_label
                sim.next_label += 1
            if malformed and sim.live and rng.random() < 0.2:
                label = rng.choice(sim.live)            # duplicate: a no-op
            size = rng.choice([1, 2, 3, 4, 7, 8, 9, 15, 16, 17, 24]) if rng.random() < 0.9 else rng.randint(0, 40)
            line = "cmd %d %s alloc %d %d" % (tno, ph, label, size)
            akind = rng.choice(AKINDS + ["malloc"])
            if is_global:
                line += " " + akind
            ops.append(line)
            if executed and label not in sim.live and label < 2048:
                sim.kind[label] = akind
                sim.live.append(label)
                st["mine"].append(label)
                if label in sim.freed:
                    sim.freed.remove(label)
        elif x < 0.62 and sim.live and not st.get("no_realloc"):
            # tracked realloc of an own or an earlier test's block; the platform realloc succeeds or fails
            cand = [l for l in sim.live if not is_global or sim.kind.get(l) == "malloc"]
            if malformed and rng.random() < 0.25:
                cand = list(sim.live) + [rng.randint(1, sim.next_label + 2)]
            if not cand:
                cand = [rng.choice(sim.live)]           # global mode, no malloc block: the harness says `badkind`
            mine = [l for l in cand if l in st["mine"]]
            earlier = [l for l in cand if l not in st["mine"]]
            if earlier and (rng.random() < 0.55 or not mine):
                label = rng.choice(earlier)
            else:
                label = rng.choice(mine or cand)
            size = rng.choice([1, 4, 8, 16, 24, 40])
            ok_kind = (not is_global) or sim.kind.get(label) == "malloc"
            if rng.random() < 0.5:
                ops.append("cmd %d %s realloc-fail %d %d" % (tno, ph, label, size))
            else:
                y = rng.random()
                if y < 0.25:
                    new = label                                   # the result keeps the old label
                elif malformed and sim.live and y < 0.45:
                    new = rng.choice(sim.live)                    # probably a live label: a no-op
                else:
                    new = sim.next_label
                    sim.next_label += 1
                ops.append("cmd %d %s realloc %d %d %d" % (tno, ph, label, new, size))
                if executed and ok_kind and label in sim.live and (new == label or new not in sim.live) and new < 2048:
                    sim.live.remove(label)
                    if label in st["mine"]:
                        st["mine"].remove(label)
                    else:
                        st["freed_earlier"] = True
                    sim.live.append(new)
                    st["mine"].append(new)
                    sim.kind[new] = sim.kind.get(label, "malloc")
                    if new != label:
                        sim.freed.append(label)
                    if new in sim.freed:
                        sim.freed.remove(new)
        elif x < 0.85:
            if not sim.live or (malformed and rng.random() < 0.2):
                label = rng.randint(1, max(2, sim.next_label + 2))      # probably not live
            else:
                mine = [l for l in st["mine"] if l in sim.live]
                earlier = [l for l in sim.live if l not in st["mine"]]
                y = rng.random()
                if earlier and (y < 0.45 or not mine):
                    label = rng.choice(earlier)
                    st["freed_earlier"] = True
                elif mine:
                    label = rng.choice(mine)
                else:
                    label = rng.choice(sim.live)
            ops.append("cmd %d %s free %d" % (tno, ph, label))
            if executed and label in sim.live:
                sim.live.remove(label)
                if label in st["mine"]:
                    st["mine"].remove(label)
                sim.freed.append(label)
        elif x < 0.865:
            ops.append("cmd %d %s fail" % (tno, ph))
            if executed:
                st["aborted"] = True
        elif x < 0.985:
            ops.append("cmd %d %s expect %d" % (tno, ph, rng.choice([0, 1, 1, 2, 2, 3])))
        else:
            ops.append("cmd %d %s ignore" % (tno, ph))
    return ops


def gen_test(rng, sim, tno, is_global, malformed, bulk=False):
    ops = ["test %d" % tno]
    st = {"aborted": False, "mine": [], "freed_earlier": False}
    # between tests
    if rng.random() < 0.25:
        st0 = {"aborted": False, "mine": [], "freed_earlier": False, "no_realloc": not malformed}
        lines = gen_phase_cmds(rng, sim, tno, "o", rng.randint(1, 3), st0, is_global, malformed)
        if not malformed:
            lines = [l for l in lines if l.split()[3] in ("alloc", "free")]
            # a `fail`/`expect`/`ignore` outside a test is not executed: the simulation above did not abort either
        ops += lines
    style = rng.random()
    separate = (not bulk) and rng.random() < 0.10
    if separate:
        ops.append("cmd %d o separate" % tno)
        saved = (list(sim.live), list(sim.freed), dict(sim.kind))
    if (not is_global) and rng.random() < 0.08:
        ops.append("cmd %d o overloads %s" % (tno, rng.choice(["off", "off", "on"])))
    elif (not is_global) and rng.random() < 0.15:
        ops.append("cmd %d o overloads on" % tno)

    def obj_phase(ph):
        # constructor / destructor of the test object: inside the window, never aborted
        keep = st["aborted"]
        st["aborted"] = False
        st["mem_only"] = True
        lines = gen_phase_cmds(rng, sim, tno, ph, rng.randint(1, 3), st, is_global, malformed)
        st["mem_only"] = False
        st["aborted"] = keep
        return lines

    # a further plugin object (never installed) is constructed: between the tests or inside this one
    p2 = rng.random()
    if p2 < 0.05:
        ops.append("cmd %d o plugin2 %s" % (tno, rng.choice(["keep", "destroy"])))
    elif p2 < 0.09:
        ops.append("cmd %d %s plugin2 %s" % (tno, rng.choice(["s", "b", "b", "t"]), rng.choice(["keep", "destroy"])))
    if (not bulk) and rng.random() < 0.25:
        ops += obj_phase("c")
    for ph in PHASES:
        if ph == "s":
            st["aborted"] = False
        elif ph == "t":
            st["aborted"] = False
        # body keeps the abort of the setup
        n_ops = rng.randint(0, 6)
        if bulk:
            n_ops = rng.randint(8, 14)
        lines = gen_phase_cmds(rng, sim, tno, ph, n_ops, st, is_global, malformed)
        if bulk:
            lines = [l for l in lines if l.split()[3] == "alloc"]
        ops += lines
    dtor_lines = obj_phase("d") if (not bulk) and rng.random() < 0.25 else []
    # steer towards the interesting verdicts: declare exactly the outstanding number / one off
    if not bulk and style < 0.30:
        n = len(st["mine"])
        target = n if rng.random() < 0.6 else max(0, n + rng.choice([-1, 1]))
        ops.append("cmd %d %s expect %d" % (tno, rng.choice(["b", "t"]), target))
    ops += dtor_lines
    if separate:
        # what the child did to the memory does not exist in the parent
        sim.live, sim.freed, sim.kind = saved
    return ops


def gen_case(rng, tier, mode, malformed=False):
    is_global = mode == "global"
    ops = ["mode " + mode]
    sim = Sim()
    ntests = rng.choice([1, 2, 3, 4, 6, 8, 12, 20, 30]) if tier == "thorough" else rng.choice([1, 2, 3, 4, 5, 6, 8, 12, 30])
    labels = list(range(1, ntests + 1))
    if malformed:
        rng.shuffle(labels)
    for tno in labels:
        bulk = (not malformed) and rng.random() < 0.03
        ops += gen_test(rng, sim, tno, is_global, malformed, bulk)
    if malformed and rng.random() < 0.5:
        # commands for tests declared long ago (appended to their phases) and for undeclared tests
        for _ in range(rng.randint(1, 6)):
            t = rng.randint(1, ntests + 2)
            ops.append("cmd %d %s %s" % (t, rng.choice(["o", "c", "s", "b", "t", "d"]),
                                         rng.choice(["alloc %d %d" % (rng.randint(1, 60), rng.randint(0, 20)),
                                                     "free %d" % rng.randint(1, 60), "fail", "ignore",
                                                     "expect %d" % rng.randint(0, 3)])))
    if not is_global and rng.random() < 0.5:
        n = len(sim.live)
        ops.append("final %d" % rng.choice([0, 0, n, n, max(0, n - 1), n + 1]))
    if is_global and rng.random() < 0.3:
        ops.append("destroy")
    return ops


def fixed_cases():
    """the situations the property names, one each (they also document the protocol)"""
    return [
        ("fixed", ["mode private", "test 1", "cmd 1 b alloc 1 8", "test 2", "cmd 2 b alloc 2 4", "cmd 2 b free 2", "final 0"]),
        ("fixed", ["mode private", "test 1", "cmd 1 b alloc 1 8", "test 2", "cmd 2 b free 1", "cmd 2 b alloc 2 4"]),
        ("fixed", ["mode private", "test 1", "cmd 1 s alloc 1 8", "cmd 1 s fail", "cmd 1 b alloc 2 8", "cmd 1 t alloc 3 8",
                   "test 2", "cmd 2 b expect 1", "cmd 2 b alloc 4 1"]),
        ("fixed", ["mode private", "test 1", "cmd 1 b ignore", "cmd 1 b alloc 1 8", "test 2", "cmd 2 b alloc 2 8"]),
        ("fixed", ["mode private", "test 1", "cmd 1 b expect 2", "cmd 1 b alloc 1 8", "test 2", "cmd 2 b alloc 2 8",
                   "cmd 2 t alloc 3 8", "test 3", "cmd 3 b expect 1"]),
        ("fixed", ["mode global", "test 1", "cmd 1 b alloc 1 8 new", "test 2", "cmd 2 b free 1", "cmd 2 b alloc 2 4 malloc",
                   "test 3", "cmd 3 s alloc 3 8 newarr", "cmd 3 b fail", "test 4", "cmd 4 t alloc 4 3 new", "cmd 4 t expect 1"]),
        ("fixed", ["mode private", "test 1", "cmd 1 b expect 1", "cmd 1 b alloc 1 10", "test 2", "cmd 2 b realloc-fail 1 1000",
                   "test 3", "cmd 3 b realloc 1 2 20", "test 4", "cmd 4 b free 2"]),
        ("fixed", ["mode global", "test 1", "cmd 1 b expect 1", "cmd 1 b alloc 1 10 malloc", "test 2", "cmd 2 b realloc-fail 1 1000",
                   "test 3", "cmd 3 b realloc 1 2 20", "test 4", "cmd 4 b free 2"]),
        ("fixed", ["mode private", "test 1", "cmd 1 c alloc 20 8", "cmd 1 b expect 1", "cmd 1 b alloc 1 10", "cmd 1 d free 20",
                   "test 2", "cmd 2 o separate", "cmd 2 b alloc 5 3", "cmd 2 b free 1",
                   "test 3", "cmd 3 o overloads off", "cmd 3 b alloc 6 3", "cmd 3 b expect 2",
                   "test 4", "cmd 4 o overloads on", "cmd 4 d alloc 7 3", "test 5", "cmd 5 b free 1", "cmd 5 b free 5", "final 2"]),
        ("fixed", ["mode global", "test 1", "cmd 1 c alloc 20 8 new", "cmd 1 b alloc 1 10 malloc", "test 2", "cmd 2 o separate",
                   "cmd 2 b fail", "test 3", "cmd 3 o separate", "cmd 3 b alloc 2 1 new", "cmd 3 b expect 1", "destroy"]),
        ("fixed", ["mode private", "test 1", "cmd 1 o plugin2 keep", "cmd 1 b expect 1", "cmd 1 b alloc 1 8",
                   "test 2", "cmd 2 b plugin2 destroy", "cmd 2 b ignore", "cmd 2 b alloc 2 8", "test 3", "cmd 3 t expect 2",
                   "cmd 3 t alloc 3 1", "cmd 3 t alloc 4 1"]),
        ("fixed", ["mode global", "test 1", "cmd 1 b plugin2 keep", "cmd 1 b expect 1", "cmd 1 b alloc 1 8 new",
                   "test 2", "cmd 2 o plugin2 destroy", "cmd 2 b ignore", "cmd 2 b alloc 2 8 malloc"]),
        ("fixed", ["mode private nooverloads", "test 1", "cmd 1 b alloc 1 8", "test 2", "cmd 2 b expect 1"]),
        ("fixed", ["mode private"] + ["test 1"] + ["cmd 1 b alloc %d 8" % i for i in range(1, 31)] + ["test 2", "cmd 2 b alloc 40 1"]),
    ]


def generate(rng, tier):
    n = 1200 if tier == "quick" else 6000
    out = list(fixed_cases())
    for i in range(n):
        mode = "private" if rng.random() < 0.5 else "global"
        out.append(("gen-" + mode, gen_case(rng, tier, mode)))
    for i in range(n // 8):
        mode = rng.choice(["private", "global", "private nooverloads"])
        out.append(("malformed", gen_case(rng, tier, mode, malformed=True)))
    for i in range(n // 25):
        out.append(("nooverloads", gen_case(rng, tier, "private nooverloads")))
    return out


def translate(ctx):
    from translate import extract_leakplugin
    return extract_leakplugin.run()


def _tests(r):
    """per-test summaries from the implementation's lines"""
    tests, cur, last_cmd = [], None, None
    live = set()
    seen_p2 = [False]
    for l in r.impl:
        w = l.split()
        if not w:
            continue
        if w[0] == ">":
            if w[1] == "test":
                cur = {"mine": set(), "own": 0, "ignore": False, "expect": None, "leakfail": None, "freed_earlier": False,
                       "skipped": 0, "window": False, "trunc": False, "warn": False, "events": []}
                tests.append(cur)
            elif w[1] == "pre" and cur is not None:
                cur["window"] = True
            last_cmd = w[1:]
        elif cur is not None and last_cmd and last_cmd[0] == "cmd":
            kind = last_cmd[2]
            if last_cmd[1] in ("c", "d") and w[0] in ("num", "ok") and kind in ("alloc", "free", "realloc"):
                cur["events"].append("memory_op_in_constructor" if last_cmd[1] == "c" else "memory_op_in_destructor")
            if kind == "plugin2" and w[0] == "ok":
                cur["events"].append("second_plugin_constructed_" + ("between_tests" if last_cmd[1] == "o" else "inside_test"))
                seen_p2[0] = True
            if kind in ("expect", "ignore") and w[0] == "ok" and seen_p2[0]:
                cur["events"].append("declaration_after_second_plugin")
            if kind == "overloads" and w[0] == "ok":
                cur["events"].append("overloads_switched_" + last_cmd[3])
            if w[0] == "num" and kind == "realloc":
                old, new = last_cmd[3], last_cmd[4]
                cur["events"].append("realloc_ok_own_block" if old in cur["mine"] else "realloc_ok_earlier_block")
                if old in live and old not in cur["mine"]:
                    cur["freed_earlier"] = True
                live.discard(old)
                cur["mine"].discard(old)
                live.add(new)
                if cur["window"]:
                    cur["mine"].add(new)
            elif w[0] == "ok" and kind == "realloc-fail":
                cur["events"].append("realloc_failed_own_block" if last_cmd[3] in cur["mine"] else "realloc_failed_earlier_block")
            elif w[0] == "badkind":
                cur["events"].append("realloc_skipped_not_malloc")
            elif w[0] == "num" and kind == "alloc":
                live.add(last_cmd[3])
                if cur["window"]:
                    cur["mine"].add(last_cmd[3])
            elif w[0] == "ok" and kind == "free":
                if last_cmd[3] in live and last_cmd[3] not in cur["mine"]:
                    cur["freed_earlier"] = True
                live.discard(last_cmd[3])
                cur["mine"].discard(last_cmd[3])
            elif w[0] == "ok" and kind == "fail":
                cur["own"] += 1
            elif w[0] == "ok" and kind == "ignore":
                cur["ignore"] = True
            elif w[0] == "ok" and kind == "expect":
                cur["expect"] = int(last_cmd[3])
            elif w[0] == "skipped":
                cur["skipped"] += 1
        elif cur is not None and w[0] == "leakfail":
            cur["leakfail"] = w[1]
            cur["trunc"] = w[-1] == "1"
        elif cur is not None and w[0] == "warn":
            cur["warn"] = True
        elif cur is not None and w[0] == "parentfail":
            cur["events"].append("separate_process_child_failed" if w[1] != "0" else "separate_process_child_passed")
    return tests


def nontrivial(r):
    ts = _tests(r)
    return len(ts) >= 2 and any(t["leakfail"] or (t["mine"] and not t["own"]) for t in ts)


def observe(r, rep):
    for t in _tests(r):
        n = len(t["mine"])
        if t["leakfail"] == "report":
            rep.count("branch.leak_failure_with_report")
            if t["freed_earlier"]:
                rep.count("branch.leak_failure_although_earlier_block_freed")
            if t["expect"]:
                rep.count("branch.leak_failure_expected_nonzero_mismatch")
        elif t["leakfail"] == "noleaks":
            rep.count("branch.failure_expected_leaks_missing")
        elif t["own"] and n:
            rep.count("branch.already_failed_with_outstanding_blocks")
        elif t["ignore"] and n:
            rep.count("branch.ignored_with_outstanding_blocks")
        elif n and t["expect"] == n:
            rep.count("branch.pass_expected_equals_outstanding")
        elif n == 0 and not t["own"]:
            rep.count("branch.clean_pass")
        for e in t["events"]:
            rep.count("branch." + e)
        if "realloc_failed_earlier_block" in t["events"] and not t["leakfail"] and not t["own"]:
            rep.count("branch.pass_after_failed_realloc_of_earlier_block")
        if t["trunc"]:
            rep.count("branch.report_truncated")
        if t["warn"]:
            rep.count("branch.overloads_off_warning")
        if t["skipped"]:
            rep.count("branch.commands_skipped_after_own_failure")
        if t["freed_earlier"]:
            rep.count("branch.test_frees_earlier_block")


LEVEL_TEXT = ("Machine-checked Lean 4 theorems, for every sequence of scripted tests of any length (any alloc/free script in "
              "setup, body, teardown and between tests, frees of earlier tests' blocks, tracked reallocs of own and earlier "
              "blocks with the platform realloc succeeding or failing, any expected count, ignore flag, own failures): a leak failure is added exactly when the test passed its own checks, did not ask to ignore leaks and "
              "the number of blocks allocated between its pre and post action and still outstanding differs from the declared "
              "number; the report lists exactly those blocks and states their number; no block that was live before a test's pre "
              "action appears in its report; frees of earlier blocks do not change the verdict; a test with an own failure gets "
              "no leak failure; a failed realloc changes nothing (the old block keeps its test), a successful one makes the "
              "result a block of the reallocating test; the window is pre action to post action with createTest/destroyTest "
              "inside (constructor/destructor allocations count); EXPECT_N_LEAKS assigns (last one wins), IGNORE sticks; a test in "
              "a separate process leaves the parent's detector unchanged and costs the parent exactly one failure iff the child "
              "failed; FinalReport(n) is silent iff n enabled blocks are outstanding; overloads off: warning instead of failure; flags are reset after every test. The theorems are about an interpreter that executes statement "
              "lists regenerated from the C++ source on every run; interpreter and abstract detector are tied to the code by a "
              "differential harness (real plugin, real runner, private and global detector, ASan/UBSan) and the "
              "implementation's own observations are judged by an independent specification oracle.")
LEVEL_NOTE = ("Trusted: Lean kernel; the interpreter and the list abstraction of the detector's hash table (validated by the "
              "correspondence of this run; table exactness is C04); the statement extractor; the harness' report parser. "
              "Observed only, not proved: truncated reports (more than ~19 entries) still state the true total; the runner's "
              "own allocation inside the window is released inside it; overloads-off mode prints a warning instead of failing.")
TECHNIQUE = ("Lean 4 refinement proof (model run = history-level specification) over an interpreter of regenerated statement "
             "lists + differential correspondence harness + specification oracle on the implementation's observations")
