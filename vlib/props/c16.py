"""C16 — JUnit report is well-formed XML and faithful to the run."""
import xml.parsers.expat
from . import _outgen as G
from .. import core

ID = "C16"
HARNESS = "h_c16"

TRUSTED = [
    "Lean 4 kernel; axioms of every theorem audited (propext, Classical.choice, Quot.sound at most)",
    "translator translate/extract_junit.py: the statement lists of writeXmlHeader, writeTestSuiteSummary, writeProperties, writeTestCases "
    "(open tag / skipped marker / close tag), writeFailure, writeFileEnding (every literal of every format string, every conversion paired "
    "with its argument, which fields go through encodeXmlText), the order of the writer calls of writeTestGroupToFile, the fields cleared by "
    "resetTestGroupResult and the statement order of printCurrentGroupEnded are regenerated into Gen/JUnitTemplates.lean on every run; "
    "Model/JUnit.lean INTERPRETS these lists and the proofs are re-checked over them, and the interpreter's output is compared byte for byte "
    "with the real files (so a translator bug shows up as a disagreement, not as a false theorem)",
    "hand-written parts of lean/CppUModel/Model/JUnit.lean (the interpreter, the loop of writeTestCases, test started / ended / failure "
    "callbacks - their source shape is pinned by exact shape checks in extract_junit) and Model/OutputEvents.lean (registry loop, scripted "
    "tests), tied to src/CppUTest/JUnitTestOutput.cpp and TestRegistry.cpp by the h_c16 correspondence (every file name and every file's "
    "bytes compared with the model, this run), both directly on a JUnitTestOutput and through CommandLineTestRunner::runAllTestsMain "
    "(-ojunit -k -r -v/-vv -n/-sn/-xn/-xsn, CompositeTestOutput in front of the JUnit output)",
    "extractor translate/extract_escapes.py (replace list of encodeXmlText, forbidden set of encodeFileName, literal pieces of "
    "createFileName) regenerating Gen/EscapeTables.lean; its output is also exercised by the correspondence",
    "extractor translate/extract_failure_ctors.py (member-initialiser lists of the three TestFailure constructors, copy constructor, "
    "getters, FailFailure) regenerating Gen/FailureCtors.lean; exercised by the correspondence through failures built by every "
    "constructor, from the test body and from a plugin's post-test action",
    "SimpleString::replace(const char*, const char*) / replace(char, char) equal Text.replaceAll / Text.replaceByte (property C13)",
    "the XML rules as written down in Spec/JUnit.lean (references, what may appear raw in attribute values and text); "
    "Python's xml.parsers.expat as the standards-conforming judge of the files the real code wrote",
    "StringFromFormat's %s/%d/%0Nd formatting (vsnprintf) as modelled by fmtInt/fmtPad; (int) casts as two's-complement truncation",
    "the contract of the file seams PlatformSpecificFOpen/FPuts/FClose: the file holds exactly the bytes handed to FPuts, in order. "
    "The model stops at the seam; the contract is TESTED, not proved: a quarter of the generated runs (and corpus cases) leave the "
    "function pointers at the platform's real implementations, write real files into a fresh temporary directory and read them "
    "back (with % conversions frequent in every text field)",
]
ASSUMPTIONS = [
    "names, paths, messages and printed text are C strings over printable ASCII plus CR and LF (no NUL, no other control bytes, no "
    "bytes >= 0x80: those are outside the property's quantifier and would need a declared encoding)",
    "tabs in attribute values come back as spaces from a conforming parser (attribute-value normalisation); they are compared "
    "modulo that in the expat judge and are not generated for the Lean oracle",
    "line numbers and counts below 2^31 (they are printed through (int) casts); times may exceed it: the wrap of the printed seconds is "
    "modelled (castInt) and exercised",
    "the platform's time string is XML-safe (it is the one field written unencoded - theorem every_text_field_is_encoded names it). It is "
    "an environment input of the model (varied by the generator: empty, 99/100/101 bytes, several formats); the Gcc implementation "
    "(time/localtime/strftime) is exercised unstubbed on runs that write one file; the millisecond clock is stubbed",
    "default order: the tests of a group are consecutive; a group whose tests are all filtered out produces cpputest_.xml with an empty "
    "suite (observation, outside the quantifier); captured output accumulates over the groups of a run (stdOutput_ is never reset)",
]
RULE = ("scripted registries: 1-5 groups, pass / fail through every TestFailure constructor (file+line+message, message only, file+line only, FailFailure; several per test; from the body and from a plugin's post-test action) / ignored tests, printed "
        "text, optional package and name filter, repeated runs on one output object (-r2/-r3/-r9), a quarter of the runs through the real CommandLineTestRunner (half of those behind a CompositeTestOutput), the platform time string varied or real; names, paths, messages and printed text over printable ASCII with & < > \" ' CR LF "
        "frequent and some longer than 100 bytes; a boundary stream (formatted lines of exactly 99/100/101 bytes, a fully filtered group between two that run, a group name that comes back, state carried across repetitions, second boundaries and (int) wrap of times, every special character in every field at once); non-trivial = a file contains an encoded character, a failure or a skipped element; "
        "distinct = distinct op sequences")

signature = G.signature


TIME_STRINGS = ["", "T", "2024-02-29T23:59:59", "1970-01-01T00:00:00", "Thu Jan  1 00:00:00 1970", "12/31/99 23:59", "x" * 99, "y" * 100,
                "z" * 101, "2001-02-03T04:05:06+01:00 (local time; 'quoted')", "%s%d%n"]
BIG_TICKS = [2147483647, 2147483647999, 2147483648000, 4294967295999, 4294967296000, 4294967297001]


def boundary_case(rng):
    """hand-shaped streams: exact buffer lengths of StringFromFormat (100 bytes), a group all of whose tests are filtered out
    between two that run, the same group name coming back, state surviving across repetitions, wrap-around times"""
    k = rng.randrange(6)
    ops = []
    if k == 0:
        # the formatted <testcase ...> / <failure ...> / <testsuite ...> line crosses the 100-byte format buffer exactly
        n = rng.choice(range(0, 60))
        name = "n" * n
        ops += ["test %s %s %s 7 run" % (G.hx("g" * rng.choice([1, 5, 20])), G.hx(name) , G.hx("f.cpp")),
                "fail %s 7 %s" % (G.hx("f.cpp"), G.hx("m" * rng.choice(range(40, 70))))]
    elif k == 1:
        # middle group completely filtered out (its report is cpputest_[package_].xml), filter by exact name
        ops += ["filter %s 1 0" % G.hx("keep"),
                "test %s %s %s 1 run" % (G.hx("A&1"), G.hx("keep"), G.hx("a.cpp")),
                "test %s %s %s 2 run" % (G.hx("B<2>"), G.hx("drop"), G.hx("b.cpp")),
                "print %s 3 %s" % (G.hx("b.cpp"), G.hx("never printed")),
                "test %s %s %s 4 %s" % (G.hx("C\"3"), G.hx("keep"), G.hx("c.cpp"), rng.choice(["run", "ign"])),
                "print %s 5 %s" % (G.hx("c.cpp"), G.hx("<printed> & kept"))]
    elif k == 2:
        # a group name that comes back later (a second report with the same name), with an ignored-only group between
        g = G.text(rng, 6, G.SPECIAL_XML, allow_empty=False)
        ops += ["test %s %s %s 1 run" % (G.hx(g), G.hx("t1"), G.hx("f")), "checks 3", "failmsg %s" % G.hx("first & only"),
                "test %s %s %s 2 ign" % (G.hx("only-ignored"), G.hx("t2"), G.hx("f")),
                "test %s %s %s 3 run" % (G.hx(g), G.hx("t3"), G.hx("f")), "checks 2", "print %s 9 %s" % (G.hx("f"), G.hx("again\r\n"))]
    elif k == 3:
        # repetitions: captured output and the check-count offset survive, everything else restarts
        ops += ["repeat %d" % rng.choice([2, 3, 9]),
                "test %s %s %s 1 run" % (G.hx("G"), G.hx("a"), G.hx("f.cpp")), "checks %d" % rng.choice([1, 5]),
                "print %s 2 %s" % (G.hx("f.cpp"), G.hx("out<%d>" % rng.randrange(10))),
                "test %s %s %s 3 run" % (G.hx("H"), G.hx("b"), G.hx("f.cpp")), "checks %d" % rng.choice([0, 2]),
                "failx %s 4 %s" % (G.hx("f.cpp"), G.hx("stop \"here\"")), "checks 100"]
    elif k == 4:
        # times: exact second boundaries and the (int) wrap of the seconds
        ops += ["test %s %s %s 1 run" % (G.hx("T"), G.hx("a"), G.hx("f")), "tick %d" % rng.choice([999, 1000, 1001, 59999, 60000] + BIG_TICKS),
                "test %s %s %s 2 run" % (G.hx("T"), G.hx("b"), G.hx("f")), "tick %d" % rng.choice([0, 1, 10, 100] + BIG_TICKS),
                "test %s %s %s 3 ign" % (G.hx("T"), G.hx("c"), G.hx("f")), "tick 5"]
    else:
        # package + every special character in every field at once
        sp = "&<>\"'\r\n"
        ops += ["package %s" % G.hx("p" + sp), "test %s %s %s 1 run" % (G.hx("g" + sp), G.hx("n" + sp), G.hx("f" + sp)),
                "print %s 2 %s" % (G.hx("o" + sp), G.hx(sp + sp)), "fail %s 3 %s" % (G.hx("x" + sp), G.hx(sp)),
                "test %s %s %s 4 ign" % (G.hx("g" + sp), G.hx(sp), G.hx(sp))]
    if rng.random() < 0.5:
        ops.insert(0, "timestr %s" % G.hx(rng.choice(TIME_STRINGS)))
    if rng.random() < 0.4:
        ops.insert(0, "cli")
        if rng.random() < 0.5:
            ops.insert(0, "verbose %d" % rng.choice([1, 2]))
    ops.append("run")
    return ops


def gen_case(rng, n, malformed=False, extra_chars="", real_io=False):
    ops = G.gen_registry(rng, n, empty_groups=malformed or rng.random() < 0.05, repeat_groups=malformed and rng.random() < 0.5,
                         with_package=True, with_prints=True, specials=G.SPECIAL_XML + "|[]" if not extra_chars else G.SPECIAL_XML + extra_chars)
    if rng.random() < 0.06:
        # wrap-around of the (int) seconds
        ticks = [i for i, l in enumerate(ops) if l.startswith("tick ")]
        if ticks:
            ops[rng.choice(ticks)] = "tick %d" % rng.choice(BIG_TICKS)
    if not real_io and rng.random() < 0.2:
        ops.insert(0, "repeat %d" % rng.choice([2, 2, 3]))      # -r<n>: every repetition writes every report again
    x = rng.random()
    if x < 0.25:
        ops.insert(0, "timestr %s" % G.hx(rng.choice(TIME_STRINGS)))     # the platform's time string: an environment input
    elif x < 0.45 and not real_io and not malformed:
        # the real GetPlatformSpecificTimeString (time/localtime/strftime) - only for runs that write ONE file, so that the clock
        # cannot move between two reports of the same run
        reg = G.read_registry(ops)
        if reg["repeat"] == 1 and len(G.group_runs(reg["tests"])) == 1:
            ops.insert(0, "realtime")
    if not real_io and rng.random() < 0.25:
        ops.insert(rng.randint(0, len(ops)), "cli")             # through CommandLineTestRunner (-ojunit -k -r -v -n/-sn/-xn/-xsn)
    ops.append("run")
    if real_io:
        # real files in a temporary directory: the names must be distinct and short enough for the file system
        names = G.junit_file_names(G.read_registry(ops))
        if len(set(names)) == len(names) and all(len(n) <= 200 and b"\0" not in n for n in names):
            ops.insert(0, "realio")
            return ops
    if rng.random() < 0.1:
        ops += G.gen_registry(rng, 2, with_filter=False, specials=G.SPECIAL_XML)
        ops.append("run")
    if malformed:
        for _ in range(rng.randint(0, 3)):
            ops.insert(rng.randint(0, len(ops)), rng.choice(["tick", "fail zz 1 00", "test 41 42", "checks x", "package", "bogus 1 2",
                                                            "timestr zz", "cli 1"]))
    return ops


def generate(rng, tier):
    n = 1500 if tier == "quick" else 12000
    out = []
    for i in range(n):
        size = rng.choice([1, 2, 4, 8, 16]) if tier == "quick" else rng.choice([1, 3, 8, 20, 60])
        out.append(("gen", gen_case(rng, size, real_io=rng.random() < 0.25)))
    for i in range(n // 8):
        out.append(("malformed", gen_case(rng, rng.choice([1, 3, 6]), malformed=True)))
    for i in range(min(n // 6, 800)):
        out.append(("boundary", boundary_case(rng)))
    return out


def translate(ctx):
    from translate import extract_escapes, extract_failure_ctors, extract_junit
    return (extract_escapes.run() or []) + (extract_failure_ctors.run() or []) + (extract_junit.run() or [])


def _files(lines):
    return [(G.unhx(w[1]), G.unhx(w[2])) for w in (l.split() for l in lines) if len(w) == 3 and w[0] == "file"]


def nontrivial(r):
    return any(b"&" in b or b"<failure" in b or b"<skipped" in b for _, b in _files(r.impl))


def observe(r, rep):
    if r.ops and r.ops[0] == "realio":
        rep.count("branch.real_io_files_on_disk")
    fs = _files(r.impl)
    rep.count("files", len(fs))
    for name, b in fs:
        for key, pat in (("encoded.amp", b"&amp;"), ("encoded.quot", b"&quot;"), ("encoded.lt", b"&lt;"), ("encoded.gt", b"&gt;"),
                         ("encoded.cr", b"&#13;"), ("encoded.lf", b"&#10;"), ("elem.failure", b"<failure "), ("elem.skipped", b"<skipped />"),
                         ("elem.testcase", b"<testcase ")):
            c = b.count(pat)
            if c:
                rep.count(key, c)
        if b"_" in name[9:-4]:
            rep.count("filename.with_replaced_or_underscore")
        if name == b"cpputest_.xml":
            rep.count("observation.file_for_empty_or_fully_filtered_group")
    first = [l.split() for l in r.ops[:r.ops.index("run")]] if "run" in r.ops else []
    if ["cli"] in first:
        rep.count("branch.cli_runner")
        if any(w[0] == "verbose" and w[1:] in (["1"], ["2"]) for w in first if w):
            rep.count("branch.cli_composite_output")
    if any(w and w[0] == "timestr" for w in first):
        rep.count("branch.time_string_varied")
    if ["realtime"] in first:
        rep.count("branch.platform_time_string")
    for name, b in fs:
        if b' time="-' in b:
            rep.count("branch.seconds_wrap_negative")
        if b'assertions="-' in b:
            rep.count("branch.assertions_negative_after_repetition")
    reg = G.read_registry(r.ops)
    if reg["repeat"] > 1:
        rep.count("branch.repeated_runs")
    if reg["package"]:
        rep.count("branch.package")
    if reg["filter"] is not None and any(not G.should_run(reg, t) for t in reg["tests"]):
        rep.count("branch.test_filtered_out")
    if any(len(G.failures(t)) >= 2 for t in reg["tests"]):
        rep.count("branch.several_failures_in_one_test")
    for t in reg["tests"]:
        if not G.should_run(reg, t) or t["ignored"]:
            continue
        for a in G.executed(t) + [x for x in t["acts"] if x[0] == "postfail"]:
            if a[0] in ("fail", "failx", "failmsg", "failloc", "postfail"):
                rep.count("ctor." + {"fail": "file_line_message", "failx": "FailFailure", "failmsg": "message_only",
                                     "failloc": "file_line_only", "postfail": "message_only_from_plugin"}[a[0]])
    names = [n for n, _ in fs]
    if len(set(names)) != len(names):
        rep.count("observation.two_groups_same_file_name")


# ---------------------------------------------------------------- the standards-conforming judge: expat

def expat_parse(data):
    """-> (root attrs, [case dict], system-out text) ; raises ExpatError when not well formed"""
    p = xml.parsers.expat.ParserCreate()
    p.buffer_text = True
    stack, cases, root, sysout = [], [], {}, []

    def start(name, attrs):
        stack.append(name)
        if name == "testsuite":
            root.update(attrs)
        elif name == "testcase":
            cases.append({"attrs": attrs, "failure": None, "skipped": False})
        elif name == "failure" and cases:
            cases[-1]["failure"] = attrs
        elif name == "skipped" and cases:
            cases[-1]["skipped"] = True

    def end(name):
        stack.pop()

    def chars(d):
        if stack and stack[-1] == "system-out":
            sysout.append(d)

    p.StartElementHandler, p.EndElementHandler, p.CharacterDataHandler = start, end, chars
    p.Parse(data, True)
    return root, cases, "".join(sysout)


def norm_attr(b):
    """attribute-value normalisation of literal tab / line break to space (references are not touched)"""
    return b.replace(b"\t", b" ")


def printed_by(t):
    out = b""
    for a in G.executed(t):
        if a[0] == "print":
            out += b"\n" + a[1] + b":" + str(a[2]).encode() + b" " + a[3]
    return out


def first_failure(t):
    """(kind, file, line, message) of the first failure, or None"""
    fs = G.failures(t)
    return ("first",) + fs[0] if fs else None


def expat_judge(ops, files):
    reg = G.read_registry(ops)
    one = G.group_runs(reg["tests"])
    # n repetitions; the runner's "Test run i of n" line reaches this output without its numbers, before the first group
    runs = []
    for _ in range(reg["repeat"]):
        for k, (g, ts) in enumerate(one):
            runs.append((g, ts, b"Test run  of \n" if (k == 0 and reg["repeat"] > 1) else b""))
    if len(files) != len(runs):
        return "%d files for %d groups" % (len(files), len(runs))
    printed = b""
    enc = lambda s: s.encode("latin-1", "replace")
    for (g, ts, pre), (name, data) in zip(runs, files):
        try:
            root, cases, sysout = expat_parse(data)
        except xml.parsers.expat.ExpatError as e:
            return "expat rejects file %r: %s  (%r)" % (name, e, data[:200])
        running = [t for t in ts if G.should_run(reg, t)]
        own = b"".join(printed_by(t) for t in running)
        printed += pre + own
        if not running:
            continue
        pkg = reg["package"]
        bad = set(b'/\\?%*:|"<>')
        want_name = bytes(95 if c in bad else c for c in (b"cpputest_" + (pkg + b"_" if pkg else b"") + g)) + b".xml"
        if name != want_name:
            return "file name %r, expected %r" % (name, want_name)
        if enc(root.get("name", "")) != norm_attr(g):
            return "suite name %r, original %r" % (root.get("name"), g)
        if root.get("tests") != str(len(running)):
            return "tests=%r, %d ran" % (root.get("tests"), len(running))
        nfailed = sum(1 for t in running if first_failure(t))
        if root.get("failures") != str(nfailed):
            return "failures=%r, %d failed" % (root.get("failures"), nfailed)
        if len(cases) != len(running):
            return "%d testcase elements for %d tests" % (len(cases), len(running))
        for t, c in zip(running, cases):
            a = c["attrs"]
            cls = (pkg + b"." if pkg else b"") + g
            if enc(a.get("name", "")) != norm_attr(t["name"]) or enc(a.get("classname", "")) != norm_attr(cls) \
                    or enc(a.get("file", "")) != norm_attr(t["file"]) or a.get("line") != str(t["line"]):
                return "testcase attributes %r do not match test %r" % (a, t)
            ff = first_failure(t)
            if t["ignored"]:
                if not c["skipped"] or c["failure"]:
                    return "ignored test %r: skipped=%r failure=%r" % (t["name"], c["skipped"], c["failure"])
            else:
                if c["skipped"]:
                    return "test %r is not ignored but skipped" % t["name"]
                if (ff is None) != (c["failure"] is None):
                    return "test %r: failure element %r, first failure %r" % (t["name"], c["failure"], ff)
                if ff is not None:
                    want = ff[1] + b":" + str(ff[2]).encode() + b": " + ff[3]
                    if enc(c["failure"].get("message", "")) != norm_attr(want):
                        return "failure message %r, original %r" % (c["failure"].get("message"), want)
        if enc(sysout) not in (printed, own):
            return "system-out %r, original %r" % (sysout, printed)
    return None


def extra(ctx, exe):
    rng, rep = ctx.rng, ctx.rep
    n = 500 if ctx.tier == "quick" else 3000
    cases = []
    for i in range(n):
        ops = gen_case(rng, rng.choice([1, 3, 8]), extra_chars="\t" if i % 4 == 0 else "", real_io=(i % 4 == 1))
        cases.append(("expat:%d" % i, ops))
    # also everything in the corpus
    from .. import flow
    cases += [("expat:" + cid, ops) for cid, ops in flow.read_corpus(ID)]
    out, _ = core.run_harness(exe, cases)
    impl, _ = core.split_cases(out)
    nfiles, bad = 0, None
    for cid, ops in cases:
        lines = impl.get(cid, [])
        # the files of the first run only
        first = []
        seen_run = False
        for l in lines:
            if l.startswith("> run"):
                if seen_run:
                    break
                seen_run = True
            elif seen_run and l.startswith("file "):
                first.append(l)
        fs = _files(first)
        nfiles += len(fs)
        why = expat_judge(ops, fs)
        if why:
            bad = (cid, ops, why)
            break
    rep.coverage["expat_files_parsed"] = nfiles
    rep.notes.append("expat judge: %d files of %d runs parsed by xml.parsers.expat and compared with the originals "
                     "(tabs in attribute values modulo attribute-value normalisation)" % (nfiles, len(cases)))
    if bad:
        cid, ops, why = bad
        rep.violation("property C16 violated by the implementation (expat judge): %s" % why,
                      "# property C16\n# kind: Python's expat rejects a file the implementation wrote, or its content differs from the run\n"
                      "# detail: %s\ncase replay\n%s\nend\n" % (why, "\n".join(ops)), name="expat")


LEVEL_TEXT = ("Machine-checked Lean 4 theorems over an executable model of JUnitTestOutput whose writer is an INTERPRETER of statement lists "
              "regenerated from src/CppUTest/JUnitTestOutput.cpp on every run (all writer functions, the order of the writer calls, the reset "
              "and group-end statement lists, the encodeXmlText / file-name tables, the TestFailure constructors) and of the registry's "
              "callback order, for every registry (any number of groups and tests, any pass/fail/ignore pattern, any name filter, any "
              "package) and all byte strings: for every collector state the regenerated statement lists write exactly the rendering of the "
              "structured report with every text field through encodeXmlText (only the platform's time string is raw); the six sequential "
              "replaces of encodeXmlText equal one pass of a per-byte map (side condition checked on the regenerated table), decoding the "
              "references returns the original, the encoded text contains no raw < > \" CR LF and every & starts an emitted reference, an XML "
              "reader of an attribute value or of element text gets the original back and stops exactly at the delimiter; the suite states "
              "the true numbers of tests and failed tests, there is one testcase element per test in run order with name, file and line, a "
              "skipped marker exactly for ignored tests and a failure element (first failure) exactly for failed tests; every testcase's "
              "time is the test's time and every suite's time is the sum over its group (seconds through the (int) cast, three-digit "
              "milliseconds); the file name is the sanitised cpputest_[package_]group.xml. Whole-document and whole-run: the specification's "
              "tokenizer and layout reader accept the rendering of every well-formed structured report (all byte strings as values) and "
              "return exactly that report, hence every file of every run - and of every repetition of a repeated run on one output "
              "object - is read back into the fields it was written from. The real code's files are compared byte for byte with the model "
              "on generated registries (directly, through the real command-line runner with a composite output, and through real files), "
              "read by the independent Lean report reader and parsed by Python's expat. Stated as theorems, not violations: two groups share "
              "a file name exactly when their sanitised names agree; the captured output accumulates over the groups of a run; a group none "
              "of whose tests runs is reported as cpputest_[package_].xml with an empty suite; reset clears exactly counts, group name and nodes.")
LEVEL_NOTE = ("Regenerated and proof-checked each run: every writer function as a statement list, writer call order, reset / group-end lists, escape "
              "and file-name tables, failure constructors. Pinned by exact shape checks only (hand model + correspondence): the loop skeleton of "
              "writeTestCases, printCurrentTestStarted/Ended, printFailure, print, the empty callbacks, the file seams, constructors/destructor. "
              "Only observed: the Gcc time string and file functions, CompositeTestOutput/CommandLineTestRunner (same files required), memory "
              "management of the node list (sanitizers). Trusted: Lean kernel; the interpreter and runner model (validated by this run's "
              "correspondence); the translators; SimpleString::replace = Text.replaceAll (C13); expat. Well-formedness of the whole file for "
              "all inputs is proved against the specification's own reader (a small XML subset: declaration, tags with quoted attributes, "
              "references, text) and judged by expat on the generated runs; the full XML grammar is not formalised. Outside the quantifier: "
              "control bytes other than CR/LF, bytes >= 0x80, lines and counts >= 2^31, a time string that needs encoding.")
TECHNIQUE = ("Lean 4 proofs over source-regenerated writer templates (interpreter + render theorem), replace-chain = per-byte map over a "
             "regenerated table, reference round trip, whole-report reader round trip, collector/runner induction (keys, times, groups, "
             "repetitions) + differential correspondence harness on the written files (direct, command-line runner, real files) + expat as "
             "independent judge")
