"""C01 — a failing check always fails the run: generator and property-specific settings."""
import hashlib, os
from .. import core

ID = "C01"
HARNESS = "h_c01"
# build variant of the main stream; `C01_VARIANT=noexc ./check C01 --replay <file>` replays a finding of the
# build without exceptions (the second variant is always run by `extra`)
VARIANT = os.environ.get("C01_VARIANT", "asan")
KEEP_FIRST = 1          # the cfg line
SHRINK_BUDGET = 300
HARNESS_TIMEOUT = 3600

TRUSTED = [
    "Lean 4 kernel; axioms of every theorem audited (propext, Classical.choice, Quot.sound at most)",
    "hand-written runner model lean/CppUModel/Model/Runner.lean (runOneTest, plugins, registry loop with the group start/end clock "
    "reads, repeat loop, console printing incl. -v, -vv, -c, progress dots, rethrow mode, -p), tied to the sources by the h_c01 "
    "correspondence of this run in both build variants (with and without C++ exceptions): every printed string, every executed "
    "statement, every plugin action with the setjmp depth at which it ran, every clock reading. Utest::run (both variants), "
    "UtestShell::runOneTestInCurrentProcess, TestOutput::printFailure with everything it calls (both working-environment formats), "
    "TestFailure::isOutsideTestFile/isInHelperFunction, ConsoleTestOutput::printBuffer/flush and the CompositeTestOutput forwarders "
    "are NOT trusted as hand models any more: their code is regenerated and the hand model is proved equal to its interpretation",
    "interpreters of the regenerated code in lean/CppUModel/Model/RunnerCode.lean (semantics of a statement list, C++ handler "
    "selection = first matching catch clause, a stdio stream = visible + pending data, _exit discards pending data)",
    "contract of setjmp/longjmp and of C++ unwinding: a function called through PlatformSpecificSetJmp leaves by return, by "
    "PlatformSpecificLongJmp to the innermost saved buffer, or by an exception that runs no code of the platform layer "
    "(modelled, not verified; the depth after every test is observed through hook H1)",
    "translate/extract_runner.py (jump-buffer array length, TestResult::isFailure, verdict condition of printTestsEnded, return "
    "expression of runAllTests; shape checks of SetJmp/LongJmp/RestoreJumpBuffer, TestResult::addFailure, the rest of "
    "printTestsEnded, the repeat loop) and translate/extract_runner_code.py (token-level parser of the function bodies listed "
    "above into statement lists; every executable result is also exercised by the correspondence: the driver renders failure "
    "records and the real-stdout text from the regenerated sequences)",
    "statement of the theorems in Props/C01.lean and of the textbook definitions and the console readers in Spec/Runner.lean",
]
ASSUMPTIONS = [
    "-p (every test in a forked child): the child's counters are lost by design, so the parent's summary counts one failure per "
    "child that recorded any failing event and no checks for tests run in children; 'recorded and printed exactly once' means "
    "there: the child prints every failing event once, the parent adds one 'Failed in separate process' record per failed "
    "child (theorem recorded_once_with_separate_process); children killed by signals are property C11's",
    "rethrow mode off (-e / UtestShell::setRethrowExceptions(false)) for the property itself; rethrow mode is modelled up to "
    "'the exception leaves runAllTests' (theorem rethrow_propagates, observed by the harness catching it around runAllTestsMain)",
    "size_t counters do not wrap; the runner's return value is exact only below 2^32 accumulated failures (int cast) — "
    "theorems exit_value_wraps / exit_value_wraps_program give the witness",
    "plugins report errors through result.addFailure (as MemoryLeakWarningPlugin and MockSupportPlugin do); a plugin that calls a "
    "terminating check in a pre/post action is outside the model",
    "an escaping exception has no location of its own: the record carries the test's file:line",
    "test code does not itself call PlatformSpecificSetJmp/LongJmp/RestoreJumpBuffer",
    "console output; working environment eclipse (what the Gcc platform detects; regenerated) or visualStudio via "
    "TestOutput::setWorkingEnvironment (op `env`); the clock seam is scripted by the generator and its readings are environment "
    "inputs of the model (fixed at 0 in the real-stdout sub-mode)",
    "real stdout: a stdio stream is modelled as visible + pending data with an unbounded buffer; fputs appends to pending, fflush "
    "moves pending to visible, _exit / a kill discards pending (what the C library does is observed in the `realio` sub-mode, "
    "where stdout is a fully buffered pipe)",
    "CompositeTestOutput is exercised with the JUnit writer replaced by a second recording console output (-ojunit -v); the JUnit "
    "writer itself is property C16's. -f (crash on failure) is covered by the regenerated statement orders only (the failure is "
    "recorded before the terminator runs, the crashing terminators crash before leaving); the harness does not run it",
    "console_reader_full needs the free strings of the failing events (message, file names) not to be one of the three marker "
    "strings ' Failure in ', 'OK (', 'Errors (' and no message to be a lone ':' ('(' for console_reader_full_vs)",
]
RULE = ("one real check per assert function / macro family (31 kinds incl. MEMCMP with length 0 and > 0, CHECK_COMPARE passing "
        "and failing, CHECK_THROWS, the C entry points), passing and failing, in every phase; "
        "test programs of 0-100 tests (thorough: up to 400): every failure kind (FAIL, FAIL_TEST, CHECK, UtestShell::fail with "
        "both terminators, FAIL_TEXT_C, CHECK_C, TEST_EXIT and exitTest without exceptions, std exception, foreign exception) in "
        "every phase and combined across phases, plain and _LOCATION forms; runs of 11-40 consecutive failing tests of one kind "
        "and of mixed kinds; ignored tests, -ri, runs in which nothing runs but something is ignored (only IGNORE_TESTs, filters "
        "selecting only ignored tests, repeat > 1); strict filters incl. ones selecting nothing; plugins reporting errors in "
        "pre/post actions; -v, -vv, -c; scripted clock readings incl. a clock running backwards; 50/51/100 tests for the progress "
        "line break; repeat forms -r, -rN, -r N; rethrow mode with and without a throwing test; SEQUENCES of 2-4 runner invocations in one process with different -e settings (op "
        "`rethrow` between the runs; a runner with -e after one without it meets tests that throw); -p; the Visual Studio / eclipse / "
        "detected working environment (op env); -ojunit -v runs through the CompositeTestOutput with output one recorded (op "
        "composite); runs on the REAL stdout (a fully buffered pipe, real ConsoleTestOutput and fputs/fflush, mostly with -p) whose "
        "bytes are read back (op realio); both build variants. non-trivial = at least one failure record or a 'ran nothing' "
        "summary; distinct = distinct op sequences")

GROUPS = ["g1", "g2", "g3"]
NAMES = ["n%d" % i for i in range(1, 9)]
FAIL_KINDS = ["failcpp", "checkcpp", "failc", "checkc", "failplain", "checkplain", "failcplain", "checkcplain",
              "failtest", "failtestplain", "shellfail", "shellfailc", "throwstd", "throwother", "exit", "exitc"]
THROWS = ("throwstd", "throwother")
# one real check per assert function / macro family (statement `checkKind <k> <pass|fail> <file> <line>`)
CHECK_KINDS = ["check", "checkText", "checkEqual", "longs", "ulongs", "longlongs", "ulonglongs", "bytes", "sbytes", "pointers",
               "fpointers", "doubles", "strcmp", "strncmp", "strcmpNocase", "strcmpContains", "strcmpNocaseContains", "memcmp0",
               "memcmp", "bits", "compare", "enumsInt", "throws", "cInt", "cReal", "cString", "cPointer", "cMemcmp0", "cMemcmp",
               "cBits", "checkC"]
ZERO_LENGTH = ("memcmp0", "cMemcmp0")          # never fail, still count one

PHASES = ["setup", "body", "teardown"]


class Gen:
    def __init__(self, rng, throw_free=False):
        self.rng = rng
        self.mark = 0
        self.label = 0
        self.throw_free = throw_free

    def kinds(self):
        ks = [k for k in FAIL_KINDS if not (self.throw_free and k in THROWS)]
        # half of the failing statements are failing checks of a random kind
        return ks + ["ck"] * len(ks)

    def check_kinds(self):
        return [k for k in CHECK_KINDS if not (self.throw_free and k == "throws")]

    def check_stmt(self, kind, passing, tline):
        rng = self.rng
        f = "t" if rng.random() < 0.55 else str(rng.randrange(4))
        line = max(0, tline + rng.choice([-3, -1, 0, 0, 1, 2, 5, 17]))
        return "checkKind %s %s %s %d" % (kind, "pass" if passing else "fail", f, line)

    def stmt_fail(self, kind, tline):
        rng = self.rng
        if kind == "ck":
            return self.check_stmt(rng.choice([k for k in self.check_kinds() if k not in ZERO_LENGTH]), False, tline)
        if kind in ("failcpp", "checkcpp", "failc", "checkc", "failtest", "shellfail", "shellfailc"):
            f = "t" if rng.random() < 0.55 else str(rng.randrange(4))
            line = max(0, tline + rng.choice([-3, -1, 0, 0, 1, 2, 5, 17]))
            return "%s %s %d" % (kind, f, line)
        return kind

    def filler(self, n, tline=10):
        out = []
        for _ in range(n):
            x = self.rng.random()
            if x < 0.45:
                self.mark += 1
                out.append("mark %d" % self.mark)
            elif x < 0.55:
                out.append("pass")
            elif x < 0.62:
                out.append("passc")
            elif x < 0.72:      # the two corners of the counting rule
                k = self.rng.choice(["memcmp0", "cMemcmp0", "compare", "compare"])
                out.append(self.check_stmt(k, k == "compare" or self.rng.random() < 0.5, tline))
            else:
                out.append(self.check_stmt(self.rng.choice(self.check_kinds()), True, tline))
        return out

    def phase(self, fail_kind, tline, long=False):
        """statements of one phase; with fail_kind the failing statement sits at a random position"""
        rng = self.rng
        n = rng.choice([0, 1, 1, 2, 3]) if not long else rng.choice([3, 5, 8])
        st = self.filler(n, tline)
        if fail_kind:
            pos = rng.randrange(len(st) + 1)
            st.insert(pos, self.stmt_fail(fail_kind, tline))
            if rng.random() < 0.25:     # a second terminator after the first: must never execute
                st.append(self.stmt_fail(rng.choice(self.kinds()), tline))
        return st

    def test(self, ops, fails, ignored=False, group=None, name=None):
        """fails: dict phase -> kind"""
        rng = self.rng
        self.label += 1
        label = "t%d" % self.label
        line = rng.choice([1, 5, 10, 40, 100])
        ops.append("test %s %s %s %d %d %d" % (label, group or rng.choice(GROUPS), name or rng.choice(NAMES),
                                               rng.randrange(3), line, 1 if ignored else 0))
        for ph in PHASES:
            for s in self.phase(fails.get(ph), line):
                ops.append("s %s %s %s" % (label, ph, s))
        return label

    def random_fails(self, p_fail):
        rng = self.rng
        fails = {}
        if rng.random() < p_fail:
            x = rng.random()
            if x < 0.6:
                fails[rng.choice(PHASES)] = rng.choice(self.kinds())
            elif x < 0.85:
                for ph in rng.sample(PHASES, 2):
                    fails[ph] = rng.choice(self.kinds())
            else:
                for ph in PHASES:
                    fails[ph] = rng.choice(self.kinds())
        return fails


def cfg_line(rng, repeat=None, verbosity=None, run_ignored=None, rethrow=None, separate=None):
    """cfg <repeat form> <verbosity: bit0 -v, bit1 -vv> <-ri> <-c> <rethrow mode (no -e)> <-p>"""
    rep = repeat or rng.choice(["none"] * 8 + ["bare", "a1", "a2", "a2", "a3", "s2", "s3", "a0", "s1"])
    if verbosity is None:
        verbosity = rng.choice([0] * 11 + [1] * 4 + [2] * 3 + [3] * 2)
    if run_ignored is None:
        run_ignored = rng.random() < 0.15
    if rethrow is None:
        rethrow = rng.random() < 0.12
    if separate is None:
        separate = rng.random() < 0.18
    if rethrow:
        separate = False        # an exception that leaves a forked child is outside the model
    return "cfg %s %d %d %d %d %d" % (rep, verbosity, 1 if run_ignored else 0, 1 if rng.random() < 0.2 else 0,
                                      1 if rethrow else 0, 1 if separate else 0)


def clock_line(rng):
    """scripted clock seam: reading i = base + step*i + offs[i % n]; large offsets make it run backwards"""
    base = rng.choice([0, 0, 5, 1000, 1 << 40, (1 << 62) + 12345])
    step = rng.choice([0, 1, 1, 3, 7, 20])
    offs = [rng.choice([0, 0, 1, 2, 5, 50, 999]) for _ in range(rng.randrange(1, 7))]
    return "clock %d %d %s" % (base, step, " ".join(str(o) for o in offs))


def add_plugins(rng, ops):
    for i in range(rng.choice([0, 0, 0, 1, 1, 2, 3])):
        name = "p%d" % (i + 1)
        ops.append("plugin %s %d" % (name, 0 if rng.random() < 0.15 else 1))
        for _ in range(rng.choice([0, 1, 1, 2])):
            only = "*" if rng.random() < 0.12 else rng.choice(NAMES)
            ops.append("perr %s %s %s %d %d" % (name, rng.choice(["pre", "post"]), only, rng.randrange(4), rng.randrange(200)))


def add_filters(rng, ops):
    x = rng.random()
    if x < 0.70:
        return
    if x < 0.80:      # selects nothing: "ran nothing" must not read OK
        ops.append("filter %s %s" % (rng.choice(["sg", "sn"]), "zz"))
        return
    for _ in range(rng.choice([1, 1, 2])):
        k = rng.choice(["sg", "sn", "xsg", "xsn"])
        ops.append("filter %s %s" % (k, rng.choice(GROUPS) if "g" in k else rng.choice(NAMES)))


def gen_ignored_case(rng, throw_free=False):
    """runs in which nothing runs but something is ignored (must read OK and return 0), and their
    neighbours: only IGNORE_TESTs; a filter that selects only ignored tests; the same with -ri"""
    g = Gen(rng, throw_free)
    shape = rng.choice(["all", "all", "group", "group", "name", "mixed"])
    ops = [cfg_line(rng, repeat=rng.choice(["none", "none", "bare", "a2", "a3", "s2", "s3"]),
                    run_ignored=rng.random() < 0.2, rethrow=False)]
    if rng.random() < 0.4:
        ops.append(clock_line(rng))
    if shape == "group":
        ops.append("filter sg gi")
    elif shape == "name":
        ops.append("filter sn ni")
    elif shape == "mixed":
        ops.append("filter xsg g1")
    if rng.random() < 0.3:
        add_plugins(rng, ops)
    n_ign = rng.randrange(1, 5)
    others = 0 if shape == "all" else rng.randrange(0, 4)
    slots = ["i"] * n_ign + ["o"] * others
    rng.shuffle(slots)
    for k in slots:
        if k == "i":
            g.test(ops, g.random_fails(0.5), ignored=True,
                   group="gi" if shape in ("group", "mixed") else None, name="ni" if shape == "name" else None)
        else:
            g.test(ops, g.random_fails(0.4), ignored=False, group="g1" if shape == "mixed" else rng.choice(["g1", "g2"]),
                   name=rng.choice(NAMES))
    ops.append("run")
    return ops


def gen_separate_case(rng, throw_free=False):
    """-p: every test in a forked child.  Tests whose only failing event is reported by a plugin (pre or post
    action), tests without any failure, and tests failing in every way, side by side"""
    g = Gen(rng, throw_free)
    ops = [cfg_line(rng, rethrow=False, separate=True)]
    if rng.random() < 0.4:
        ops.append(clock_line(rng))
    add_filters(rng, ops)
    names = rng.sample(NAMES, 4)
    for i in range(rng.randrange(1, 4)):
        pname = "p%d" % (i + 1)
        ops.append("plugin %s %d" % (pname, 0 if rng.random() < 0.1 else 1))
        for _ in range(rng.choice([1, 1, 2])):
            ops.append("perr %s %s %s %d %d" % (pname, rng.choice(["pre", "post", "post"]), rng.choice(names[:2]),
                                                rng.randrange(4), rng.randrange(200)))
    for _ in range(rng.randrange(1, 8)):
        # names[0], names[1]: plugin errors apply; the phases themselves mostly pass there
        name = rng.choice(names)
        fails = g.random_fails(0.15 if name in names[:2] else 0.5)
        g.test(ops, fails, ignored=rng.random() < 0.1, name=name)
    ops.append("run")
    return ops


def env_line(rng):
    """TestOutput::setWorkingEnvironment: the failure location in the Visual Studio form `file(line):`"""
    return "env " + rng.choice(["vs", "vs", "vs", "eclipse", "detect"])


def gen_composite_case(rng, throw_free=False):
    """-ojunit with -v / -vv: the runner builds a CompositeTestOutput; the JUnit writer is replaced by a second
    recording console output, so what output ONE receives is observed (each failure once per attached output)"""
    g = Gen(rng, throw_free)
    ops = [cfg_line(rng, verbosity=rng.choice([1, 1, 2, 3]), rethrow=False, separate=False)]
    if rng.random() < 0.4:
        ops.append(env_line(rng))
    ops.append("composite")
    if rng.random() < 0.5:
        ops.append(clock_line(rng))
    add_filters(rng, ops)
    add_plugins(rng, ops)
    for _ in range(rng.randrange(0, 7)):
        g.test(ops, g.random_fails(0.6), ignored=rng.random() < 0.1)
    ops.append("run")
    return ops


def gen_realio_case(rng, throw_free=False):
    """the real ConsoleTestOutput on the real stdout (a fully buffered pipe) in a process of its own, mostly with -p:
    what a child printed before its _exit must be on the pipe (every print is flushed)"""
    g = Gen(rng, throw_free)
    sep = rng.random() < 0.65
    ops = [cfg_line(rng, rethrow=False, separate=sep)]
    if rng.random() < 0.3:
        ops.append(env_line(rng))
    ops.append("realio")
    add_filters(rng, ops)
    if rng.random() < 0.5:
        add_plugins(rng, ops)
    n = rng.randrange(1, 7)
    for i in range(n):
        g.test(ops, g.random_fails(0.7), ignored=rng.random() < 0.1)
    ops.append("run")
    return ops


def gen_rethrow_case(rng):
    """rethrow mode (no -e): the first std/foreign exception leaves runAllTests"""
    g = Gen(rng)
    ops = [cfg_line(rng, rethrow=True)]
    if rng.random() < 0.4:
        ops.append(clock_line(rng))
    add_plugins(rng, ops)
    n = rng.randrange(1, 7)
    at = rng.randrange(n + 1)        # == n: nobody throws
    for i in range(n):
        if i == at:
            fails = {rng.choice(PHASES): rng.choice(THROWS)}
            if rng.random() < 0.4:
                fails[rng.choice(PHASES)] = rng.choice(g.kinds())
        else:
            fails = g.random_fails(0.4)
            if i < at:
                fails = {ph: k for ph, k in fails.items() if k not in THROWS}
        g.test(ops, fails, ignored=rng.random() < 0.1)
    ops.append("run")
    return ops


def gen_sequence_case(rng, throw_free=False):
    """a SEQUENCE of runner invocations in ONE process with different -e settings (`rethrow <0|1>` between the `run`s): what
    an earlier runner left in the process (the static rethrow flag, jmp_buf_index, current test) must not reach the next one.
    The program grows between the invocations; the invocations without -e mostly run a program that throws nothing (they
    return), the ones with -e get tests that let std / foreign exceptions out"""
    g = Gen(rng, throw_free)
    modes = list(rng.choice([[1, 0], [1, 0], [1, 0], [1, 0, 0], [1, 1, 0], [0, 1, 0], [0, 1, 0], [1, 0, 1, 0], [0, 1], [0, 0, 1, 0]]))
    ops = [cfg_line(rng, rethrow=bool(modes[0]), separate=False, repeat=rng.choice(["none", "none", "none", "a2", "bare"]))]
    if rng.random() < 0.2:
        ops.append(env_line(rng))
    if rng.random() < 0.4:
        ops.append(clock_line(rng))
    if rng.random() < 0.3:
        add_plugins(rng, ops)
    quiet = Gen(rng, True)            # never throws
    quiet.label = 100
    labels = []
    careless = rng.random() < 0.1     # now and then a runner without -e meets a throwing test: the process ends there
    for k, m in enumerate(modes):
        if k > 0:
            ops.append("rethrow %d" % m)
        later_rethrow = any(modes[k:]) and not careless
        for _ in range(rng.choice([0, 1, 1, 2, 3]) if k > 0 else rng.choice([1, 1, 2, 3])):
            if later_rethrow or throw_free:
                quiet.mark = g.mark
                labels.append(quiet.test(ops, quiet.random_fails(0.4), ignored=rng.random() < 0.08))
                g.mark = quiet.mark
            else:
                fails = g.random_fails(0.5)
                if rng.random() < 0.6:
                    fails[rng.choice(PHASES)] = rng.choice(THROWS)
                labels.append(g.test(ops, fails, ignored=rng.random() < 0.08))
        if not later_rethrow and not throw_free and labels and rng.random() < 0.5:
            # an existing test starts to throw (appended to a phase: after whatever that phase does)
            ops.append("s %s %s %s" % (rng.choice(labels), rng.choice(PHASES), rng.choice(THROWS)))
        ops.append("run")
    return ops


def gen_case(rng, ntests, throw_free=False, p_fail=0.45, long_run=None, verbosity=None):
    """long_run: (length, kind or None): a run of consecutive failing tests inside the program"""
    g = Gen(rng, throw_free)
    ops = [cfg_line(rng, verbosity=verbosity)]
    if rng.random() < 0.2:
        ops.append(env_line(rng))
    if rng.random() < 0.6:
        ops.append(clock_line(rng))
    add_filters(rng, ops)
    add_plugins(rng, ops)
    run_at = rng.randrange(ntests + 1) if long_run else -1
    for i in range(ntests + 1):
        if i == run_at:
            length, kind = long_run
            ph_fixed = rng.choice(PHASES + [None])
            for _ in range(length):
                k = kind or rng.choice(g.kinds())
                ph = ph_fixed or rng.choice(PHASES)
                fails = {ph: k}
                if rng.random() < 0.2:
                    fails[rng.choice(PHASES)] = kind or rng.choice(g.kinds())
                g.test(ops, fails)
        if i < ntests:
            g.test(ops, g.random_fails(p_fail), ignored=rng.random() < 0.1)
    ops.append("run")
    return ops


def gen_malformed(rng):
    g = Gen(rng)
    ops = [cfg_line(rng)]
    pool = []
    for _ in range(rng.randrange(1, 12)):
        x = rng.random()
        if x < 0.35:
            pool.append(g.test(ops, g.random_fails(0.5)))
        elif x < 0.5:
            ops.append("s t%d %s %s" % (rng.randrange(40, 50), rng.choice(PHASES), "mark 3"))        # unknown test
        elif x < 0.6:
            ops.append("s %s %s %s" % (rng.choice(pool) if pool else "t1", rng.choice(PHASES + ["nophase"]),
                                       rng.choice(["bogus", "mark", "failcpp 9 1", "failc t", "throwstd 1", "mark 1 2"])))
        elif x < 0.7:
            ops.append("perr p9 pre * 0 1")                                                              # unknown plugin
        elif x < 0.78:
            ops.append(cfg_line(rng))                                                                    # second cfg
        elif x < 0.86 and pool:
            ops.append("test %s g1 n1 0 1 0" % rng.choice(pool))                                         # duplicate label
        elif x < 0.93:
            ops.append(rng.choice(["env vs", "env x", "composite", "realio", "composite", "realio",
                                   "test t99 g1 n1 7 1 0", "filter zz a", "filter sg a-b", "plugin p1", "cfg x 0 0 0 0", "frob",
                                   "clock 1 2", "clock 1 2 x", "cfg none 4 0 0 0", "cfg none 0 0 0", "cfg none 0 0 0 1 1", "cfg none 0 0 0 0 2"]))
        else:
            ops.append("run")                                                                            # run more than once
    ops.append("run")
    if rng.random() < 0.3:
        ops = ops[1:]                                                                                    # no cfg at all
    return ops


def stream(rng, tier, throw_free=False, scale=1.0):
    quick = tier == "quick"
    out = []
    n_small = int((1200 if quick else 9000) * scale)
    sizes = [0, 1, 1, 2, 2, 3, 3, 4, 5, 6, 8, 10, 15] if quick else [0, 1, 2, 3, 4, 5, 6, 8, 10, 15, 20, 30]
    for _ in range(n_small):
        out.append(("gen", gen_case(rng, rng.choice(sizes), throw_free, p_fail=rng.choice([0.0, 0.15, 0.45, 0.45, 0.8]))))
    # nothing runs, something is ignored (and neighbours)
    for _ in range(int((120 if quick else 900) * scale)):
        out.append(("ignored", gen_ignored_case(rng, throw_free)))
    for _ in range(int((120 if quick else 900) * scale)):
        out.append(("separate", gen_separate_case(rng, throw_free)))
    for _ in range(int((100 if quick else 350) * scale)):
        out.append(("composite", gen_composite_case(rng, throw_free)))
    for _ in range(int((120 if quick else 350) * scale)):
        out.append(("realio", gen_realio_case(rng, throw_free)))
    if not throw_free:
        for _ in range(int((80 if quick else 600) * scale)):
            out.append(("rethrow", gen_rethrow_case(rng)))
    # several runner invocations in one process, with and without -e
    for _ in range(int((120 if quick else 700) * scale)):
        out.append(("sequence", gen_sequence_case(rng, throw_free)))
    # medium / large programs; the progress dots break the line after every 50th test
    for _ in range(int((60 if quick else 300) * scale)):
        out.append(("gen", gen_case(rng, rng.choice([20, 30, 45, 50, 51, 60, 100]), throw_free,
                                    p_fail=rng.choice([0.2, 0.5, 0.9]), verbosity=rng.choice([0, 0, 0, 1, 2]))))
    if not quick:
        for _ in range(int(12 * scale)):
            out.append(("gen", gen_case(rng, rng.choice([150, 250, 400]), throw_free, p_fail=rng.choice([0.3, 0.8]))))
    # runs of 11-40 consecutive failing tests: every kind on its own, and mixed
    kinds = [k for k in FAIL_KINDS if not (throw_free and k in THROWS)]
    reps = 1 if quick else 4
    for _ in range(reps):
        for k in kinds:
            out.append(("longrun", gen_case(rng, rng.choice([0, 2, 6]), throw_free, p_fail=0.3,
                                            long_run=(rng.randrange(11, 41), k))))
        for _ in range(int((10 if quick else 30) * scale)):
            out.append(("longrun", gen_case(rng, rng.choice([0, 3, 8]), throw_free, p_fail=0.4,
                                            long_run=(rng.randrange(11, 41), None))))
    if not quick:
        for k in kinds:
            out.append(("longrun", gen_case(rng, 2, throw_free, long_run=(rng.randrange(100, 300), k))))
    for _ in range(int((100 if quick else 800) * scale)):
        out.append(("malformed", gen_malformed(rng)))
    return out


def generate(rng, tier):
    return stream(rng, tier)


def translate(ctx):
    from translate import extract_runner, extract_runner_code
    problems = []
    for ex in (extract_runner, extract_runner_code):
        try:
            problems += ex.run() or []
        except Exception as e:      # the other extractor still refreshes its file
            problems.append("%s cannot translate the current source: %s" % (ex.__name__.split(".")[-1], e))
    return problems


HEX_ERRORS = "4572726f72732028"            # "Errors ("
HEX_OK = "4f4b2028"                        # "OK ("
HEX_NOTHING = "72616e206e6f7468696e672c20"  # "ran nothing, "
HEX_FAILURE_IN = "204661696c75726520696e20"  # " Failure in "
HEX_UNEXPECTED = "556e657870656374656420657863657074696f6e"  # "Unexpected exception"


def nontrivial(r):
    return any(l == "t " + HEX_FAILURE_IN or l == "t " + HEX_NOTHING or (l.startswith("out ") and HEX_FAILURE_IN in l)
               for l in r.impl)


def observe(r, rep, prefix=""):
    run = 0        # current run of consecutive tests that recorded a failure
    best = 0
    cur_rethrow, runs_without_e, after_on = False, 0, False     # sequence of runner invocations in the case
    for l in r.impl:
        if l.startswith("> s "):
            w = l.split()
            if len(w) >= 5 and w[4] in FAIL_KINDS:
                rep.count("%sfail.%s.%s" % (prefix, w[3], w[4]))
            elif len(w) >= 7 and w[4] == "checkKind":
                rep.count("%scheckKind.%s.%s" % (prefix, w[5], w[6]))
        elif l.startswith("ended "):
            w = l.split()
            if w[-1] == "1":
                run += 1
                best = max(best, run)
            else:
                run = 0
        elif l == "t " + HEX_ERRORS:
            rep.count(prefix + "summary.Errors")
        elif l == "t " + HEX_OK:
            rep.count(prefix + "summary.OK")
        elif l == "t " + HEX_NOTHING:
            rep.count(prefix + "summary.ran_nothing")
        elif l.startswith("> filter"):
            rep.count(prefix + "with.filter")
        elif l.startswith("> perr"):
            rep.count(prefix + "with.plugin_error")
        elif l.startswith("> cfg"):
            w = l.split()
            rep.count(prefix + "repeat." + w[2])
            rep.count(prefix + "verbosity." + w[3])
            if w[4] == "1":
                rep.count(prefix + "with.run_ignored")
            if w[5] == "1":
                rep.count(prefix + "with.colour")
            if w[6] == "1":
                rep.count(prefix + "with.rethrow_mode")
                cur_rethrow = True
            if len(w) > 7 and w[7] == "1":
                rep.count(prefix + "with.separate_process")
        elif l.startswith("> rethrow "):
            cur_rethrow = l.endswith("1")
            rep.count(prefix + "with.next_runner_" + ("without_e" if cur_rethrow else "with_e"))
        elif l == "> run":
            after_on = (not cur_rethrow) and runs_without_e > 0
            if after_on:
                rep.count(prefix + "branch.runner_with_e_after_runner_without_e")
            if cur_rethrow:
                runs_without_e += 1
        elif after_on and l.startswith("t " + HEX_UNEXPECTED):
            rep.count(prefix + "branch.escaped_exception_under_e_after_runner_without_e")
            after_on = False          # once per invocation
        elif l.startswith("> clock"):
            rep.count(prefix + "with.scripted_clock")
        elif l.startswith("> env "):
            rep.count(prefix + "with.env." + l.split()[2])
        elif l == "> composite":
            rep.count(prefix + "with.composite_output")
        elif l == "> realio":
            rep.count(prefix + "with.real_stdout")
        elif l.startswith("out "):
            if HEX_FAILURE_IN in l:
                rep.count(prefix + "branch.real_stdout_failure_text")
            if "4661696c656420696e2073657061726174652070726f63657373" in l:
                rep.count(prefix + "branch.real_stdout_failed_in_separate_process")
        elif l.startswith("u ") and l == "u " + HEX_FAILURE_IN:
            rep.count(prefix + "branch.composite_output_one_failure")
        elif l in ("t 28", "t 293a"):
            rep.count(prefix + "branch.visual_studio_location")
        elif l == "t 4661696c656420696e2073657061726174652070726f63657373":
            rep.count(prefix + "branch.failed_in_separate_process")
        elif l.startswith("propagated "):
            rep.count(prefix + "branch.exception_left_the_run")
    if best >= 11:
        rep.count(prefix + "branch.consecutive_failing_tests_ge11")
    if best >= 30:
        rep.count(prefix + "branch.consecutive_failing_tests_ge30")


CLASSES = [("the runner crashed", "crash"), ("crash outside a run", "crash"),
           ("phases entered", "lifecycle-phases"), ("an ignored test executed", "lifecycle-phases"),
           ("statements executed", "statement-after-terminator"),
           ("printed failure records", "failure-records"), ("an ignored test printed", "failure-records"),
           ("failures printed after the last test", "failure-records"),
           ("on the real stdout", "real-stdout"), ("real stdout:", "real-stdout"),
           ("output one of the composite", "composite-output"),
           ("jump-buffer depth", "jmp-depth"), ("current test after", "current-test"),
           ("per-test failed flag", "failed-flag"),
           ("summary printed", "summary"), ("summary line", "summary"),
           ("runner returned", "return-value"), ("did not return", "return-value"),
           ("tests were run or skipped", "tests-run"), ("an exception left the runner", "exception-left-the-runner")]


def signature(r):
    """coarse, stable class of a failing case (one VIOLATION per class, also the key for known findings)"""
    if r.crash:
        w = r.crash.split()
        return "crash:" + (w[1] if len(w) > 1 else "?")
    if r.spec and r.spec.startswith("spec FAIL"):
        for key, name in CLASSES:
            if key in r.spec:
                return "spec:" + name
        return "spec:other"
    if not r.agree:
        return "diff"
    return ""


def extra(ctx, exe):
    """second build variant: library and harness compiled with -fno-exceptions; a throw-free stream
    (plus a few programs with throw statements, which that harness drops) through the same driver/oracle"""
    from .. import flow
    import sys
    mod = sys.modules[__name__]
    rep = ctx.rep
    exe2 = core.build_harness(HARNESS, "noexc")
    cases = []
    for path_case in flow.read_corpus(ID):
        cases.append(("noexc-" + path_case[0], path_case[1]))
    gen = stream(ctx.rng, ctx.tier, throw_free=True, scale=0.45)
    gen += [("gen", gen_case(ctx.rng, ctx.rng.choice([2, 5, 10]))) for _ in range(20)]      # with throws: dropped by the harness
    for i, (tag, ops) in enumerate(gen):
        cases.append(("noexc-%s:%d" % (tag, i), ops))
    results, _, _ = flow.run_cases(mod, exe2, cases)
    bad = {}
    for r in results:
        rep.evaluations += 1
        rep.traces += 1
        rep.count("cases.noexc")
        if nontrivial(r):
            rep.distinct.add(hashlib.sha1(("noexc\n" + "\n".join(r.ops)).encode()).hexdigest())
        observe(r, rep, prefix="noexc.")
        if not any(l == "variant noexc" for l in r.impl) and any(l.startswith("> cfg") for l in r.impl):
            rep.violation("C01: the -fno-exceptions build of the harness reports exception support", "", name="noexc", no_input=True)
            return
        if flow.is_impl_failure(mod, r) or not r.agree:
            sig = ("impl:" if flow.is_impl_failure(mod, r) else "diff:") + signature(r)
            cur = bad.get(sig)
            if cur is None or len(r.ops) < len(cur.ops):
                bad[sig] = r
    rep.notes.append("noexc variant: %d cases" % len(results))
    for sig, r in sorted(bad.items())[:3]:
        plain = sig.split(":", 1)[1]
        r2, err = flow.shrink(mod, exe2, r, plain)
        impl = sig.startswith("impl:")
        hdr = ["build variant: -fno-exceptions (CPPUTEST_HAVE_EXCEPTIONS=0); replay: C01_VARIANT=noexc ./check C01 --replay <this file>",
               "kind: " + ("the implementation violates the specification predicate on this input" if impl
                           else "model and implementation disagree (no failing input for the oracle)"),
               "signature: " + plain, "detail: " + flow.describe(r2), "found in case: " + r.id,
               "seed: %d tier: %s" % (ctx.seed, ctx.tier)]
        rep.violation("property C01 %s in the build without exceptions: %s" % (
            "violated by the implementation" if impl else "no longer shown to hold", flow.describe(r2)),
            flow.replay_text(mod, r2, hdr, err), name="noexc", no_input=not impl)


LEVEL_TEXT = ("Machine-checked Lean 4 theorems over an executable model of the runner, for every test program (any number of "
              "tests, any statements in setup/body/teardown), plugin chain, filter set, repeat count, verbosity (-v, -vv), colour "
              "option, stream of clock readings and both build variants, rethrow off: the phases that run and the statements that "
              "execute are exactly the textbook ones (body iff setup completed, teardown always, nothing after a terminating "
              "statement, TEST_EXIT semantics); the setjmp depth is restored after every test and the 10-slot array is never "
              "indexed out of range, by induction over the test list and the repetitions; the failure records of a repetition are "
              "exactly the failing events, in order, each once, with its own file:line, and failureCount is their number; a "
              "reader of the WHOLE console text (every position) gets back exactly these records and one summary per repetition "
              "with the true counts (console_reader_full; console_reader_full_vs for the Visual Studio location format); the "
              "printed verdict condition and TestResult::isFailure (both regenerated) agree, so the summary reads OK iff no failure "
              "and something ran or was ignored; every test is counted once as run, ignored or filtered out; the summary time is "
              "last minus first clock reading; the return value is 0 iff every repetition is fine, below 2^32 failures; in rethrow "
              "mode the first std/foreign exception is recorded once and leaves runAllTests; the statements of initializeTestRun "
              "that write the process-wide static rethrow flag are regenerated and proved to be an unconditional assignment of "
              "the option (initializeTestRun_is_the_source), so every invocation of a sequence of runners in one process has the "
              "outcome of its own command line whatever the earlier ones' options were (invocation_as_if_alone, "
              "with_e_after_any_history, sequence_invocation_outcome). NEW: the code of Utest::run (both "
              "variants: try blocks, statements, guard, every catch clause), of runOneTestInCurrentProcess, of "
              "TestOutput::printFailure and its callees (both formats, layout conditions), of ConsoleTestOutput::printBuffer/flush and "
              "the receiver table of CompositeTestOutput are REGENERATED from the source on every run as data and executed by "
              "small interpreters; theorems prove the interpretation EQUAL to the hand-written model (utestRunGen_eq, "
              "runOneTestInCurrentProcessGen_eq, runOneTestGen_eq, printFailure_is_the_source), so the lifecycle / depth / record "
              "theorems are about the source as it is at check time (regenerated_test_outcome); every print of the console output "
              "is followed by a flush, hence text printed by a process that then _exits (the child of -p) or is killed is on the "
              "stream (printed_text_survives_process_end; flush_is_needed is the converse witness); each output of a "
              "CompositeTestOutput receives every forwarded callback exactly once, in order "
              "(composite_each_output_gets_every_callback). The model is tied to the code on every run by a differential harness "
              "(real CommandLineTestRunner, real macros, ASan/UBSan, both build variants, setjmp depth via hook H1, scripted clock, "
              "a composite sub-mode and a real-stdout sub-mode) whose observations are also judged by an independent specification "
              "oracle, and by the regenerated code/constants with shape checks.")
LEVEL_NOTE = ("Trusted: Lean kernel; the hand-written model of the registry/repeat loops, plugins, counters and progress output "
              "(validated token by token against the code in this run); the interpreters' reading of a statement list; the contract "
              "of setjmp/longjmp/unwinding and of stdio buffering (modelled; depth and real-stdout bytes observed); the extractors; "
              "theorem and spec statements. Not carried by theorems: what the compiled setjmp/longjmp and the unwinder do (observed "
              "under ASan/UBSan on runs of up to 40, thorough 300, consecutive failing tests); the int cast above 2^32 failures "
              "(witness theorems); that FAIL, FAIL_TEST and UtestShell::fail are the same statement of the model is observed by the "
              "harness, not proved; -f (crash on failure) is covered by regenerated statement orders only; the JUnit/TeamCity "
              "writers behind -o are C16/C20.")
TECHNIQUE = "Lean 4 refinement proofs (operational runner model = declarative specification; interpretation of the regenerated code = operational model) + differential correspondence harness in two build variants with composite-output and real-stdout sub-modes + regenerated code, constants and expressions"
