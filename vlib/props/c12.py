"""C12 — command line: every argv is parsed safely and as documented.  Generator and settings."""
ID = "C12"
HARNESS = "h_c12"
# AtoI on more than ten digits overflows `int`: outside the property (DESIGN C12), so UBSan's
# signed-overflow check is off for this harness; everything else of ASan/UBSan is on.
VARIANT = "asan_noub_signed"
KEEP_FIRST = 0

TRUSTED = [
    "Lean 4 kernel; axioms of every theorem audited (propext, Classical.choice, Quot.sound at most)",
    "translate/extract_cmdline_fns.py: token-level statement translator that regenerates, on every run, Lean definitions for "
    "the constructor, getParameterField, setRepeatCount, setShuffle, the eight add...Filter functions, addGroupDotNameFilter, "
    "addTestToRunBasedOnVerboseOutput, setOutputType, setPackageName, the whole body of the for loop of parse(), the getter "
    "table, the output selection of CommandLineTestRunner::parseArguments, initializeTestRun and runAllTests "
    "(Gen/ParseHandlers.lean); every one of them is PROVED equal to the hand-written model for all inputs "
    "(source_parse_eq_model, source_loop_body_eq_step, source_*_eq), so a translator bug that changes the meaning shows up as a "
    "broken proof or as a model/implementation disagreement. What the translator assumes: `(ac, av, i)` are read as the rest "
    "of the argument list and an offset; `av[i] + n` is `drop n`; TestFilter construction / strictMatching / invertMatching / "
    "add are a record, two flags and cons (their bodies are pinned); the `while (loopCount++ < repeatCount)` idiom is a map over "
    "the repetitions",
    "translate/extract_cmdline.py: dispatch table, filter-function table, help()/usage() option lists, plugin facts; pinned by "
    "normalised text only: TestPlugin::parseAllArguments, MemoryReporterPlugin::parseArguments, RunAllTests(ac, av), "
    "runAllTestsMain, the TestFilter helpers",
    "hand-written model lean/CppUModel/Model/CommandLine.lean for what is not regenerated (plugin chain, RunAllTests glue, which "
    "test bodies run, report file names, TeamCity messages, memory formatter choice), tied by the h_c12 correspondence of this run",
    "SimpleString operations (==, startsWith, subString, subStringFromTill, at, split, AtoI, AtoU, contains, replace) compute the "
    "textbook functions of Spec/Text.lean / Spec/CommandLine.lean: that link is property C13 (and Props/C12x.lean for the -t and "
    "TEST( paths); here it is exercised by the correspondence",
    "JUnit file naming (JUnit.createFileName) is C16's model with C16's regenerated constants",
    "the statement of `render`/`meaning` (Spec/CommandLine.lean, written from help()/usage() and DESIGN appendix B)",
    "memory safety of the compiled parser is OBSERVED under ASan/UBSan on the generated vectors, not proved; at model level "
    "stored_strings_from_args shows every stored string is a contiguous part of an argument",
]
ASSUMPTIONS = [
    "argv strings are NUL-terminated byte strings (no embedded NUL), argc >= 1",
    "the plugin chain's answer for a -p<...> argument is a function of that argument; the clock is an input",
    "int is 32 bits with two's complement wrap-around in AtoI (what gcc emits; C leaves it undefined), size_t 64 bits; "
    "size() - 1 on an empty token is never used as a length of a non-empty string (Nat subtraction in the translation)",
    "documented numeric ranges: repeat count 1..2^31-1, shuffle seed 1..2^32-1",
    "a plugin's parseArguments answer is a function of av[index]; plugin names in the registry differ from the two RunAllTests installs",
    "no probe group name ends with '_' (the harness recognises the JUnit file of an empty group block by its name)",
]
RULE = ("clock sweep: bare -s with the clock at 0, 2^32, 2^33, 1, 2^32-1, ... in every run; rendered stream: lists of 0-9 documented options (all 11 option families, attached and separated forms, values "
        "from a vocabulary overlapping the 12-test probe registry plus random identifiers, repeated and shuffled); "
        "malformed stream: raw arguments from arbitrary bytes, lone prefixes, every option literal with random tails, "
        "numbers with signs/blanks/overflow, empty strings, options as last argument, 1-6 kB arguments, mixed with valid "
        "options; combo stream: output kind x verbosity x package x shuffle x repeat x list mode x reverse x one filter as documented "
        "options (what the created outputs show is judged), sometimes with a memory-reporter argument; memrep sweep: 16 spellings of "
        "-pmemoryreport= (twice, embedded, behind another plugin's prefix); resetting sweep: every value option given twice, the second "
        "time in each degenerate form; non-trivial = at least two arguments or a rejection; distinct = distinct argument vectors")


def hx(b):
    if isinstance(b, str):
        b = b.encode("latin-1")
    return b.hex() if b else "-"


GROUPS = ["Alpha", "AlphaBeta", "Beta", "beta", "G1", "Net_IO"]
NAMES = ["one", "two", "onetwo", "One", "t_1", "x"]
PARTS = ["Al", "lpha", "Bet", "eta", "G", "Net", "_IO", "on", "ne", "tw", "t_", "e", "o", "A", "B", "a", "one2", "Alpha1", "_", "x1"]
FLAGS = ["v", "vv", "c", "p", "b", "ri", "f", "e", "ci", "lg", "ln", "ll"]
KINDS = {"sub": "", "strict": "s", "excl": "x", "exclStrict": "xs"}
OUTS = ["normal", "eclipse", "junit", "teamcity"]


def ident(rng, pool):
    x = rng.random()
    if x < 0.55:
        return rng.choice(pool)
    if x < 0.85:
        return rng.choice(PARTS)
    first = "abcdefghijklmnopqrstuvwxyzABCDEFGHIJKLMNOPQRSTUVWXYZ_"
    return rng.choice(first) + "".join(rng.choice(first + "0123456789") for _ in range(rng.randint(0, 8)))


def number(rng, limit):
    x = rng.random()
    if x < 0.5:
        n = rng.choice([1, 2, 3])
    elif x < 0.7:
        n = rng.randint(1, 12)
    elif x < 0.85:
        n = rng.choice([limit - 1, limit - 2, 1000, 65536, 99999])
    else:
        n = rng.randint(1, limit - 1)
    s = str(n)
    if rng.random() < 0.15:
        s = "0" * rng.randint(1, 12) + s
    return s


def spell(form, name, value):
    return [name + value] if form == "A" else [name, value]


def gen_opt(rng, listing_ok=True):
    """one documented option: (description words, [arguments])"""
    form = rng.choice("AS")
    x = rng.random()
    if x < 0.22:
        f = rng.choice(FLAGS if listing_ok else FLAGS[:9])
        return ["A", "flag", f], ["-" + f]
    if x < 0.30:
        if rng.random() < 0.35:
            return ["A", "repeat", "-"], ["-r"]
        n = number(rng, 2 ** 31)
        return [form, "repeat", n], spell(form, "-r", n)
    if x < 0.38:
        if rng.random() < 0.4:
            return ["A", "shuffle", "-"], ["-s"]
        n = number(rng, 2 ** 32)
        return [form, "shuffle", n], spell(form, "-s", n)
    if x < 0.52:
        k = rng.choice(list(KINDS))
        v = ident(rng, GROUPS)
        return [form, "group", k, hx(v)], spell(form, "-" + KINDS[k] + "g", v)
    if x < 0.66:
        k = rng.choice(list(KINDS))
        v = ident(rng, NAMES)
        return [form, "name", k, hx(v)], spell(form, "-" + KINDS[k] + "n", v)
    if x < 0.78:
        k = rng.choice(list(KINDS))
        g, n = ident(rng, GROUPS), ident(rng, NAMES)
        return [form, "test", k, hx(g), hx(n)], spell(form, "-" + KINDS[k] + "t", g + "." + n)
    if x < 0.87:
        ig = rng.random() < 0.4
        g, n = ident(rng, GROUPS), ident(rng, NAMES)
        return ["A", "testform", "1" if ig else "0", hx(g), hx(n)], [("IGNORE_TEST(" if ig else "TEST(") + g + ", " + n + ")"]
    if x < 0.94:
        o = rng.choice(OUTS)
        return [form, "output", o], spell(form, "-o", o)
    v = ident(rng, ["pkg", "my_package", "P1"])
    return [form, "package", hx(v)], spell(form, "-k", v)


def opt_line(desc, args):
    return "opt " + " ".join(desc) + " = " + " ".join(hx(a) for a in args)


def gen_bad(rng):
    """one documented rejection: (description words, [arguments])"""
    form = rng.choice("AS")
    x = rng.random()
    if x < 0.2:
        return ["help"], ["-h"]
    if x < 0.4:
        z = "0" * rng.choice([1, 1, 2, 5])
        return ["seed0", form, z], spell(form, "-s", z)
    if x < 0.65:
        k = rng.choice(list(KINDS))
        parts = [ident(rng, GROUPS + NAMES) for _ in range(rng.choice([1, 1, 3, 3, 4]))]
        v = ".".join(parts)
        return ["tvalue", k, form, hx(v)], spell(form, "-" + KINDS[k] + "t", v)
    if x < 0.8:
        v = ident(rng, ["xml", "Junit", "normal_", "tap", "eclipse2"])
        if v in OUTS:
            v += "_"
        return ["outkind", form, hx(v)], spell(form, "-o", v)
    a = rng.choice(["", "foo", "Alpha", "one", "x", "help", "?", "/h", "*", "a-b", ".", ",", "(", ")", "_", "\xff", "test", "ignore",
                    "t", "i", "v", "\x7f", "\x01", "%s%n", "~"])
    return ["unknown", hx(a)], [a]


def gen_rendered(rng):
    ops = []
    if rng.random() < 0.3:
        ops.append("time %d" % rng.choice(CLOCKS + [77, rng.randint(0, 2 ** 40)]))
    listing_ok = rng.random() < 0.25
    for _ in range(rng.choice([0, 1, 1, 2, 2, 3, 3, 4, 5, 6, 9])):
        desc, args = gen_opt(rng, listing_ok)
        ops.append(opt_line(desc, args))
        if rng.random() < 0.08:        # the same option again
            ops.append(opt_line(desc, args))
    if rng.random() < 0.3:             # a documented rejection, then whatever (never read)
        desc, args = gen_bad(rng)
        ops.append("bad " + " ".join(desc) + " = " + " ".join(hx(a) for a in args))
        for _ in range(rng.choice([0, 0, 1, 2])):
            if rng.random() < 0.5:
                d2, a2 = gen_opt(rng)
                ops.append(opt_line(d2, a2))
            else:
                ops.append("arg " + hx(raw_arg(rng)))
    return ops


LITERALS = ["-h", "-v", "-vv", "-c", "-p", "-b", "-lg", "-ln", "-ll", "-ri", "-f", "-e", "-ci", "-r", "-g", "-t", "-st",
            "-xt", "-xst", "-sg", "-xg", "-xsg", "-n", "-sn", "-xn", "-xsn", "-s", "TEST(", "IGNORE_TEST(", "-o", "-p", "-k"]
LONE = ["-", "--", "-s", "-t", "TEST(", "TEST(a", "TEST(a,", "TEST(a, ", "TEST(a, b", "TEST(a,b)", "TEST(,)", "TEST()", "TEST(, )",
        "TEST(a))", "TEST(a, b, c)", "TEST(abc", "IGNORE_TEST(", "IGNORE_TEST(abc", "IGNORE_TEST(a, b", "TEST", "IGNORE_TEST", "-t.",
        "-t", "a.b.c", "-ta.b.c", "-t.b", "-ta.", "-ta.b.", "-t..", "-ta..b", "-st", "-xt", "-xst", "-x", "-xs", "-l", "-o", "-ox",
        "-onormal ", "-oJUnit", "-k", "-r", "-r0", "-r-1", "-r+3", "-r 2", "-rx", "-ri1", "-s0", "-s00", "-sx", "-s-1", "-s 5",
        "-s4294967296", "-s4294967297", "-r4294967296", "-r2147483648", "-r99999999999", "-r-2147483648", "-pacc", "-paccX",
        "-pfoo", "-pp", "-pb", "-pbx", "-pc", "-pc1", "-pmemoryreport=", "-pmemoryreport=normal", "-pmemoryreport=zz",
        "-pxmemoryreport=", "-pb-pmemoryreport=", "-vvv", "-ci ", "-H", "", " ", ".", ",", ")", "(", "0", "1", "3", "-1", "+2", " 4", "\t2", "007", "12abc",
        "Alpha", "one", "Alpha.one", "-g", "-sg", "-xg", "-xsg", "-n", "-sn", "-xn", "-xsn"]


def raw_arg(rng):
    x = rng.random()
    if x < 0.30:
        return rng.choice(LONE).encode("latin-1")
    if x < 0.50:
        lit = rng.choice(LITERALS)
        tail = rng.choice(["", "", "x", "0", "1", "3", ".", "a.b", "a.b.c", ",", "g, n)", "Alpha", "one", "Alpha.one", " ", "-",
                           "\xff", "t", "s", "g", "n", "i", "(", "Alpha, x)", "junit", "teamcity", "normal", "eclipse", "acc", "b", "c", "memoryreport=x"])
        return (lit + tail).encode("latin-1")
    if x < 0.62:
        return bytes(rng.randint(1, 255) for _ in range(rng.choice([0, 1, 1, 2, 3, 5, 8, 20])))
    if x < 0.70:
        sign = rng.choice(["", "", "-", "+", " ", "\t", " -", "  +"])
        digits = "".join(rng.choice("0123456789") for _ in range(rng.choice([1, 1, 2, 3, 9, 10, 11, 12, 20])))
        return (sign + digits + rng.choice(["", "", "x", " "])).encode("latin-1")
    if x < 0.76:
        n = rng.choice([1000, 2048, 4097, 6000])
        base = rng.choice(["a", "a.", "a,", "TEST(", "-g", "-t", "-r1", "-s9", ")", "\xfe"])
        s = (base * (n // len(base) + 1))[:n]
        return (rng.choice(["", "-g", "-t", "TEST(", "IGNORE_TEST(", "-k", "-o", "-s", "-r", "-p"]) + s).encode("latin-1")
    # a valid option (as raw arguments)
    desc, args = gen_opt(rng)
    return rng.choice(args).encode("latin-1")


def gen_malformed(rng):
    ops = []
    if rng.random() < 0.3:
        ops.append("time %d" % rng.choice([0, 4294967296, 5, rng.randint(0, 2 ** 40)]))
    for _ in range(rng.choice([1, 1, 2, 2, 3, 4, 6])):
        if rng.random() < 0.25:
            desc, args = gen_opt(rng)
            for a in args:
                ops.append("arg " + hx(a))
        else:
            ops.append("arg " + hx(raw_arg(rng)))
    return ops


def gen_prefix_sweep():
    """every literal of the chain alone, as last argument, followed by a value, and with an attached tail"""
    out = []
    for lit in LITERALS:
        for tail in ([], ["Alpha"], ["3"], ["0"], ["a.b"], ["g, n)"], ["-v"], [""]):
            out.append(["arg " + hx(lit)] + ["arg " + hx(t) for t in tail])
        for att in ("A", "3", "a.b", "g, n)", ".", "\xff"):
            out.append(["arg " + hx(lit + att)])
    return out


CLOCKS = [0, 2 ** 32, 2 ** 33, 1, 2 ** 32 - 1, 2 ** 32 + 1, 3 * 2 ** 32]


def gen_clock_sweep(rng):
    """bare -s (no seed) with the platform clock at 0, multiples of 2^32 and their neighbours: the default seed
    is the clock truncated to unsigned int and must never be 0 (documented: -s [<seed>] shuffles)"""
    out = []
    bare = opt_line(["A", "shuffle", "-"], ["-s"])
    for t in CLOCKS:
        around = [[], [opt_line(["A", "flag", "v"], ["-v"])], [opt_line(["A", "group", "sub", hx("Alpha")], ["-gAlpha"])]]
        for before in around:
            for after in around:
                out.append(["time %d" % t] + before + [bare] + after)
        out.append(["time %d" % t, bare, bare])
        # a random documented option list with a bare -s somewhere in it
        ops = [opt_line(*gen_opt(rng, False)) for _ in range(rng.randint(0, 4))]
        ops.insert(rng.randint(0, len(ops)), bare)
        out.append(["time %d" % t] + ops)
    return out


MEMREP = ["-pmemoryreport=normal", "-pmemoryreport=code", "-pmemoryreport=", "-pmemoryreport=zz", "-pmemoryreport=Normal",
          "-pmemoryreport=normal ", "-pmemoryreport=codecode", "-pmemoryreport=-pmemoryreport=code", "-px-pmemoryreport=normal",
          "-pmemoryreport=nor-pmemoryreport=mal", "-p-pmemoryreport=", "-pmemoryreport", "-pmemoryreport=code-pmemoryreport=",
          "-pacc-pmemoryreport=code", "-pb-pmemoryreport=normal", "-pc-pmemoryreport=normal"]


def gen_combo(rng):
    """two to five features that meet in the runner: output kind x verbosity x package x shuffle x repeat x list mode x
    reverse x colour, as documented options (so the oracle judges what the created outputs show)"""
    ops = []
    if rng.random() < 0.5:
        ops.append("time %d" % rng.choice(CLOCKS + [77, 123456789012]))
    opts = []
    o = rng.choice(OUTS + ["junit", "junit", "teamcity", None])
    if o:
        f = rng.choice("AS")
        opts.append(([f, "output", o], spell(f, "-o", o)))
    if rng.random() < 0.6:
        f = rng.choice("AS")
        v = ident(rng, ["pkg", "my_package", "P1"])
        opts.append(([f, "package", hx(v)], spell(f, "-k", v)))
    if rng.random() < 0.5:
        fl = rng.choice(["v", "vv", "v", "c"])
        opts.append((["A", "flag", fl], ["-" + fl]))
    if rng.random() < 0.6:
        if rng.random() < 0.4:
            opts.append((["A", "shuffle", "-"], ["-s"]))
        else:
            f = rng.choice("AS")
            n = number(rng, 2 ** 32)
            opts.append(([f, "shuffle", n], spell(f, "-s", n)))
    if rng.random() < 0.6:
        if rng.random() < 0.3:
            opts.append((["A", "repeat", "-"], ["-r"]))
        else:
            f = rng.choice("AS")
            n = rng.choice(["1", "2", "3", "3", "02", "4"])
            opts.append(([f, "repeat", n], spell(f, "-r", n)))
    if rng.random() < 0.2:
        fl = rng.choice(["lg", "ln", "ll"])
        opts.append((["A", "flag", fl], ["-" + fl]))
    if rng.random() < 0.3:
        opts.append((["A", "flag", "b"], ["-b"]))
    if rng.random() < 0.3:
        k = rng.choice(list(KINDS))
        v = ident(rng, GROUPS)
        f = rng.choice("AS")
        opts.append(([f, "group", k, hx(v)], spell(f, "-" + KINDS[k] + "g", v)))
    rng.shuffle(opts)
    for d, a in opts:
        ops.append(opt_line(d, a))
    if rng.random() < 0.25:          # a plugin argument of the memory reporter among them (raw: the case is then judged
        ops.insert(rng.randint(0, len(ops)), "arg " + hx(rng.choice(MEMREP)))      # by the general oracle + correspondence)
    return ops


def gen_resetting_sweep():
    """state surviving inside one vector: every value option given twice, the second time in each of its degenerate
    forms (as last argument, followed by an empty argument, followed by another option, attached empty-ish values)"""
    first = {"-k": ["-kpkg", "-k pkg"], "-o": ["-ojunit", "-o teamcity"], "-r": ["-r3", "-r 3"], "-s": ["-s5", "-s 7"],
             "-g": ["-gAlpha"], "-sn": ["-sn one"], "-t": ["-tAlpha.one"], "-xst": ["-xst Beta.two"], "TEST(": ["TEST(Alpha, one)"]}
    out = []
    for lit, firsts in first.items():
        for f in firsts:
            for second in ([lit], [lit, ""], [lit, "-v"], [lit, "0"], [lit + " "], [lit, lit]):
                out.append(["arg " + hx(a) for a in f.split(" ") if lit != "TEST("] if False else
                           (["arg " + hx(f)] if lit == "TEST(" else ["arg " + hx(a) for a in f.split(" ")]) +
                           ["arg " + hx(a) for a in second])
    return out


def gen_memrep_sweep():
    out = []
    for a in MEMREP:
        out.append(["arg " + hx(a)])
        out.append(["arg " + hx("-v"), "arg " + hx(a), "arg " + hx("-ojunit")])
    return out


def generate(rng, tier):
    n = 1500 if tier == "quick" else 20000
    out = []
    for _ in range(n):
        out.append(("rendered", gen_rendered(rng)))
    for _ in range(n):
        out.append(("malformed", gen_malformed(rng)))
    for ops in gen_prefix_sweep():
        out.append(("sweep", ops))
    for ops in gen_clock_sweep(rng):
        out.append(("clock", ops))
    for _ in range(500 if tier == "quick" else 3000):
        out.append(("combo", gen_combo(rng)))
    for ops in gen_memrep_sweep():
        out.append(("memrep", ops))
    for ops in gen_resetting_sweep():
        out.append(("resetting", ops))
    return out


def translate(ctx):
    from translate import extract_cmdline, extract_cmdline_fns
    problems = extract_cmdline.run() or []
    problems += extract_cmdline_fns.run() or []
    return problems


def ignore_line(l):
    # answers of the plugin chain are environment inputs of the model, not model output
    return l.startswith("plugin ")


def signature(r):
    """stable class of a failing case (used for shrinking and for matching known findings)"""
    if r.crash:
        w = r.crash.split()
        return "crash:" + (w[1] if len(w) > 1 else "?")
    if r.spec and r.spec.startswith("spec FAIL"):
        msg = r.spec[len("spec FAIL"):].strip()
        return "spec:" + msg.split(":")[0].strip()[:60]
    if not r.agree:
        return "diff"
    return ""


def nontrivial(r):
    nargs = sum(1 for l in r.ops if l.startswith("arg ") or l.startswith("opt ") or l.startswith("bad "))
    return nargs >= 2 or any(l == "result reject" for l in r.impl)


def observe(r, rep):
    for l in r.impl:
        if l.startswith("result "):
            rep.count("branch." + l.replace(" ", "_"))
        elif l.startswith("gfilter "):
            rep.count("branch.group_filter_added")
        elif l.startswith("nfilter "):
            rep.count("branch.name_filter_added")
        elif l == "shuffling 1":
            rep.count("branch.shuffle")
        elif l == "skipped":
            rep.count("branch.runner_skipped_repeat_gt_3")
        elif l.startswith("chain "):
            rep.count("branch.plugin_chain_" + l.split()[-1])
        elif l == "printed help":
            rep.count("branch.help_printed")
        elif l == "printed usage":
            rep.count("branch.usage_printed")
        elif l.startswith("ran ") and not l.endswith(" -"):
            rep.count("branch.tests_ran")
        elif l.startswith("repeat ") and l not in ("repeat 1",):
            rep.count("branch.repeat_set")
        elif l.startswith("output ") and "eclipse=1" not in l:
            rep.count("branch.output_junit_or_teamcity")
        elif l.startswith("seedline ") and l != "seedline -":
            rep.count("branch.seed_announced")
        elif l.startswith("runheaders ") and l != "runheaders -":
            rep.count("branch.test_run_headers_" + str(l.count("/")))
        elif l.startswith("files ") and l != "files -":
            rep.count("branch.junit_files_written")
        elif l == "teamcity 1":
            rep.count("branch.teamcity_messages")
        elif l.startswith("memformatter "):
            rep.count("branch.memformatter_" + l.split()[-1])
    for l in r.ops:
        w = l.split()
        if w and w[0] == "opt" and len(w) > 2:
            rep.count("opt.%s.%s" % (w[2], w[1]))
        elif w and w[0] == "bad" and len(w) > 1:
            rep.count("bad." + w[1])


LEVEL_TEXT = ("Machine-checked Lean 4 theorems (88 + 8 composition theorems, axioms propext/Classical.choice/Quot.sound at most) over an "
              "executable model of CommandLineArguments::parse and of the runner that applies the configuration, AND over a "
              "statement-level translation of the source regenerated on every run. Proved for ALL inputs, no bound: "
              "source_parse_eq_model (the constructor's configuration followed by the for loop over the indices with the translated loop "
              "body computes the hand-written model's parse on every argument vector), source_loop_body_eq_step (the whole if/else-if "
              "chain of parse() with its statements = the model's step), one equality per helper (getParameterField, setRepeatCount, "
              "setShuffle, the eight add...Filter functions, addGroupDotNameFilter, addTestToRunBasedOnVerboseOutput, setOutputType, "
              "setPackageName), the getter table, the output selection of CommandLineTestRunner::parseArguments, initializeTestRun "
              "(verbosity, colour, separate process, run-ignored, crash-on-fail, rethrow) and runAllTests (calls to the registry, seed "
              "line, run headers) — so the following hold for what the source says at check time: parse_render / source_parse_render "
              "(every list of documented options, any order and multiplicity, attached or separated form, arbitrary identifier-like "
              "values, counts 1..2^31-1, seeds 1..2^32-1: accepted, configuration = the documented meaning, outputs created = the "
              "documented ones), by the per-option step lemma parse_step and induction; -h / unknown arguments / seed 0 (both forms) / "
              "-t values without exactly one separating dot (exact characterisation t_accept_iff) / unknown -o kinds are rejected with "
              "the state the help-vs-usage decision needs; TEST(g, n) and IGNORE_TEST(g, n) give strict filters, the unterminated "
              "TEST(abc form is accepted harmlessly; totality for every byte-string argument vector and stored_strings_from_args (every "
              "stored filter text / package name is a contiguous part of an argument); a rejected vector prints help/usage, writes no "
              "report file and runs nothing, an accepted one runs exactly the selected tests repeat times (reversed with -b, ignored "
              "ones only with -ri); a shuffle seed announced for documented options is never 0 (shuffle_seed_never_zero_documented, "
              "seed_line_documented_nonzero); with -ojunit every group with a selected test gets a report file whose name carries the "
              "-k package and no file is written otherwise (junit_files_carry_package, junit_selected_group_has_file); TeamCity "
              "messages iff -oteamcity; -pmemoryreport=<type>: the option text is stripped, normal/code choose the formatter, anything "
              "else none. Also proved: the plugin chain for -p<x> (asked head first until the first accepts; default plugins refuse; only "
              "MemoryReporterPlugin overrides, regenerated), the RunAllTests(ac, av) glue (leak and pointer plugins installed and removed "
              "around every outcome, -h returns 1 without running, return value), every value option as last argument or followed by an "
              "empty argument, and that help() and usage() each mention exactly the options of the Opt datatype (plus -h) and every "
              "mentioned option is dispatched, every dispatched branch mentioned. The model is additionally tied to the code by a "
              "differential harness running the real parser, CommandLineTestRunner and the static RunAllTests (real JUnit / TeamCity / "
              "console outputs, files stubbed) under ASan/UBSan on rendered, documented-rejection, combination and malformed vectors; an "
              "oracle written only against render/meaning judges the implementation's own observations. Memory safety of the compiled "
              "parser is observed (ASan), not proved.")
LEVEL_NOTE = ("Trusted: Lean kernel; the statement translator's reading of C++ idioms (argument indexing as list offset, TestFilter "
              "helpers, the repeat-loop idiom) — its output is proved equal to the independently hand-written model and both are run "
              "against the code; the hand-written model for the parts not regenerated (plugin chain, RunAllTests glue, test "
              "selection, file names); that SimpleString implements the textbook string functions of Spec/Text.lean and AtoI/AtoU as "
              "stated in Spec/CommandLine.lean (property C13; exercised here by the correspondence, including the 32-bit wrap-around); "
              "the statement of render/meaning (from help()/usage()). Only observed: list-mode output text, the contents of report "
              "files, MemoryReporterPlugin's pre/post actions. Partial: 'touches no memory outside its inputs' holds for the model by "
              "construction and by stored_strings_from_args, for the compiled code only by ASan/UBSan runs (signed-overflow check "
              "off: AtoI on >10 digits is outside the property).")
TECHNIQUE = ("Lean 4 proofs (induction over option lists, per-option step lemma, invariants of the parse loop, refinement of the "
             "index loop of the regenerated source to the list recursion of the model, equality of every regenerated function with "
             "its hand model) over an executable model + statement-level C++-to-Lean translator run on every check + differential "
             "correspondence harness under ASan/UBSan with real outputs")
