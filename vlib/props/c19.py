"""C19 — the C mocking interface behaves like the C++ one: generator and property-specific settings.

Scenario language (see harness/h_c19.cpp): one C-level operation per line,
    M0 | M <scope>      mock_c() / mock_scope_c(scope)
    S <member> <args>   through the MockSupport_c table      E ... expected-call table      A ... actual-call table
The harness runs every scenario through the C++ interface (x-run) and through the C interface (c-run)."""
import re, struct

ID = "C19"
HARNESS = "h_c19"
KEEP_FIRST = 0
SHRINK_BUDGET = 300

# --------------------------------------------------------------------------------------------- value kinds
INT_MAX, INT_MIN, UINT_MAX = 2**31 - 1, -2**31, 2**32 - 1
LONG_MAX, LONG_MIN, ULONG_MAX = 2**63 - 1, -2**63, 2**64 - 1


def dbits(x):
    return struct.pack(">d", x).hex()


DOUBLES = [dbits(0.0), dbits(-0.0), dbits(1.0), dbits(-1.5), dbits(0.1), dbits(1.7976931348623157e308), dbits(2.2250738585072014e-308),
           "0000000000000001", "7ff0000000000000", "fff0000000000000", "7ff8000000000000", dbits(1e-300), dbits(3.14159)]
TOLERANCES = [dbits(0.0), dbits(0.5), dbits(1e-9), "7ff0000000000000", "7ff8000000000000", dbits(1e300)]
STRINGS = [b"", b"a", b"hello world", b"tab\there", b"\xff\x80\x01", b"x" * 100, b"%s%d%n", b"line\nbreak", b"hello", b"Hello"]
POINTERS = [0, 1, 0xdeadbeef, 2**64 - 1, 2**63, 4096]
BUFFERS = [b"", b"\x00", b"\x00\x01\xff", b"abc", bytes(range(20)), b"\xa5" * 16]
NAMES = [b"a", b"b", b"value", b"p1", b"", b"name with space", b"x" * 40, b"out"]
FUNCS = [b"foo", b"bar", b"f", b"g", b"", b"a_rather_long_function_name_for_the_report"]
SCOPES = [None, b"s1", b"s2", b"a::b"]          # None = mock_c(); "a::b": a scope name that looks nested (it is one name)
TYPES = [b"Obj", b"Other"]

# stem in member names, stem in getter names, argument kind char of the harness, boundary values
KINDS = [
    ("Bool", "bool", "i", [0, 1, -1, 2, 256, INT_MIN, INT_MAX]),
    ("Int", "int", "i", [0, 1, -1, INT_MAX, INT_MIN, 42]),
    ("UnsignedInt", "unsignedInt", "u", [0, 1, UINT_MAX, INT_MAX, INT_MAX + 1, 42]),
    ("LongInt", "longInt", "l", [0, 1, -1, LONG_MAX, LONG_MIN, INT_MAX + 1, INT_MIN - 1, 42]),
    ("UnsignedLongInt", "unsignedLongInt", "U", [0, 1, ULONG_MAX, LONG_MAX, LONG_MAX + 1, UINT_MAX + 1, 42]),
    ("LongLongInt", "longLongInt", "q", [0, 1, -1, LONG_MAX, LONG_MIN, INT_MAX + 1, 42]),
    ("UnsignedLongLongInt", "unsignedLongLongInt", "Q", [0, 1, ULONG_MAX, LONG_MAX + 1, UINT_MAX, 42]),
    ("Double", "double", "d", DOUBLES),
    ("String", "string", "n", STRINGS),
    ("Pointer", "pointer", "p", POINTERS),
    ("ConstPointer", "constPointer", "p", POINTERS),
    ("FunctionPointer", "functionPointer", "p", POINTERS),
]
KIND = {k[0]: k for k in KINDS}
DATA_KINDS = ["Bool", "Int", "UnsignedInt", "String", "Double", "Pointer", "ConstPointer", "FunctionPointer"]
INTEGER_KINDS = ["Int", "UnsignedInt", "LongInt", "UnsignedLongInt", "LongLongInt", "UnsignedLongLongInt"]


def hx(b):
    return b.hex() if b else "-"


def tok(kind, v):
    """token of value v of a kind"""
    ch = KIND[kind][2]
    if ch == "n":
        return hx(v)
    return str(v)


def pick(rng, kind):
    return rng.choice(KIND[kind][3])


# every member of the three tables (for the histogram and the sweep)
def all_entries():
    e = []
    for k in KINDS:
        e.append("E.with%sParameters" % k[0]); e.append("A.with%sParameters" % k[0]); e.append("E.andReturn%sValue" % k[0])
        for t in "AS":
            e.append("%s.%sReturnValue" % (t, k[1])); e.append("%s.return%sValueOrDefault" % (t, k[0]))
    e += ["E.withDoubleParametersAndTolerance", "E.withMemoryBufferParameter", "E.withParameterOfType", "E.withOutputParameterReturning",
          "E.withOutputParameterOfTypeReturning", "E.withUnmodifiedOutputParameter", "E.ignoreOtherParameters",
          "A.withMemoryBufferParameter", "A.withParameterOfType", "A.withOutputParameter", "A.withOutputParameterOfType",
          "A.hasReturnValue", "A.returnValue", "S.hasReturnValue", "S.returnValue",
          "S.strictOrder", "S.expectOneCall", "S.expectNoCall", "S.expectNCalls", "S.actualCall"]
    e += ["S.set%sData" % k for k in DATA_KINDS]
    e += ["S.setDataObject", "S.setDataConstObject", "S.getData", "S.disable", "S.enable", "S.ignoreOtherCalls", "S.checkExpectations",
          "S.expectedCallsLeft", "S.clear", "S.crashOnFailure", "S.installComparator", "S.installCopier", "S.removeAllComparatorsAndCopiers"]
    return e


ENTRIES = all_entries()
assert len(ENTRIES) == 31 + 42 + 52, len(ENTRIES)


# --------------------------------------------------------------------------------------------- scenario builder
class Scn:
    """builds one scenario and keeps the little state needed to stay inside the class of scenarios on which the
    two interfaces are expected to agree (`aligned`): a return-value getter is asked only while the scope selected
    last is the one the last actual call was made on, and that call was a checked one."""

    def __init__(self, rng):
        self.rng = rng
        self.ops = []
        self.cur = "unset"
        self.exp = {}            # scope -> list of expectations {name, params, outs, ret, n}
        self.act_scope = "none"  # scope of the static actual call
        self.act_checked = False
        self.enabled = True
        self.ignore_others = False
        self.comparators = set()
        self.copiers = set()
        self.typed_pending = False      # an expectation holds a comparator/copier: removeAll would leave it dangling (C only)
        self.have_ec = False
        self.have_ac = False

    def op(self, *w):
        self.ops.append(" ".join(str(x) for x in w))

    def scope(self, s):
        if s is None:
            self.op("M0") if self.rng.random() < 0.8 else self.op("M", "-")
        else:
            self.op("M", hx(s))
        self.cur = s

    def ensure_scope(self, s=None, switch=0.0):
        if self.cur == "unset" or self.cur != s or self.rng.random() < switch:
            self.scope(s)

    # ---- parameters
    def rand_param(self, allow_typed=True):
        r = self.rng.random()
        name = self.rng.choice(NAMES)
        if r < 0.70:
            k = self.rng.choice(KINDS)[0]
            return {"name": name, "k": k, "v": pick(self.rng, k)}
        if r < 0.78:
            if self.rng.random() < 0.3:
                return {"name": name, "k": "Tol", "v": self.rng.choice(DOUBLES), "tol": self.rng.choice(TOLERANCES)}
            # value and tolerance chosen so that their ORDER matters: negative and zero expected values, |value| >> tolerance,
            # actual values inside the tolerance, just outside it, and far off (but inside tolerance +- value)
            v = self.rng.choice([-1000.0, -5.0, 0.0, 5.0, 1000.0, 1e6, -0.25])
            tol = self.rng.choice([0.5, 0.0, 2.0, 1e-9, 0.5])
            av = v + self.rng.choice([0.0, tol / 2, -tol / 2, 2 * tol + 1e-3, -(2 * tol + 1e-3), abs(v) / 2, -abs(v) / 2, 3.0])
            return {"name": name, "k": "Tol", "v": dbits(v), "tol": dbits(tol), "av": dbits(av)}
        if r < 0.88:
            b = self.rng.choice(BUFFERS)
            return {"name": name, "k": "Buf", "v": b, "size": self.rng.choice([len(b), len(b), max(0, len(b) - 1)])}
        if allow_typed:
            # custom-type objects o0..o5 are plain (equal by key: o0~o1, o2~o3, o4~o5), o6 and o7 are patterns.  The
            # comparator is asymmetric (only an EXPECTED pattern matches anything), so the operand order the adaptor
            # node passes on matters: expected pattern / actual plain passes, expected plain / actual pattern fails.
            x = self.rng.random()
            if x < 0.35:
                v, av = self.rng.choice([6, 7]), self.rng.randrange(6)          # expected <any>, actual plain: equal
            elif x < 0.50:
                v, av = self.rng.randrange(6), self.rng.choice([6, 7])          # expected plain, actual <any>: NOT equal
            elif x < 0.60:
                v, av = self.rng.choice([6, 7]), self.rng.choice([6, 7])
            elif x < 0.85:
                v = self.rng.randrange(6); av = v ^ 1                             # same key, another object
            else:
                v = av = self.rng.randrange(8)
            return {"name": name, "k": "Typed", "type": self.rng.choice([b"Obj", b"Obj", b"Obj", b"Other"]), "v": v, "av": av}
        return {"name": name, "k": "Int", "v": 7}

    def emit_expected_param(self, p):
        k = p["k"]
        if k == "Tol":
            self.op("E", "withDoubleParametersAndTolerance", hx(p["name"]), p["v"], p["tol"])
        elif k == "Buf":
            self.op("E", "withMemoryBufferParameter", hx(p["name"]), hx(p["v"]), p["size"])
        elif k == "Typed":
            if p["type"] == b"Obj" and b"Obj" not in self.comparators and self.rng.random() < 0.8:
                # the comparator is looked up when the parameter is set
                self.op("S", "installComparator", hx(b"Obj")); self.comparators.add(b"Obj")
            self.op("E", "withParameterOfType", hx(p["type"]), hx(p["name"]), "o%d" % p["v"])
            self.typed_pending = True
        else:
            self.op("E", "with%sParameters" % k, hx(p["name"]), tok(k, p["v"]))

    def emit_actual_param(self, p):
        k = p["k"]
        if k == "Tol":
            self.op("A", "withDoubleParameters", hx(p["name"]), p.get("av", p["v"]))
        elif k == "Buf":
            self.op("A", "withMemoryBufferParameter", hx(p["name"]), hx(p["v"]), p["size"])
        elif k == "Typed":
            self.op("A", "withParameterOfType", hx(p["type"]), hx(p["name"]), "o%d" % p.get("av", p["v"]))
        else:
            self.op("A", "with%sParameters" % k, hx(p["name"]), tok(k, p["v"]))

    # ---- blocks
    def install_types(self):
        if self.rng.random() < 0.8 and b"Obj" not in self.comparators:
            self.op("S", "installComparator", hx(b"Obj")); self.comparators.add(b"Obj")
        if self.rng.random() < 0.7 and b"Obj" not in self.copiers:
            self.op("S", "installCopier", hx(b"Obj")); self.copiers.add(b"Obj")

    def expect(self, scope, name=None, nparams=None, with_ret=None):
        rng = self.rng
        self.ensure_scope(scope, 0.3)
        name = rng.choice(FUNCS) if name is None else name
        e = {"name": name, "params": [], "outs": [], "ret": None, "n": 1, "ignore": False}
        r = rng.random()
        if r < 0.70:
            self.op("S", "expectOneCall", hx(name))
        elif r < 0.92:
            e["n"] = rng.choice([0, 1, 2, 2, 3])
            self.op("S", "expectNCalls", e["n"], hx(name))
        else:
            e["n"] = 0
            self.op("S", "expectNoCall", hx(name))
            self.exp.setdefault(scope, []).append(e)
            return e
        self.have_ec = True
        seen = set()
        for _ in range(rng.choice([0, 1, 1, 2, 3]) if nparams is None else nparams):
            p = self.rand_param()
            if p["name"] in seen:
                continue
            seen.add(p["name"])
            e["params"].append(p)
            self.emit_expected_param(p)
        if rng.random() < 0.25:
            oname = rng.choice([b"out", b"o2"])
            if oname not in seen:
                seen.add(oname)
                r = rng.random()
                if r < 0.5:
                    b = rng.choice([x for x in BUFFERS if len(x) <= 16])
                    o = {"name": oname, "k": "bytes", "v": b, "size": rng.choice([len(b), len(b), max(0, len(b) - 1)])}
                    self.op("E", "withOutputParameterReturning", hx(oname), hx(b), o["size"])
                elif r < 0.8:
                    o = {"name": oname, "k": "typed", "type": rng.choice(TYPES), "v": rng.randrange(8)}
                    self.op("E", "withOutputParameterOfTypeReturning", hx(o["type"]), hx(oname), "o%d" % o["v"])
                    self.typed_pending = True
                else:
                    o = {"name": oname, "k": "unmodified"}
                    self.op("E", "withUnmodifiedOutputParameter", hx(oname))
                e["outs"].append(o)
        if rng.random() < 0.12:
            self.op("E", "ignoreOtherParameters"); e["ignore"] = True
        if (rng.random() < 0.6) if with_ret is None else with_ret:
            k = rng.choice(KINDS)[0]
            e["ret"] = (k, pick(rng, k))
            self.op("E", "andReturn%sValue" % k, tok(k, e["ret"][1]))
        self.exp.setdefault(scope, []).append(e)
        return e

    def getters(self, e, aligned_support=True):
        """ask for the return value in several ways; only while aligned"""
        rng = self.rng
        set_kind = e["ret"][0] if e and e.get("ret") else None
        for _ in range(rng.choice([1, 2, 3, 4])):
            t = "A" if (rng.random() < 0.5 or not aligned_support) else "S"
            if t == "A" and not self.have_ac:
                continue
            if rng.random() < 0.2 and self.cur != "unset":
                # a scope switch between the call and the getter, and back again: still aligned
                back = self.cur
                other = rng.choice([x for x in SCOPES if x != back])
                self.scope(other)
                self.op("S", "getData", hx(rng.choice([b"d1", b"missing"])))
                self.scope(back)
            r = rng.random()
            if r < 0.12:
                self.op(t, "hasReturnValue")
            elif r < 0.28:
                self.op(t, "returnValue")
            else:
                # same kind as set (mostly), a compatible integer kind, or a different kind (fails the test: type check)
                x = rng.random()
                if set_kind and x < 0.72:
                    k = set_kind
                elif set_kind in INTEGER_KINDS and x < 0.87:
                    k = rng.choice(INTEGER_KINDS)
                elif x < 0.93:
                    k = rng.choice(KINDS)[0]
                else:
                    k = set_kind or "Int"
                if rng.random() < 0.5:
                    self.op(t, "%sReturnValue" % KIND[k][1])
                else:
                    self.op(t, "return%sValueOrDefault" % k, tok(k, pick(rng, k)))

    def actual(self, scope, e=None, fault=None, ask=True):
        """an actual call in `scope`; e = the expectation it is meant to match (None: unexpected call)"""
        rng = self.rng
        self.ensure_scope(scope, 0.3)
        name = e["name"] if e else rng.choice(FUNCS)
        if fault == "name":
            name = name + b"X"
        self.op("S", "actualCall", hx(name))
        self.have_ac = True
        names = [x["name"] for x in self.exp.get(scope, [])]
        self.act_scope = scope
        self.act_checked = self.enabled and (not self.ignore_others or name in names)
        params = list(e["params"]) if e else []
        rng.shuffle(params)
        if fault == "missing" and params:
            params.pop()
        for p in params:
            q = dict(p)
            if fault == "value" and p is params[0]:
                if q["k"] in KIND:
                    alt = [v for v in KIND[q["k"]][3] if v != q["v"]]
                    q["v"] = rng.choice(alt)
                elif q["k"] == "Buf":
                    q["v"] = q["v"] + b"!" ; q["size"] = len(q["v"])
                elif q["k"] == "Typed":
                    q["av"] = (q["v"] + 2) % 6 if q["v"] < 6 else q["av"]
                else:
                    q["v"] = q["av"] = dbits(12345.0)
            if fault == "type" and p is params[0] and q["k"] in KIND:
                q["k"] = rng.choice([k for k in KIND if k != q["k"]]); q["v"] = pick(rng, q["k"])
            if fault is None and q["k"] in INTEGER_KINDS and rng.random() < 0.15:
                # same number through another integer type (C09: compared by value)
                for k2 in rng.sample(INTEGER_KINDS, len(INTEGER_KINDS)):
                    if q["v"] in KIND[k2][3] or (0 <= q["v"] <= INT_MAX):
                        q["k"] = k2
                        break
            self.emit_actual_param(q)
        if fault == "extra":
            self.emit_actual_param(self.rand_param(allow_typed=False))
        for o in (e["outs"] if e else []):
            b = "b%d" % rng.randrange(4)
            if o["k"] == "typed":
                self.op("A", "withOutputParameterOfType", hx(o["type"]), hx(o["name"]), b)
            elif fault == "outtype":
                self.op("A", "withOutputParameterOfType", hx(b"Obj"), hx(o["name"]), b)
            else:
                self.op("A", "withOutputParameter", hx(o["name"]), b)
        if ask and rng.random() < 0.85:
            self.getters(e, aligned_support=self.act_checked and self.cur == self.act_scope)

    def data_ops(self):
        rng = self.rng
        self.ensure_scope(rng.choice(SCOPES), 0.2)
        for _ in range(rng.choice([1, 2, 3])):
            name = rng.choice([b"d1", b"d2", b"", b"data name"])
            r = rng.random()
            if r < 0.55:
                k = rng.choice(DATA_KINDS)
                self.op("S", "set%sData" % k, hx(name), tok(k, pick(rng, k)))
            elif r < 0.65:
                self.op("S", "setDataObject", hx(name), hx(rng.choice(TYPES)), "o%d" % rng.randrange(8))
            elif r < 0.75:
                self.op("S", "setDataConstObject", hx(name), hx(rng.choice(TYPES)), "o%d" % rng.randrange(8))
            else:
                self.op("S", "getData", hx(name))
        if rng.random() < 0.7:
            self.op("S", "getData", hx(rng.choice([b"d1", b"d2", b"", b"missing"])))

    def control(self):
        rng = self.rng
        r = rng.random()
        s = rng.choice(SCOPES)
        self.ensure_scope(s, 0.2)
        if r < 0.18:
            self.op("S", "strictOrder")
        elif r < 0.34:
            self.op("S", "ignoreOtherCalls"); self.ignore_others = True
        elif r < 0.46:
            self.op("S", "disable"); self.enabled = False
        elif r < 0.58:
            if s is not None:
                self.scope(None)
            self.op("S", "enable"); self.enabled = True
        elif r < 0.72:
            self.op("S", "expectedCallsLeft")
        elif r < 0.82:
            self.op("S", "checkExpectations")
        elif r < 0.90:
            # non-zero: the reporter calls the (recorded) crash method before it ends the test; `0 != shouldCrash`
            self.op("S", "crashOnFailure", self.rng.choice([0, 0, 1, 2, 256, UINT_MAX]))
        elif r < 0.95:
            self.op("S", "hasReturnValue")
        else:
            self.clear(s)

    def clear(self, s):
        self.ensure_scope(s)
        self.op("S", "clear")
        if s is None:
            self.exp = {}
            self.enabled, self.ignore_others = True, False
            self.typed_pending = False
            self.act_scope, self.act_checked = "none", False
            if self.rng.random() < 0.3:
                self.op("S", "removeAllComparatorsAndCopiers"); self.comparators.clear(); self.copiers.clear()
        else:
            self.exp.pop(s, None)
            if self.act_scope == s:
                self.act_scope, self.act_checked = "none", False
        self.have_ec = self.have_ac = False

    def finish(self):
        rng = self.rng
        if rng.random() < 0.9:
            self.ensure_scope(None)
            if rng.random() < 0.4:
                self.op("S", "expectedCallsLeft")
            self.op("S", "checkExpectations")
        if rng.random() < 0.8:
            self.ensure_scope(None)
            self.op("S", "clear")
            if rng.random() < 0.5:
                self.op("S", "removeAllComparatorsAndCopiers")
        return self.ops


GETTER_FIELDS = set(["returnValue"] + ["%sReturnValue" % k[1] for k in KINDS])
DEFAULT_FIELDS = set("return%sValueOrDefault" % k[0] for k in KINDS)


def py_aligned(ops):
    """replica of `MockC.Aligned` (lean/CppUModel/Spec/MockC.lean); the driver checks on every marked scenario that
    the Lean predicate agrees"""
    cur, act = None, None
    for l in ops:
        w = l.split()
        if w[0] == "M0":
            cur = ""
        elif w[0] == "M" and len(w) == 2:
            cur = "" if w[1] == "-" else w[1]
        elif w[0] == "S" and len(w) >= 2:
            f = w[1]
            if f in GETTER_FIELDS or f in DEFAULT_FIELDS:
                if act is None or act != cur:
                    return False
            if f in ("disable", "ignoreOtherCalls"):
                return False
            if f == "actualCall":
                act = cur
            elif f == "clear":
                act = None
        elif w[0] == "A" and len(w) >= 2:
            if w[1] == "hasReturnValue" or w[1] in DEFAULT_FIELDS:
                if act is None or act != cur:
                    return False
        elif w[0] == "T":
            act = None          # teardown: the call objects of the body may be gone
        elif w[0] not in ("E", "P"):
            return False
    return True


def mark(ops):
    return (["P aligned"] + ops) if py_aligned(ops) else ops


FAULTS = [None, "name", "value", "type", "missing", "extra", "unexpected", "notcalled", "outtype", "order"]


def gen_case(rng, size):
    s = Scn(rng)
    fault = rng.choice(FAULTS) if rng.random() < 0.45 else None
    if rng.random() < 0.6:
        s.scope(None)
        s.install_types()
    if rng.random() < 0.3:
        s.control()
    scopes = [rng.choice(SCOPES) for _ in range(rng.choice([1, 1, 2]))]
    strict = fault == "order"
    if strict:
        s.ensure_scope(scopes[0]); s.op("S", "strictOrder")
    planned = []
    for _ in range(size):
        sc = rng.choice(scopes)
        e = s.expect(sc)
        if e["n"] > 0:
            planned += [(sc, e)] * e["n"]
        if rng.random() < 0.2:
            s.data_ops()
    if rng.random() < 0.25:
        s.control()
    if strict and len(planned) >= 2:
        planned.reverse()
    elif not strict and rng.random() < 0.5:
        rng.shuffle(planned)
    if fault == "notcalled" and planned:
        planned.pop()
    fault_at = rng.randrange(len(planned)) if planned else 0
    for i, (sc, e) in enumerate(planned):
        f = fault if (i == fault_at and fault in ("name", "value", "type", "missing", "extra", "outtype")) else None
        s.actual(sc, e, fault=f)
        if rng.random() < 0.15:
            s.data_ops()
        if rng.random() < 0.1:
            s.control()
    if fault == "unexpected":
        s.actual(rng.choice(scopes), None)
    # a fraction of the scenarios goes on in the TEARDOWN of the test, which the runner executes also after a failure ended
    # the body: a second mock failure there must be reported the same way by both interfaces (the reporter records only
    # the first failure of a test)
    if rng.random() < (0.4 if fault else 0.1):
        if rng.random() < 0.5:
            s.finish()
        return s.ops + teardown_ops(rng, scopes)
    return s.finish()


def teardown_ops(rng, scopes):
    ops = ["T"]
    for _ in range(rng.choice([1, 2, 2])):
        sc = rng.choice(scopes + [None])
        ops.append("M0" if sc is None else "M " + hx(sc))
        r = rng.random()
        if r < 0.40:
            ops.append("S actualCall " + hx(rng.choice([b"not_expected", b"foo", b"f"])))      # unexpected call
        elif r < 0.70:
            ops.append("S checkExpectations")                                                   # open expectations
        elif r < 0.80:
            ops.append("S expectedCallsLeft")
        elif r < 0.90:
            ops += ["S expectNoCall " + hx(b"g"), "S actualCall " + hx(b"g")]
        else:
            ops.append("S clear")
    return ops


# ---- deterministic sweep: every member of the three tables with every boundary value of its type
def sweep_cases():
    out = []
    for k, lstem, ch, values in KINDS:
        for v in values:
            t = tok(k, v)
            d = tok(k, values[(values.index(v) + 1) % len(values)])
            ops = ["M0", "S expectOneCall 66", "E with%sParameters 70 %s" % (k, t), "E andReturn%sValue %s" % (k, t),
                   "S actualCall 66", "A with%sParameters 70 %s" % (k, t),
                   "A hasReturnValue", "A returnValue", "A %sReturnValue" % lstem, "A return%sValueOrDefault %s" % (k, d),
                   "S hasReturnValue", "S returnValue", "S %sReturnValue" % lstem, "S return%sValueOrDefault %s" % (k, d)]
            if k in DATA_KINDS:
                ops += ["S set%sData 6431 %s" % (k, t), "S getData 6431"]
            ops += ["S checkExpectations", "S expectedCallsLeft", "S clear"]
            out.append(("sweep", ops))
            # no return value set: the default must come back; the plain getter is asked last (it may fail the test)
            ops = ["M 7331", "S expectOneCall 66", "S actualCall 66", "A hasReturnValue", "S hasReturnValue",
                   "A return%sValueOrDefault %s" % (k, d), "S return%sValueOrDefault %s" % (k, d), "A returnValue", "S returnValue",
                   "A %sReturnValue" % lstem]
            out.append(("sweep", ops))
    # a call made while disabled right after a value-returning call of the same scope (still the scope's last call): no
    # return value through either interface, every ...OrDefault of both tables hands back the caller's default
    for i, (k, lstem, ch, values) in enumerate(KINDS):
        scope = ["M0", "M 7331", "M 613a3a62"][i % 3]
        ops = [scope, "S expectOneCall 66", "E andReturn%sValue %s" % (k, tok(k, values[-1])), "S actualCall 66",
               "A %sReturnValue" % lstem, "S disable", "S actualCall 67", "A hasReturnValue", "S hasReturnValue"]
        for k2, _, _, values2 in KINDS:
            ops.append("%s return%sValueOrDefault %s" % ("A" if (i + len(ops)) % 2 else "S", k2, tok(k2, values2[-1])))
        ops += ["A %sReturnValue" % lstem, "M0", "S enable", "S checkExpectations", "S clear"]
        out.append(("sweep", ops))
    out.append(("sweep", [
        "M0", "S installComparator 4f626a", "S installCopier 4f626a", "S crashOnFailure 0", "S strictOrder",
        "S expectNCalls 2 66", "E withDoubleParametersAndTolerance 64 %s %s" % (dbits(1.0), dbits(0.5)),
        "E withMemoryBufferParameter 6d 000102 3", "E withParameterOfType 4f626a 6f o0",
        "E withOutputParameterReturning 6f7574 0a0b0c0d 4", "E withOutputParameterOfTypeReturning 4f626a 6f32 o3",
        "E withUnmodifiedOutputParameter 6f33", "E ignoreOtherParameters",
        "S expectNoCall 6e6f", "S expectedCallsLeft",
        "S actualCall 66", "A withDoubleParameters 64 %s" % dbits(1.25), "A withMemoryBufferParameter 6d 000102 3",
        "A withParameterOfType 4f626a 6f o1", "A withOutputParameter 6f7574 b0", "A withOutputParameterOfType 4f626a 6f32 b1",
        "A withOutputParameter 6f33 b2",
        "S actualCall 66", "A withDoubleParameters 64 %s" % dbits(0.5), "A withMemoryBufferParameter 6d 000102 3",
        "A withParameterOfType 4f626a 6f o0", "A withOutputParameter 6f7574 b3", "A withOutputParameterOfType 4f626a 6f32 b2",
        "S setDataObject 6f626a 4f626a o2", "S setDataConstObject 636f 4f626a o5", "S getData 6f626a", "S getData 636f",
        "S ignoreOtherCalls", "S actualCall 7a7a", "S disable", "S actualCall 7979", "S enable",
        "S checkExpectations", "S clear", "S removeAllComparatorsAndCopiers"]))
    # a failure in the body followed by further mock failures in teardown (1 failure must be recorded, with the first text)
    for first in [["S actualCall 6e6f"], ["S expectOneCall 66", "S checkExpectations"],
                  ["S expectOneCall 66", "E withIntParameters 70 1", "S actualCall 66", "A withIntParameters 70 2"]]:
        for td in [["S actualCall 7a"], ["S checkExpectations"], ["S expectOneCall 67", "S checkExpectations"],
                   ["M 7331", "S actualCall 7a", "M0", "S actualCall 79"], ["S clear", "S actualCall 7a"]]:
            out.append(("sweep", ["M0"] + first + ["T", "M0"] + td))
    # expectNCalls with boundary counts, expectedCallsLeft before / between / after the calls
    for n, made in [(0, 0), (0, 1), (1, 1), (2, 1), (2, 2), (3, 3), (4294967295, 2)]:
        ops = ["M0", "S expectNCalls %d 66" % n, "E withUnsignedIntParameters 70 4294967295", "S expectedCallsLeft"]
        for _ in range(made):
            ops += ["S actualCall 66", "A withUnsignedIntParameters 70 4294967295", "S expectedCallsLeft"]
        ops += ["S checkExpectations", "S expectedCallsLeft", "S clear", "S expectedCallsLeft"]
        out.append(("sweep", ops))
    # data store: every type incl. object pointers, overwritten with another type, read in the scope that owns it and in
    # another scope (where the name is unknown)
    for sc_set, sc_get in [("M0", "M 7331"), ("M 7331", "M0"), ("M 7331", "M 7332"), ("M0", "M0")]:
        ops = [sc_set, "S setDataObject 6f626a 4f626a o2", "S setDataConstObject 636f 4f74686572 o7", "S setIntData 6e -2147483648",
               "S setUnsignedIntData 75 4294967295", "S setBoolData 62 -1", "S setStringData 73 %s" % hx(b"text"),
               "S setDoubleData 64 %s" % dbits(-0.0), "S setPointerData 70 18446744073709551615", "S setConstPointerData 6370 0",
               "S setFunctionPointerData 6670 1", "S setStringData 6e %s" % hx(b"was an int")]
        for name in ["6f626a", "636f", "6e", "75", "62", "73", "64", "70", "6370", "6670", "6d697373696e67"]:
            ops += [sc_get, "S getData " + name, sc_set, "S getData " + name]
        ops += ["M0", "S clear", sc_get, "S getData 6e"]
        out.append(("sweep", ops))
    # expectedCallsLeft / checkExpectations / clear across scopes: the global scope covers the named ones
    for variant in range(8):
        ops = ["M0", "S expectOneCall 67", "M 7331", "S expectOneCall 66", "E andReturnLongLongIntValue -9223372036854775808",
               "M 7332", "S expectNCalls 2 66", "E andReturnUnsignedLongLongIntValue 18446744073709551615",
               "M 7331", "S actualCall 66", "A longLongIntReturnValue", "S expectedCallsLeft", "M 7332", "S expectedCallsLeft",
               "M0", "S expectedCallsLeft"]
        if variant & 1:
            ops += ["M 7332", "S actualCall 66", "A returnUnsignedLongLongIntValueOrDefault 0", "S actualCall 66",
                    "S unsignedLongLongIntReturnValue"]
        if variant & 2:
            ops += ["M 7331", "S clear", "S expectedCallsLeft", "M0", "S expectedCallsLeft"]
        if variant & 4:
            ops += ["M0", "S actualCall 67"]
        ops += [["M 7331", "M 7332", "M0"][variant % 3], "S checkExpectations", "M0", "S expectedCallsLeft", "S checkExpectations",
                "S clear", "S expectedCallsLeft", "M 7332", "S expectedCallsLeft", "S checkExpectations"]
        out.append(("sweep", ops))
    # value and tolerance of withDoubleParametersAndTolerance are both doubles: scenarios whose verdict changes when the two
    # are exchanged (negative / zero expected value, |value| >> tolerance with the actual far off)
    for v, tol, a in [(1000.0, 0.5, 1000.25), (1000.0, 0.5, 600.0), (-5.0, 0.5, -5.0), (-5.0, 0.5, -5.75), (0.0, 0.5, 0.25),
                      (0.0, 0.5, 0.75), (5.0, 2.0, 6.5), (5.0, 2.0, 2.5), (1e6, 1e-9, 1e6), (-1000.0, 2.0, -998.5), (0.25, 0.0, 0.25)]:
        out.append(("sweep", ["M0", "S expectOneCall 66", "E withDoubleParametersAndTolerance 64 %s %s" % (dbits(v), dbits(tol)),
                              "S actualCall 66", "A withDoubleParameters 64 %s" % dbits(a), "S checkExpectations", "S clear"]))
    # custom types: every pairing of plain / pattern objects on the expected and on the actual side (the comparator is
    # asymmetric), failure text with valueToString of both operands, copier from a plain and from a pattern object
    for e, a in [(6, 0), (0, 6), (7, 3), (3, 7), (6, 7), (0, 1), (1, 0), (0, 2), (2, 2), (6, 6)]:
        out.append(("sweep", [
            "M0", "S installComparator 4f626a", "S installCopier 4f626a", "S expectOneCall 66",
            "E withParameterOfType 4f626a 70 o%d" % e, "E withOutputParameterOfTypeReturning 4f626a 6f o%d" % a,
            "E andReturnIntValue 1", "S actualCall 66", "A withParameterOfType 4f626a 70 o%d" % a,
            "A withOutputParameterOfType 4f626a 6f b%d" % (e % 4), "A intReturnValue", "S checkExpectations", "S clear",
            "S removeAllComparatorsAndCopiers"]))
        out.append(("sweep", [
            "M 7331", "S installComparator 4f626a", "S expectNCalls 2 66", "E withParameterOfType 4f626a 70 o%d" % e,
            "S actualCall 66", "A withParameterOfType 4f626a 70 o%d" % a,
            "S actualCall 66", "A withParameterOfType 4f626a 70 o%d" % e, "S checkExpectations"]))
    # comparator alone / copier alone / neither, each asked for a typed input parameter and for a typed output parameter
    # (the missing half fails the test with "no way to compare / copy" through both interfaces)
    for inst in [[], ["S installComparator 4f626a"], ["S installCopier 4f626a"], ["S installCopier 4f626a", "S installComparator 4f626a"]]:
        for scope in ["M0", "M 7331", "M 613a3a62"]:
            out.append(("sweep", [scope] + inst + ["S expectOneCall 66", "E withParameterOfType 4f626a 70 o2", "S actualCall 66",
                                                   "A withParameterOfType 4f626a 70 o3", "S checkExpectations", "M0", "S clear",
                                                   "S removeAllComparatorsAndCopiers"]))
            out.append(("sweep", [scope] + inst + ["S expectOneCall 66", "E withOutputParameterOfTypeReturning 4f626a 6f o4", "S actualCall 66",
                                                   "A withOutputParameterOfType 4f626a 6f b0", "S checkExpectations", "M0", "S clear",
                                                   "S removeAllComparatorsAndCopiers"]))
    # adaptors installed on the global mock reach a scope created later (clone) and one created before (forwarding);
    # adaptors installed on a named scope stay there; removeAll on the global mock (after clear) makes every scope forget
    out.append(("sweep", ["M 7331", "M0", "S installComparator 4f626a", "S installCopier 4f626a", "M 7332", "S expectOneCall 66",
                          "E withParameterOfType 4f626a 70 o6", "E withOutputParameterOfTypeReturning 4f626a 6f o1", "M 7331", "S expectOneCall 66",
                          "E withParameterOfType 4f626a 70 o0", "S actualCall 66", "A withParameterOfType 4f626a 70 o1", "M 7332",
                          "S actualCall 66", "A withParameterOfType 4f626a 70 o5", "A withOutputParameterOfType 4f626a 6f b3",
                          "M0", "S checkExpectations", "S clear", "S removeAllComparatorsAndCopiers",
                          "M 7332", "S expectOneCall 66", "E withParameterOfType 4f626a 70 o0", "S actualCall 66",
                          "A withParameterOfType 4f626a 70 o0", "M0", "S clear"]))
    out.append(("sweep", ["M 7331", "S installComparator 4f626a", "M0", "S expectOneCall 66", "E withParameterOfType 4f626a 70 o0",
                          "S actualCall 66", "A withParameterOfType 4f626a 70 o0", "S clear", "S removeAllComparatorsAndCopiers"]))
    # memory buffers and output bytes at the exact lengths of the harness buffers (0, 1, 15, 16 bytes)
    for n in [0, 1, 15, 16]:
        b = hx(bytes((i * 7 + 1) & 0xff for i in range(n)))
        out.append(("sweep", ["M 613a3a62", "S expectOneCall 66", "E withMemoryBufferParameter 6d %s %d" % (b, n),
                              "E withOutputParameterReturning 6f %s %d" % (b, n), "E andReturnConstPointerValue 18446744073709551615",
                              "S actualCall 66", "A withMemoryBufferParameter 6d %s %d" % (b, n), "A withOutputParameter 6f b2",
                              "A constPointerReturnValue", "A returnValue", "S constPointerReturnValue", "S checkExpectations", "M0", "S clear"]))
    # crashOnFailure: every truth value of the unsigned argument, failure in the body, second failure in teardown
    for v in [0, 1, 2, 4294967295]:
        for fail in [["S actualCall 6e6f"], ["S expectOneCall 66", "S checkExpectations"]]:
            out.append(("sweep", ["M0", "S crashOnFailure %d" % v] + fail + ["T", "M0", "S actualCall 7a"]))
            out.append(("sweep", ["M 7331", "S crashOnFailure %d" % v, "M0"] + fail))
    out.append(("sweep", ["M0", "S crashOnFailure 1", "S crashOnFailure 0", "S actualCall 6e6f"]))
    return out


# ---- the two known divergences (separately tagged; never part of the aligned stream)
def misaligned_case(rng):
    k, lstem, ch, values = rng.choice(KINDS)
    v = tok(k, rng.choice(values)); d = tok(k, rng.choice(values))
    a, b = rng.sample(SCOPES, 2)

    def m(s):
        return "M0" if s is None else "M " + hx(s)
    ops = [m(a), "S expectOneCall 66", "E andReturn%sValue %s" % (k, v)]
    variant = rng.choice(["support-other-scope", "support-other-scope-with-own-call", "support-after-ignored", "actual-has", "actual-default"])
    if variant == "support-after-ignored":
        ops = [m(a), "S disable", "S actualCall 66", "S %sReturnValue" % lstem]
    elif variant == "support-other-scope":
        ops += ["S actualCall 66", m(b), rng.choice(["S %sReturnValue" % lstem, "S returnValue", "S return%sValueOrDefault %s" % (k, d)])]
    elif variant == "support-other-scope-with-own-call":
        k2, lstem2, _, values2 = rng.choice(KINDS)
        ops += [m(b), "S expectOneCall 67", "E andReturn%sValue %s" % (k2, tok(k2, rng.choice(values2))), "S actualCall 67",
                m(a), "S actualCall 66", m(b), "S %sReturnValue" % lstem2, "S returnValue"]
    elif variant == "actual-has":
        ops += ["S actualCall 66", m(b), "A hasReturnValue"]
    else:
        ops += ["S actualCall 66", m(b), "A return%sValueOrDefault %s" % (k, d)]
    ops += ["M0", "S clear"]
    return ops


def m_(s):
    return "M0" if s is None else "M " + hx(s)


def adaptor_case(rng):
    """custom-type adaptors inside the DISCIPLINED class (Lean: Nodes.Disciplined): comparator alone, copier alone, both,
    installed on the global mock or on a named scope (before / after the scope exists), used by typed parameters and
    typed output parameters, removeAll only on the global mock after a global clear(), then installed and used again"""
    ops = []
    obj = hx(b"Obj")
    for rnd in range(rng.choice([1, 2, 2, 3])):
        home = rng.choice(SCOPES)
        use = home if rng.random() < 0.6 else rng.choice(SCOPES)
        if rng.random() < 0.3 and use is not None:
            ops.append(m_(use))                      # the scope exists before the install: it gets the adaptor by forwarding
        ops.append(m_(home))
        mode = rng.choice(["both", "both", "comparator", "copier", "none"])
        if mode in ("both", "comparator"):
            ops.append("S installComparator " + obj)
        if mode in ("both", "copier"):
            ops.append("S installCopier " + obj)
        if rng.random() < 0.2:
            ops.append("S installComparator " + hx(b"Other"))
        ops.append(m_(use))
        n = rng.choice([1, 1, 2])
        ops.append("S expectNCalls %d 66" % n if n > 1 else "S expectOneCall 66")
        e, a = rng.randrange(8), rng.randrange(8)
        typed_in = rng.random() < 0.7
        typed_out = rng.random() < 0.6
        if typed_in:
            ops.append("E withParameterOfType %s 70 o%d" % (obj, e))
        if typed_out:
            ops.append("E withOutputParameterOfTypeReturning %s 6f o%d" % (obj, rng.randrange(8)))
        if rng.random() < 0.4:
            ops.append("E andReturnPointerValue %d" % rng.choice(POINTERS))
        for _ in range(n):
            ops.append("S actualCall 66")
            if typed_in:
                ops.append("A withParameterOfType %s 70 o%d" % (obj, a))
            if typed_out:
                ops.append("A withOutputParameterOfType %s 6f b%d" % (obj, rng.randrange(4)))
            if rng.random() < 0.3:
                ops.append("A returnPointerValueOrDefault %d" % rng.choice(POINTERS))
        if rng.random() < 0.5:
            ops += [m_(use), "S checkExpectations"]
        ops += ["M0", "S clear"]
        if rng.random() < 0.8:
            ops.append("S removeAllComparatorsAndCopiers")
    return ops


def undisciplined_case(rng):
    """the two ways the C layer's ownership of the adaptor nodes goes wrong (known findings; separately tagged):
    removeAll on a named scope while another scope still has the adaptors, and removeAll while an expectation still
    holds one"""
    obj = hx(b"Obj")
    v = rng.choice(["scope", "scope", "held-copier", "held-comparator", "held-copier-scope"])
    if v == "scope":
        a = rng.choice([s for s in SCOPES if s is not None])
        return ["M0", "S installComparator " + obj, m_(a), "S removeAllComparatorsAndCopiers", "M0", "S expectOneCall 66",
                "E withParameterOfType %s 70 o%d" % (obj, rng.randrange(6)), "S actualCall 66",
                "A withParameterOfType %s 70 o%d" % (obj, rng.randrange(6)), "S checkExpectations", "S clear",
                "S removeAllComparatorsAndCopiers"]
    if v == "held-copier":
        return ["M0", "S installCopier " + obj, "S expectOneCall 66", "E withOutputParameterOfTypeReturning %s 6f o%d" % (obj, rng.randrange(8)),
                "S removeAllComparatorsAndCopiers", "S actualCall 66", "A withOutputParameterOfType %s 6f b%d" % (obj, rng.randrange(4)),
                "S checkExpectations", "S clear"]
    if v == "held-copier-scope":
        a = rng.choice([s for s in SCOPES if s is not None])
        return [m_(a), "S installCopier " + obj, "S expectOneCall 66", "E withOutputParameterOfTypeReturning %s 6f o%d" % (obj, rng.randrange(8)),
                "M0", "S removeAllComparatorsAndCopiers", m_(a), "S actualCall 66",
                "A withOutputParameterOfType %s 6f b%d" % (obj, rng.randrange(4)), "M0", "S clear"]
    # the expectation keeps the old comparator; a new one is installed so that the actual side can be compared at all
    return ["M0", "S installComparator " + obj, "S expectOneCall 66", "E withParameterOfType %s 70 o%d" % (obj, rng.randrange(6)),
            "S removeAllComparatorsAndCopiers", "S installComparator " + obj, "S actualCall 66",
            "A withParameterOfType %s 70 o%d" % (obj, rng.randrange(6)), "S checkExpectations", "S clear",
            "S removeAllComparatorsAndCopiers"]


def crash_case(rng):
    """crashOnFailure with every truth value of its `unsigned` argument, set on one scope, the failure in the same or
    another scope (the reporter is shared), a second failure in teardown (must not crash again), switched off again"""
    a, b = rng.choice(SCOPES), rng.choice(SCOPES)
    v = rng.choice([1, 1, 2, 256, 65536, UINT_MAX, INT_MAX + 1, 0])
    ops = [m_(a), "S crashOnFailure %d" % v]
    if rng.random() < 0.25:
        ops.append("S crashOnFailure %d" % rng.choice([0, 1]))
    if rng.random() < 0.3:
        ops += ["S expectOneCall 66", "E andReturnIntValue 3", "S actualCall 66", "A intReturnValue"]
    ops.append(m_(b))
    r = rng.random()
    if r < 0.4:
        ops.append("S actualCall " + hx(b"unexpected"))
    elif r < 0.7:
        ops += ["S expectOneCall 67", "S checkExpectations"]
    elif r < 0.85:
        ops += ["S expectOneCall 67", "E withIntParameters 70 1", "S actualCall 67", "A withIntParameters 70 2"]
    else:
        ops += ["S expectOneCall 67", "S actualCall 67", "S checkExpectations"]       # no failure at all
    if rng.random() < 0.6:
        ops += ["T", m_(rng.choice(SCOPES)), rng.choice(["S actualCall 7a", "S checkExpectations", "S crashOnFailure 0"])]
        if rng.random() < 0.5:
            ops += ["M0", "S actualCall 79"]
    return ops


def disabled_case(rng):
    """an actual call that gets the ignored-call object (mocking disabled, or ignoreOtherCalls and an unexpected name) made
    in a scope whose PREVIOUS actual call fulfilled an expectation with a return value and is still the scope's last call
    (no checkExpectations / clear in between).  MockSupport::actualCall finishes and deletes that previous call before it
    tests enabled_, so afterwards the scope has no last call: hasReturnValue and every return<Type>ValueOrDefault, at
    actual-call level and at mock level, must say "no return value" / hand back the caller's default through both
    interfaces.  No scope switch between the ignored call and the questions (that is the other, known, finding)."""
    sc = rng.choice(SCOPES)
    k, lstem, ch, values = rng.choice(KINDS)
    ops = [m_(sc), "S expectOneCall 66", "E andReturn%sValue %s" % (k, tok(k, rng.choice(values))), "S actualCall 66"]
    r = rng.random()
    if r < 0.35:
        ops.append(rng.choice(["A %sReturnValue" % lstem, "S %sReturnValue" % lstem, "A hasReturnValue", "S hasReturnValue"]))
    how = rng.choice(["disable", "disable", "disable", "disable-global", "ignore"])
    if how == "disable":
        ops.append("S disable")
    elif how == "disable-global":
        ops += ["M0", "S disable", m_(sc)]           # disable() reaches every scope that exists
    else:
        ops.append("S ignoreOtherCalls")
    ops.append("S actualCall 67")
    if rng.random() < 0.3:
        ops.append("A withIntParameters 70 %d" % rng.choice([0, 1, -1]))
    for _ in range(rng.choice([2, 3, 4, 6])):
        t = rng.choice("AAS")
        x = rng.random()
        if x < 0.3:
            ops.append("%s hasReturnValue" % t)
        elif x < 0.9:
            k2 = k if rng.random() < 0.4 else rng.choice(KINDS)[0]
            ops.append("%s return%sValueOrDefault %s" % (t, k2, tok(k2, pick(rng, k2))))
        else:
            ops.append("A %sReturnValue" % KIND[rng.choice(KINDS)[0]][1])      # the ignored object's own zero, both sides
    if rng.random() < 0.5:
        ops += ["M0", "S enable"] if how != "ignore" else []
    ops += ["M0", "S checkExpectations", "S clear"]
    return ops


def malformed_case(rng):
    """operations in an order the scenario language does not promise anything about: chain members before any
    expect/actual call, unknown members, bad arguments (printed as `> skip` by both runs), table members only"""
    ops = []
    pool = ["E withIntParameters 61 1", "A withIntParameters 61 1", "S expectOneCall 66", "M0", "M 7331", "E andReturnIntValue 2",
            "S nonsense", "E withIntParameters 61", "A intReturnValue extra", "S setIntData 6431 99999999999", "S expectNCalls -1 66",
            "X y", "S getData 6431", "S expectedCallsLeft", "S checkExpectations", "E ignoreOtherParameters", "S crashOnFailure 1",
            "A withOutputParameter 6f b9", "E withOutputParameterReturning 6f 00 5", "S hasReturnValue", "S strictOrder", "S clear"]
    for _ in range(rng.choice([3, 6, 10])):
        ops.append(rng.choice(pool))
    return ops


def generate(rng, tier):
    out = []
    n = 500 if tier == "quick" else 8000
    for i in range(n):
        out.append(("gen", mark(gen_case(rng, rng.choice([1, 1, 2, 3]) if tier == "quick" else rng.choice([1, 2, 3, 5, 8])))))
    out += [(t, mark(ops)) for t, ops in sweep_cases()]
    for i in range(n // 12):
        out.append(("malformed", malformed_case(rng)))
    for i in range(n // 25):
        out.append(("misaligned", misaligned_case(rng)))
    for i in range(n // 8):
        out.append(("adaptor", mark(adaptor_case(rng))))
    for i in range(n // 12):
        out.append(("crash", mark(crash_case(rng))))
    for i in range(n // 50):
        out.append(("undisciplined", undisciplined_case(rng)))
    for i in range(n // 10):
        out.append(("disabled", disabled_case(rng)))
    return out


def translate(ctx):
    from translate import extract_cmock
    return extract_cmock.run()


def ignore_line(l):
    # observations of the C++ run are inputs of the model (answers of the abstract C++ mock), not predictions
    return l.startswith("xo ")


def signature(r):
    m = re.search(r"finding=([\w-]+)", r.spec or "")
    if m:
        return "C19:" + m.group(1)
    from vlib import flow
    return flow.default_signature(r)


def tolerated(r):
    """outside the aligned class the model does not predict what the C layer returns (it would have to know the value
    of another scope's call); when the two real runs happen to agree there, the declined prediction is not a disagreement"""
    return (not r.crash) and (r.spec or "").startswith("spec ok") and \
        ("MISALIGNED" in (r.first_diff or "") or "UNPREDICTABLE" in (r.first_diff or ""))


def nontrivial(r):
    return any(l.startswith("> c") and " A " in l for l in r.impl)


def observe(r, rep):
    failed = False
    exp_obj = {}
    for l in r.ops:
        w = l.split()
        if w[:2] == ["E", "withParameterOfType"] and len(w) == 5:
            exp_obj[w[3]] = w[4]
        elif w[:2] == ["A", "withParameterOfType"] and len(w) == 5 and w[3] in exp_obj:
            e, a = exp_obj[w[3]] in ("o6", "o7"), w[4] in ("o6", "o7")
            rep.count("typed.expected_%s_actual_%s" % ("pattern" if e else "plain", "pattern" if a else "plain"))
        elif w[:2] == ["A", "withOutputParameterOfType"]:
            rep.count("typed.copier_output_requested")
    for l in r.impl:
        w = l.split()
        if len(w) >= 4 and w[0] == ">" and w[1] == "c" and w[3] in ("S", "E", "A") and len(w) >= 5:
            rep.count("entry.%s.%s" % (w[3], w[4]))
        elif len(w) == 4 and w[:2] == [">", "c"] and w[3] == "T":
            rep.count("teardown.phase_executed")
        elif len(w) >= 5 and w[:2] == [">", "c"] and w[3:5] == ["P", "aligned"]:
            rep.count("class.Aligned_syntactic")
        elif w[:2] == ["co", "verdict"]:
            failed = w[2] != "0"
            rep.count("verdict.failed" if failed else "verdict.passed")
            if w[2] not in ("0", "1"):
                rep.count("verdict.more_than_one_failure")
        elif w[:2] == ["co", "val"]:
            rep.count("tag." + w[2])
        elif w[:2] == ["xo", "has"]:
            rep.count("default.used" if w[2] == "0" else "default.not_used")
        elif w[:2] == ["co", "out"]:
            rep.count("output.bytes_written")
        elif w[:2] == ["xo", "ackind"]:
            rep.count("actual." + w[2])
        elif w == ["co", "left", "exception"]:
            rep.count("exit.C_call_left_by_exception_(assertion_macro_in_the_mock_core)")
        elif w == ["xo", "left", "exception"]:
            rep.count("exit.Cpp_call_left_by_exception")
        elif w[:2] == ["co", "leaked"]:
            rep.count("leak.C_run_delta_%s" % w[2])
        elif w == ["co", "crash"]:
            rep.count("crash.recorded_by_C_run")
        elif w == ["xo", "crash"]:
            rep.count("crash.recorded_by_Cpp_run")
        elif len(w) >= 4 and w[:2] == [">", "c"] and w[3] == "M" and len(w) == 5 and w[4] == "613a3a62":
            rep.count("scope.name_with_colons")
    # a disabled / ignored call right after a value-returning call of the same scope, then asked for its return value
    stage = 0       # 1: returning expectation, 2: its call made, 3: disabled, 4: call made while disabled
    for l in r.ops:
        w = l.split()
        if w[:1] == ["E"] and len(w) >= 2 and w[1].startswith("andReturn"):
            stage = 1
        elif w[:2] == ["S", "actualCall"]:
            stage = 2 if stage == 1 else (4 if stage == 3 else 0)
        elif w[:2] in (["S", "disable"], ["S", "ignoreOtherCalls"]):
            stage = 3 if stage in (2, 3) else 0
        elif w[:2] in (["S", "checkExpectations"], ["S", "clear"], ["S", "enable"], ["T"]):
            stage = 0
        elif stage == 4 and len(w) >= 2 and w[0] in "AS" and (w[1] == "hasReturnValue" or w[1] in DEFAULT_FIELDS):
            rep.count("disabled_after_returning.%s.%s" % (w[0], "hasReturnValue" if w[1] == "hasReturnValue" else "orDefault"))
    inst = {"installComparator": 0, "installCopier": 0}
    for l in r.ops:
        w = l.split()
        if w[:1] == ["S"] and len(w) >= 2 and w[1] in inst:
            inst[w[1]] += 1
        elif w[:2] == ["S", "crashOnFailure"] and len(w) == 3:
            rep.count("crashOnFailure.zero" if w[2] == "0" else "crashOnFailure.nonzero")
        elif w[:2] == ["S", "removeAllComparatorsAndCopiers"]:
            rep.count("adaptor.removeAll")
    if inst["installComparator"] and not inst["installCopier"]:
        rep.count("adaptor.comparator_alone")
    if inst["installCopier"] and not inst["installComparator"]:
        rep.count("adaptor.copier_alone")
    if inst["installCopier"] and inst["installComparator"]:
        rep.count("adaptor.both")


def extra(ctx, exe):
    rep = ctx.rep
    hit = {k[len("entry."):]: v for k, v in rep.hist.items() if k.startswith("entry.")}
    missing = [e for e in ENTRIES if e not in hit]
    lo = sorted((hit.get(e, 0), e) for e in ENTRIES)[:3]
    rep.coverage["table_entries_exercised"] = "%d/%d" % (len(ENTRIES) - len(missing), len(ENTRIES))
    rep.coverage["table_entries_missing"] = missing
    print("C19 table entries exercised by the C run: %d/%d; least exercised: %s%s" % (
        len(ENTRIES) - len(missing), len(ENTRIES), ", ".join("%s x%d" % (e, c) for c, e in lo),
        "; MISSING: " + ", ".join(missing) if missing else ""))
    if missing:
        rep.notes.append("table entries never executed: " + ", ".join(missing))


TRUSTED = [
    "Lean 4 kernel; axioms of every theorem audited (propext, Classical.choice, Quot.sound at most)",
    "translate/extract_cmock.py (regex extractor of struct member order, table initialisers, forwarder bodies, the "
    "getMockValueCFromNamedValue branch chain, C++ getter shapes, node constructors and freeing loops, reporter / terminator "
    "bodies, the reporter argument of mock_c / mock_scope_c, the statement order of MockSupport::actualCall); cross-checked on every run: the model dispatches through the "
    "regenerated tables and its predicted C++ calls / C results / crash-hook calls are diffed against the real code",
    "the abstract C++ mock of the model is the real C++ implementation in the harness: equality of the two runs of the real "
    "code is observed per generated scenario (h_c19), not proved",
    "hand-written REQUIRED tables in lean/CppUModel/Spec/MockC.lean, Spec/MockCNodes.lean, Spec/MockCReporter.lean (the "
    "documented meaning of MockSupport_c.h; list discipline; reporter plumbing)",
    "hand-written models of the C++ side of the reporter plumbing (mock(name, reporter), setActiveReporter, crashOnFailure, "
    "shared standard reporter) and of the comparator/copier repository (install forwarding, scope clone, clear); tied by the "
    "crash / adaptor streams of the harness",
    "that the C terminator (longjmp) and the C++ terminator (exception) both just end the current test; UtestShell::setCrashMethod "
    "replaces the crash method by a recorder in the harness",
]
ASSUMPTIONS = [
    "LP64, CPPUTEST_USE_LONG_LONG=1 (the checked build)",
    "a scenario uses call objects only while they exist (no chain member after clear()), sizes never exceed the buffers they describe",
    "aligned class: a return-value getter is asked while the selected scope is the one the last actual call was made on "
    "(outside it the two alignment findings apply)",
    "disciplined class for adaptor lifetime: removeAllComparatorsAndCopiers only on the global mock and only while no "
    "expectation made since the last global clear() carries a typed parameter (outside it the two adaptor findings apply)",
    "`leaked` (allocations alive after a run) is compared between model and implementation for passing runs only, and is not "
    "part of the oracle: a failing C call is left by longjmp, which skips destructors",
]
RULE = ("scenarios = sequences of C-level operations (scope selection incl. a scope name with '::', expectations with parameters "
        "of all 15 kinds, output parameters, return values of all 12 types, actual calls matching or violating them in "
        "name/value/type/arity/order, getters of the same / a compatible / another type with and without default, data store, "
        "strict order, ignore, disable/enable, check, clear, crashOnFailure with every truth value, comparator alone / copier "
        "alone / both on the global mock or a named scope, removeAll; a call made while disabled / ignored right after a "
        "value-returning call of the same scope, asked hasReturnValue and ...OrDefault through both tables) + a deterministic sweep of every table member x every "
        "boundary value, buffers at the exact harness lengths, crashOnFailure x failure site x teardown; each is run through "
        "the C interface and through the C++ interface in two fresh tests; non-trivial = at least one actual-call chain member "
        "executed; distinct = distinct op sequences")
LEVEL_TEXT = ("Machine-checked Lean 4 theorems: the wiring of all three C function tables regenerated from MockSupport_c.h/.cpp "
              "equals the documented wiring (member order = initialiser order, every forwarder calls the required C++ method with "
              "the required argument conversions); the value conversion keeps type tag and payload for every type string; "
              "...OrDefault returns the default iff there is no return value; for every scenario of any length in the aligned "
              "class the C layer over ANY C++ mock (abstract parameter) produces the same C++ state and the same canonical "
              "results as the C++ program the scenario stands for (induction over the scenario). New: the adaptor-node lists "
              "(constructor initialisers and the freeing loops of removeAllComparatorsAndCopiers_c, interpreted from the source) "
              "account for every node in every history (no leak, no double delete, loops terminate); on the disciplined class "
              "nobody ever points to a deleted node, through C++ never; the reporter plumbing (reporter argument of mock_c / "
              "mock_scope_c, failTest and exitCurrentTest of both reporter/terminator pairs, interpreted from the source): every "
              "MockSupport reached through C has the C reporter active and the crash hook / failure recording / exit kind agree "
              "with the C++ run for every scenario. The full statements without the alignment / discipline hypotheses are refuted "
              "in Lean by concrete witnesses and reproduced on the real code (four known findings). Every run diffs the model's "
              "dispatch and predicted results against the real code and compares the C run with the C++ run of the real code on "
              "generated scenarios.")
LEVEL_NOTE = ("Proved: wiring, conversions, defaulting, refinement C layer -> C++ program over an abstract mock; node-list accounting "
              "and lifetime discipline; reporter activation and failure path. Regenerated and interpreted: all 125 forwarders, "
              "value-tag chain, node constructors, freeing loops, reporter/terminator bodies, reporter arguments. Observed only: "
              "that the real C++ implementation behaves identically when driven by the C layer (verdict, failure text, crash hook, "
              "returned values and output bytes of the two real runs are compared per scenario); the C++ side of the reporter "
              "plumbing and of the comparator repository is a hand model; assertion-macro failures inside the mock core leave a C "
              "call by an exception (recorded, same through both interfaces).")
TECHNIQUE = ("Lean 4 refinement proof (C layer as state machine over an abstract C++ mock) + regenerated wiring / node-list / "
             "reporter tables interpreted by the model and checked by decide and by induction + differential harness C interface "
             "vs C++ interface on the real code (ASan/UBSan, crash-hook recorder, allocation delta)")
