"""C17 — pointers set for a test are restored after it; plugin actions nest: generator and settings."""
ID = "C17"
HARNESS = "h_c17"
TRUSTED = [
    "Lean 4 kernel; axioms of every theorem audited (propext, Classical.choice, Quot.sound at most)",
    "hand-written model lean/CppUModel/Model/Plugins.lean, tied to src/CppUTest/TestPlugin.cpp, include/CppUTest/TestPlugin.h "
    "and TestRegistry::installPlugin/removePluginByName/resetPlugins by the h_c17 correspondence of this run",
    "translate/extract_plugins.py: regenerates MAX_SET and the sentinel's name, checks the shape of CppUTestStore, "
    "SetPointerPlugin::postTestAction and constructor, UT_PTR_SET, runAllPre/PostTestAction, addPlugin, getPluginByName, "
    "TestPlugin::removePluginByName, TestRegistry::installPlugin/resetPlugins/removePluginByName",
    "the test runner calls runAllPreTestAction before and runAllPostTestAction after every test whatever its outcome "
    "(observed by the harness for pass / FAIL / FAIL_C / std exception / foreign exception; proved in C01's model, not here)",
]
ASSUMPTIONS = [
    "constructing a SetPointerPlugin resets the process-wide table index (modelled: construction = index := 0); entries "
    "recorded by tests that ran without an enabled plugin are forgotten by a construction and otherwise undone by the next "
    "active post action (the oracle then demands the values from the last point where the table was empty; with an empty "
    "table at test start that is literally the property's clause)",
    "a plugin fails a test from its pre action through result.addFailure; a TERMINATING failure (test.fail / FAIL) raised in a pre "
    "action escapes TestRegistry::runAllTests as an exception - body and all post actions are skipped (confirmed, not driven)",
    "a plugin object is installed at most once at a time (installing a linked object again makes the chain cyclic)",
    "removePluginByName is not called with the sentinel's own name \"null\" (see report: that unlinks the sentinel)",
    "plugin names pairwise different for the remove-exactly claim (with duplicates up to three plugins go; modelled, not claimed)",
]
RULE = ("stream midrun: 2-6 queued tests run by ONE TestRegistry::runAllTests, a test installing / removing (head, last, any) a "
        "plugin on the running registry from its body or from a recording plugin's post action, logs of every test of the run "
        "judged against what is installed when that test starts; 52 pointers of four types (void*, function pointer, double*, int**) through the same macro; tests also run in a "
        "separate process, as IgnoredUtestShell and run-ignored; plugins that report a failure from their pre action; "
        "countPlugins/getFirstPlugin/getPluginByName (also by the sentinel's name) observed after every chain operation; "
        "chains of 0-8 recording plugins + the real SetPointerPlugin at a random position, random enable patterns, "
        "install/remove/enable/disable/reset/get interleaved with 1-10 consecutive scripted tests doing 0-40 UT_PTR_SET "
        "(and, as <setup>/<body>/<teardown>, every way of ending in setup() and teardown() too, rethrow off) redirections over 40 pointers (targets drawn from a small subset so repeats are the rule; 32, 33 and more entries "
        "frequent) and ending by pass / FAIL / FAIL_TEXT_C / std::runtime_error / throw 42; the pointer plugin is "
        "disabled/enabled, removed by name and replaced by a NEWLY CONSTRUCTED one between tests (stream setlife: tests "
        "while it is inactive, also up to the limit across tests, then a fresh or the re-enabled plugin and short tests on "
        "the same few pointers); a tagged stream with the SetPointerPlugin absent or disabled for some tests, one with duplicate names, one malformed. non-trivial = at "
        "least one test that redirected something with at least one plugin installed")

OUTCOMES = ["pass", "pass", "fail", "failc", "throw", "throwint"]
NAMES = ["p0", "p1", "p2", "p3", "p4", "p5", "p6", "p7"]


ENDS = ["pass", "fail", "failc", "throw", "throwint"]


def outcome3(rng, outcomes=OUTCOMES):
    """body only, or <setup>/<body>/<teardown> with every way of ending in every phase"""
    if rng.random() < 0.55:
        return rng.choice(outcomes)
    x = rng.random()
    if x < 0.45:
        return "pass/%s/%s" % (rng.choice(outcomes), rng.choice(ENDS[1:]))      # teardown ends badly after any body
    if x < 0.75:
        return "%s/%s/%s" % (rng.choice(ENDS[1:]), rng.choice(outcomes), rng.choice(["pass", "pass"] + ENDS[1:]))   # setup ends badly: no body
    return "%s/%s/%s" % (rng.choice(ENDS), rng.choice(ENDS), rng.choice(ENDS))


def run_line(rng, outcomes=OUTCOMES):
    x = rng.random()
    kind = "" if x < 0.75 else " sep" if x < 0.87 else " ign" if x < 0.95 else " runign"
    return "run %s%s" % (outcome3(rng, outcomes), kind)


def gen_test(rng):
    x = rng.random()
    if x < 0.30:
        n = rng.randint(0, 5)
    elif x < 0.55:
        n = rng.randint(6, 31)
    elif x < 0.70:
        n = 32
    elif x < 0.85:
        n = 33
    else:
        n = rng.randint(34, 40)
    # 52 pointers: 0..39 void*, 40..43 function pointers, 44..47 double*, 48..51 int**
    pool = rng.sample(range(52), rng.choice([1, 2, 3, 8, 52]))
    if rng.random() < 0.3:
        pool = rng.sample(range(40, 52), rng.choice([1, 3, 12]))      # the typed pointers only
    return ["set %d %d" % (rng.choice(pool), rng.randrange(64)) for _ in range(n)] + [run_line(rng)]


def name_of(r):
    if r >= 20:
        return "f%d" % (r - 20)                                 # the plugins that fail in their pre action
    return "p%d" % (r if r < 8 else (3 if r == 8 else 0))      # objects 8 and 9 duplicate the names p3 and p0


def gen_case(rng, ntests, with_set=True, dup=False, malformed=False):
    """`installed` is only a hint for choosing interesting operands: the harness itself refuses to install an
    object that is already linked (that would make the chain cyclic)."""
    ops = []
    ids = list(range(8)) + ([8, 9] if dup else [])
    if rng.random() < 0.25:
        ids += [20, 21]
    first = rng.sample(ids, min(rng.randint(0, 8), len(ids)))
    installed = []
    setpos = rng.randint(0, len(first)) if with_set else -1
    for i, r in enumerate(first):
        if i == setpos:
            ops.append("install set")
        ops.append("install %d" % r)
        installed.append(r)
        if rng.random() < 0.3:
            ops.append("disable %d" % r)
    if setpos == len(first):
        ops.append("install set")
    for t in range(ntests):
        for _ in range(rng.choice([0, 0, 1, 2, 3])):
            x = rng.random()
            if x < 0.25 and installed:
                name = name_of(rng.choice(installed))
                ops.append("remove %s" % name)
                installed = [q for q in installed if name_of(q) != name]
            elif x < 0.45:
                free = [q for q in ids if q not in installed]
                if free:
                    r = rng.choice(free)
                    ops.append("install %d" % r)
                    installed.append(r)
            elif x < 0.60:
                ops.append("%s %d" % (rng.choice(["enable", "disable"]), rng.choice(ids)))
            elif x < 0.70:
                name = rng.choice(NAMES + ["nosuch"])
                ops.append("remove %s" % name)
                installed = [q for q in installed if name_of(q) != name]
            elif x < 0.80:
                ops.append("get %s" % rng.choice(NAMES + ["nosuch", "SetPointerPlugin", "null", "f0"]))
            elif x < 0.84:
                ops.append("reset")
                installed = []
                if with_set and rng.random() < 0.8:
                    ops.append("install set")
            elif not with_set:
                ops.append(rng.choice(["install set", "install set", "remove SetPointerPlugin", "disable set", "enable set", "newset"]))
            elif x < 0.92:
                # life cycle of the pointer plugin inside ordinary cases
                ops.extend(rng.choice([["disable set"], ["enable set"], ["remove SetPointerPlugin"], ["install set"],
                                       ["remove SetPointerPlugin", "newset", "install set"], ["newset", "install set"]]))
        ops.extend(gen_test(rng))
    if malformed:
        junk = ["install 3", "install 3", "install set", "remove null", "run bogus", "runall", "test pass i3 -", "test pass rnull -", "test fail - 9:x", "newset", "disable 100", "enable 99", "set 99 1", "set 1 99", "set 1", "run",
                "frob", "enable 77", "install", "get", "remove", "run pass"]
        for _ in range(rng.randint(1, 4)):
            ops.insert(rng.randint(0, len(ops)), rng.choice(junk))
    return ops


def small_test(rng, pool, nmax=2, outcomes=("pass", "fail")):
    return ["set %d %d" % (rng.choice(pool), rng.randrange(64)) for _ in range(rng.randint(1, nmax))] + [run_line(rng, outcomes)]


def gen_setlife(rng):
    """life cycle of the pointer plugin: tests that run while it is disabled or removed (entries stay recorded, the
    index keeps growing, also up to the limit across tests), then either the same plugin becomes active again or
    it is removed by name and a NEWLY CONSTRUCTED one is installed, then short tests on the same few pointers"""
    ops = []
    pool = rng.sample(range(52), rng.choice([1, 2, 3]))
    recs = rng.sample(range(8), rng.randint(0, 3))
    for r in recs[:len(recs) // 2]:
        ops.append("install %d" % r)
    ops.append("install set")
    for r in recs[len(recs) // 2:]:
        ops.append("install %d" % r)
    for phase in range(rng.randint(1, 4)):
        how = rng.choice(["disable", "disable", "remove", "none"])
        if how == "disable":
            ops.append("disable set")
        elif how == "remove":
            ops.append("remove SetPointerPlugin")
        for _ in range(rng.randint(0, 3)):
            if rng.random() < 0.3:
                ops.extend(small_test(rng, pool, nmax=rng.choice([12, 20, 33]), outcomes=OUTCOMES))   # towards the limit across tests
            else:
                ops.extend(small_test(rng, pool, nmax=3, outcomes=OUTCOMES))
        y = rng.random()
        if y < 0.6:
            if rng.random() < 0.8:
                ops.append("remove SetPointerPlugin")
            ops += ["newset", "install set"]
        elif y < 0.8:
            ops += ["enable set", "install set"]        # `install set` is skipped by the harness if it is still linked
        else:
            ops += ["newset"]                            # constructed but not installed
        for _ in range(rng.randint(1, 3)):
            ops.extend(small_test(rng, pool))
    return ops


def gen_batch(rng):
    """several tests through ONE TestRegistry::runAllTests; tests install / remove plugins on the running registry,
    from the body or from the post action of an installed recording plugin; every plugin installed or removed in
    test k is looked for in the logs of tests k+1.."""
    ops = []
    installed = []                       # rec ids, most recently installed first (a hint: overflowing tests skip their change)
    has_set = rng.random() < 0.8
    for r in rng.sample(range(8), rng.randint(0, 4)):
        ops.append("install %d" % r)
        installed.insert(0, r)
        if rng.random() < 0.15:
            ops.append("disable %d" % r)
    if has_set:
        ops.insert(rng.randint(0, len(ops)), "install set")
    for rep in range(rng.randint(1, 2)):
        ntests = rng.randint(2, 6)
        for k in range(ntests):
            nsets = rng.choice([0, 1, 2, 2, 5, 33 if rng.random() < 0.1 else 3])
            pool = rng.sample(range(52), 3)
            for _ in range(nsets):
                ops.append("set %d %d" % (rng.choice(pool), rng.randrange(64)))
            bm, pm = "-", "-"
            oc = outcome3(rng)
            changes = nsets <= 32 and ("/" not in oc or oc.startswith("pass/"))    # the body runs and reaches its change
            before = list(installed)          # only these see this test's post action
            x = rng.random()
            free = [q for q in range(8) if q not in installed]
            if x < 0.35 and free:
                r = rng.choice(free)
                bm = "i%d" % r
                if changes:
                    installed.insert(0, r)
            elif x < 0.6 and installed:
                # the head, the last one, or any
                r = rng.choice([installed[0], installed[-1], rng.choice(installed)])
                bm = "rp%d" % r
                if changes:
                    installed.remove(r)
            elif x < 0.65 and has_set:
                bm = "rSetPointerPlugin"
            y = rng.random()
            free = [q for q in range(8) if q not in installed]
            if y < 0.2 and before:
                actor = rng.choice(before)
                if rng.random() < 0.5 and free:
                    r = rng.choice(free)
                    pm = "%d:i%d" % (actor, r)
                    installed.insert(0, r)
                elif installed:
                    r = rng.choice(installed)
                    pm = "%d:rp%d" % (actor, r)
                    installed.remove(r)
            ops.append("test %s %s %s" % (oc, bm, pm))
        ops.append("runall")
        if rng.random() < 0.5:
            ops.extend(small_test(rng, rng.sample(range(52), 2)))
    return ops


def generate(rng, tier):
    quick = tier == "quick"
    n = 1500 if quick else 8000
    out = []
    for i in range(n):
        out.append(("gen", gen_case(rng, rng.randint(1, 10))))
    for i in range(n // 5):
        out.append(("noset", gen_case(rng, rng.randint(1, 8), with_set=False)))
    for i in range(n // 3):
        out.append(("setlife", gen_setlife(rng)))
    for i in range(n // 3):
        out.append(("midrun", gen_batch(rng)))
    for i in range(n // 8):
        out.append(("dupnames", gen_case(rng, rng.randint(1, 4), dup=True)))
    for i in range(n // 10):
        out.append(("malformed", gen_case(rng, rng.randint(1, 4), malformed=True)))
    # deep chains: remove each position of a full chain in turn
    for depth in range(1, 9):
        for k in range(depth):
            ops = ["install %d" % i for i in range(depth)] + ["remove p%d" % k, "set 1 1", "run pass"]
            out.append(("depth", ops))
            ops = ["install %d" % i for i in range(depth)] + ["install set", "remove p%d" % k, "get p%d" % k, "set 1 1", "set 1 2", "run fail"]
            out.append(("depth", ops))
    return out


def translate(ctx):
    from translate import extract_plugins
    return extract_plugins.run()


def nontrivial(r):
    has_chain = any(l.startswith("chain ") and l != "chain -" for l in r.impl)
    redirected = any(l.startswith("done ") and l != "done 0" for l in r.impl)
    return has_chain and redirected


def observe(r, rep):
    locs = []
    for l in r.impl:
        if l.startswith("result "):
            rep.count("branch.test_" + l.split()[1])
        elif l.startswith("done "):
            k = int(l.split()[1])
            rep.count("branch.redirections_%s" % ("0" if k == 0 else "1-31" if k < 32 else "32"))
        elif l.startswith("> set "):
            locs.append(l.split()[2])
        elif l.startswith("> run "):
            ph = l.split()[2].split("/")
            rep.count("branch.outcome_" + ph[1])
            if ph[0] != "pass":
                rep.count("branch.setup_ends_" + ph[0])
            if ph[2] != "pass":
                rep.count("branch.teardown_ends_" + ph[2])
            rep.count("branch.run_" + l.split()[3])
            if any(int(x) >= 40 for x in locs):
                rep.count("branch.typed_pointer_redirected")
            if len(set(locs)) < len(locs):
                rep.count("branch.repeated_target")
            if len(locs) > 32:
                rep.count("branch.more_than_limit")
            locs = []
        elif l.startswith("> test "):
            w = l.split()
            if w[3] != "-":
                rep.count("branch.midrun_body_" + ("install" if w[3][0] == "i" else "remove"))
            if w[4] != "-":
                rep.count("branch.midrun_postaction_change")
        elif l == "> runall":
            rep.count("branch.runall")
        elif l.startswith("> install ") and l.endswith("failpre"):
            rep.count("branch.failing_pre_plugin_installed")
        elif l.startswith("got sentinel"):
            rep.count("branch.lookup_sentinel")
        elif l.startswith("> remove "):
            rep.count("branch.remove")
        elif l.startswith("pre ") and l != "pre -":
            rep.count("branch.chain_len_%d" % min(len(l.split()) - 1, 9))


LEVEL_TEXT = ("Machine-checked Lean 4 theorems over an executable model of CppUTestStore / UT_PTR_SET / "
              "SetPointerPlugin::postTestAction and of the plugin chain with TestRegistry install/remove/reset, for every test "
              "body (any number of redirections, repeated targets, any outcome), any number of consecutive tests and every "
              "chain of any length: with an enabled SetPointerPlugin installed every location holds after the post actions "
              "the value from before the test and the table is empty; the (MAX_SET+1)-th store fails the test and writes "
              "neither table nor location; every test has the whole table and behaves as if it ran first; pre actions run "
              "in installation-reversed order over the enabled plugins, post actions in exactly the reverse, disabled "
              "plugins see neither and enabled ones each exactly once; with pairwise different names removePluginByName "
              "removes exactly the named plugin at any depth. MAX_SET is regenerated from the header; the model is tied to "
              "the code on every run by a differential harness (real registry, real SetPointerPlugin, real UT_PTR_SET in "
              "scripted tests ending by pass/FAIL/FAIL_C/exceptions, ASan/UBSan) and shape checks.")
LEVEL_NOTE = ("Trusted: Lean kernel; the hand-written model (validated by this run's correspondence); the extractor. Observed "
              "only: that the runner executes the post actions after a failing / throwing test (harness; the runner itself is "
              "C01's model). Outside the claim: removePluginByName(\"null\") (the sentinel's name) and cyclic chains.")
TECHNIQUE = "Lean 4 invariant proofs over an executable model + differential correspondence harness + regenerated constants and shape checks"
