"""C17 — pointers set for a test are restored after it; plugin actions nest: generator and settings."""
import os
ID = "C17"
SHRINK_BUDGET = int(os.environ.get("C17_SHRINK_BUDGET", "250"))      # the mutation trials use a smaller one
HARNESS = "h_c17"
TRUSTED = [
    "Lean 4 kernel; axioms of every theorem audited (propext, Classical.choice, Quot.sound at most)",
    "translate/extract_plugincode.py (clang++-14 JSON AST -> the statement language of Model/PluginsSyntax.lean) and the "
    "interpreter Model/PluginsTable.lean: CppUTestStore, SetPointerPlugin::postTestAction and constructor, the setlist array "
    "length, the UT_PTR_SET statement order and the bodies of runAllPre/PostTestAction are regenerated on every run; the "
    "obligations code_*_refines / never_past_the_table / code_walks_are_model are proved about the regenerated text, and the "
    "driver executes the regenerated code next to the hand-written model on every trace (a translator bug shows up as a "
    "`regenerated-…-differs` line), so the translator is cross-checked, not blindly trusted",
    "hand-written model lean/CppUModel/Model/Plugins.lean (chain operations, registry functions, Utest::run phases, test kinds, "
    "changes of the chain during a run, the command-line runner's install/run/remove sequence), tied to the code by the "
    "h_c17 correspondence of this run",
    "translate/extract_plugins.py: regenerates MAX_SET, the sentinel's name and DEF_PLUGIN_SET_POINTER, checks the shape of "
    "addPlugin, getPluginByName, TestPlugin::removePluginByName, TestRegistry::installPlugin/resetPlugins/removePluginByName/"
    "runAllTests and CommandLineTestRunner::runAllTestsMain",
    "the test runner calls runAllPreTestAction before and runAllPostTestAction after every test whatever its outcome "
    "(observed by the harness for pass / FAIL / FAIL_C / std exception / foreign exception in setup, body and teardown; "
    "proved in C01's model and connected by C17x, not here)",
]
ASSUMPTIONS = [
    "constructing a SetPointerPlugin resets the process-wide table index (regenerated: ctorCode); entries "
    "recorded by tests that ran without an enabled plugin are forgotten by a construction and otherwise undone by the next "
    "active post action (the oracle then demands the values from the last point where the table was empty; with an empty "
    "table at test start that is literally the property's clause)",
    "pointerTableIndex is modelled as an unbounded integer; the proved invariant 0 <= index <= MAX_SET shows it never leaves "
    "the range of int",
    "a plugin fails a test from its pre action through result.addFailure; a TERMINATING failure (test.fail / FAIL) raised in a pre "
    "action escapes TestRegistry::runAllTests as an exception - body and all post actions are skipped (confirmed, not driven)",
    "the command-line runner is driven with -e (unexpected exceptions are not re-thrown); with the default (re-throw) a throwing "
    "test ends the run by design and nothing after it runs",
    "a plugin object is installed at most once at a time (installing a linked object again makes the chain cyclic)",
    "removePluginByName is not called with the sentinel's own name \"null\" (see report: that unlinks the sentinel)",
    "plugin names pairwise different for the remove-exactly claim (with duplicates up to three plugins go; modelled, not claimed; "
    "this includes a user-installed plugin that carries the command-line runner's name SetPointerPlugin)",
    "no SetPointerPlugin is constructed and no nested registry run with an active pointer plugin happens INSIDE a test that has "
    "redirections pending (both act on the process-wide table; outside the quantifier, not driven)",
]
RULE = ("stream phases: single tests redirecting in setup(), body and teardown() (sset/set/tset), the three phases filling the table one "
        "after the other, exactly to the limit and one past it in each phase, failing / throwing setup (body skipped, teardown not), with "
        "the pointer plugin active, disabled (entries piling up across tests) or absent; stream cli: queued tests through "
        "CommandLineTestRunner::runAllTestsMain (-e -r1..3) on registries with any chain, with stale entries / a full table before, "
        "with a user-installed plugin of the same name, followed by single tests, a registry run or a second command-line run; "
        "stream midrun: 2-6 queued tests run by ONE TestRegistry::runAllTests, a test installing / removing (head, last, any) a "
        "plugin on the running registry from its body or from a recording plugin's post action, logs of every test of the run "
        "judged against what is installed when that test starts; 52 pointers of four types (void*, function pointer, double*, int**) through the same macro; tests also run in a "
        "separate process, as IgnoredUtestShell and run-ignored; plugins that report a failure from their pre action; "
        "countPlugins/getFirstPlugin/getPluginByName (also by the sentinel's name) observed after every chain operation; "
        "chains of 0-8 recording plugins + the real SetPointerPlugin at a random position, random enable patterns, "
        "install/remove/enable/disable/reset/get interleaved with 1-10 consecutive scripted tests doing 0-40 UT_PTR_SET "
        "(and, as <setup>/<body>/<teardown>, every way of ending in setup() and teardown() too, rethrow off) redirections over 40 pointers (targets drawn from a small subset so repeats are the rule; 32, 33 and more entries "
        "frequent) and ending by pass / FAIL / FAIL_TEXT_C / std::runtime_error / throw 42; the pointer plugin is "
        "disabled/enabled, removed by name and replaced by a NEWLY CONSTRUCTED one between tests (stream setlife: tests "
        "while it is inactive, also up to the limit across tests, then a fresh or the re-enabled plugin and short tests on "
        "the same few pointers); a tagged stream with the SetPointerPlugin absent or disabled for some tests, one with duplicate names, one malformed. "
        "On every trace the driver also runs the code regenerated from the current source (array-level state) next to the model. non-trivial = at "
        "least one test that redirected something with at least one plugin installed")

OUTCOMES = ["pass", "pass", "fail", "failc", "throw", "throwint"]
NAMES = ["p0", "p1", "p2", "p3", "p4", "p5", "p6", "p7"]


ENDS = ["pass", "fail", "failc", "throw", "throwint"]


def outcome3(rng, outcomes=OUTCOMES):
    """body only, or <setup>/<body>/<teardown> with every way of ending in every phase"""
    if rng.random() < 0.55:
        return rng.choice(outcomes)
    x = rng.random()
    if x < 0.45:
        return "pass/%s/%s" % (rng.choice(outcomes), rng.choice(ENDS[1:]))      # teardown ends badly after any body
    if x < 0.75:
        return "%s/%s/%s" % (rng.choice(ENDS[1:]), rng.choice(outcomes), rng.choice(["pass", "pass"] + ENDS[1:]))   # setup ends badly: no body
    return "%s/%s/%s" % (rng.choice(ENDS), rng.choice(ENDS), rng.choice(ENDS))


def run_line(rng, outcomes=OUTCOMES):
    x = rng.random()
    kind = "" if x < 0.75 else " sep" if x < 0.87 else " ign" if x < 0.95 else " runign"
    return "run %s%s" % (outcome3(rng, outcomes), kind)


def gen_test(rng):
    x = rng.random()
    if x < 0.30:
        n = rng.randint(0, 5)
    elif x < 0.55:
        n = rng.randint(6, 31)
    elif x < 0.70:
        n = 32
    elif x < 0.85:
        n = 33
    else:
        n = rng.randint(34, 40)
    # 52 pointers: 0..39 void*, 40..43 function pointers, 44..47 double*, 48..51 int**
    pool = rng.sample(range(52), rng.choice([1, 2, 3, 8, 52]))
    if rng.random() < 0.3:
        pool = rng.sample(range(40, 52), rng.choice([1, 3, 12]))      # the typed pointers only
    extra = []
    if rng.random() < 0.2:                       # a few redirections in setup() / teardown() as well
        extra = ["%s %d %d" % (rng.choice(["sset", "tset"]), rng.choice(pool), rng.randrange(64)) for _ in range(rng.randint(1, 3))]
    return extra + ["set %d %d" % (rng.choice(pool), rng.randrange(64)) for _ in range(n)] + [run_line(rng)]


def gen_phases(rng):
    """redirections in setup(), body and teardown() of single tests: the phases fill the table one after the other, also
    exactly to the limit and one past it in each phase; a failing / throwing setup skips the body but not teardown();
    the same few pointers in all three phases (the value that comes back is the one from before the FIRST redirection)"""
    ops = []
    recs = rng.sample(range(8), rng.randint(0, 3))
    mode = rng.random()
    for r in recs:
        ops.append("install %d" % r)
    if mode < 0.85:
        ops.insert(rng.randint(0, len(ops)), "install set")
    if mode > 0.7:
        ops.append("disable set")                      # entries pile up across tests
    pool = rng.sample(range(52), rng.choice([1, 2, 4]))
    for t in range(rng.randint(1, 5)):
        x = rng.random()
        if x < 0.4:
            ns, nb, nt = rng.randint(0, 3), rng.randint(0, 3), rng.randint(0, 3)
        elif x < 0.7:
            ns = rng.choice([0, 5, 31, 32, 33])
            nb = rng.choice([0, 1, max(0, 32 - ns), max(0, 33 - ns)])
            nt = rng.choice([0, 1, 2, max(0, 32 - ns - nb), max(0, 33 - ns - nb)])
        else:
            ns, nb, nt = rng.randint(0, 34), rng.randint(0, 34), rng.randint(0, 6)
        for _ in range(ns):
            ops.append("sset %d %d" % (rng.choice(pool), rng.randrange(64)))
        for _ in range(nb):
            ops.append("set %d %d" % (rng.choice(pool), rng.randrange(64)))
        for _ in range(nt):
            ops.append("tset %d %d" % (rng.choice(pool), rng.randrange(64)))
        kind = rng.choice(["", "", "", " sep", " runign", " ign"])
        ops.append("run %s/%s/%s%s" % (rng.choice(["pass", "pass", "pass"] + ENDS[1:]), rng.choice(ENDS), rng.choice(["pass", "pass"] + ENDS[1:]), kind))
        if mode > 0.7 and rng.random() < 0.4:
            ops.append(rng.choice(["enable set", "disable set", "newset", "install set"]))
    return ops


def gen_cli(rng):
    """the queued tests through CommandLineTestRunner::runAllTestsMain (`cli <repetitions>`): the runner constructs,
    installs and afterwards removes by name its own SetPointerPlugin; before the run: any chain (also with the
    harness' own pointer plugin, which carries the same name, installed / disabled), tests that ran without an active
    plugin (entries left recorded, also a full table); after it: single tests, a registry run, a second command-line run"""
    ops = []
    for r in rng.sample(list(range(8)) + [20], rng.randint(0, 4)):
        ops.append("install %d" % r)
        if rng.random() < 0.2:
            ops.append("disable %d" % r)
    own = rng.random()
    if own < 0.25:
        ops.insert(rng.randint(0, len(ops)), "install set")
        if rng.random() < 0.5:
            ops.append("disable set")
    pool = rng.sample(range(52), rng.choice([1, 2, 4]))
    if own >= 0.25 and rng.random() < 0.5:
        for _ in range(rng.randint(1, 3)):              # stale entries (no active plugin)
            ops.extend(small_test(rng, pool, nmax=rng.choice([2, 20, 34]), outcomes=OUTCOMES))
    for rnd in range(rng.randint(1, 2)):
        for k in range(rng.randint(1, 5)):
            for _ in range(rng.choice([0, 1, 2, 3, 5, 32, 33])):
                ops.append("set %d %d" % (rng.choice(pool), rng.randrange(64)))
            ops.append("test %s - -" % outcome3(rng))
        ops.append("cli %d" % rng.choice([1, 1, 2, 3]))
        x = rng.random()
        if x < 0.4:
            ops.extend(small_test(rng, pool))
        elif x < 0.6:
            ops += ["install set"] + small_test(rng, pool)
        elif x < 0.75:
            ops += ["set %d 1" % pool[0], "test pass - -", "set %d 2" % pool[0], "test fail - -", "runall"]
    return ops


def name_of(r):
    if r >= 20:
        return "f%d" % (r - 20)                                 # the plugins that fail in their pre action
    return "p%d" % (r if r < 8 else (3 if r == 8 else 0))      # objects 8 and 9 duplicate the names p3 and p0


def gen_case(rng, ntests, with_set=True, dup=False, malformed=False):
    """`installed` is only a hint for choosing interesting operands: the harness itself refuses to install an
    object that is already linked (that would make the chain cyclic)."""
    ops = []
    ids = list(range(8)) + ([8, 9] if dup else [])
    if rng.random() < 0.25:
        ids += [20, 21]
    first = rng.sample(ids, min(rng.randint(0, 8), len(ids)))
    installed = []
    setpos = rng.randint(0, len(first)) if with_set else -1
    for i, r in enumerate(first):
        if i == setpos:
            ops.append("install set")
        ops.append("install %d" % r)
        installed.append(r)
        if rng.random() < 0.3:
            ops.append("disable %d" % r)
    if setpos == len(first):
        ops.append("install set")
    for t in range(ntests):
        for _ in range(rng.choice([0, 0, 1, 2, 3])):
            x = rng.random()
            if x < 0.25 and installed:
                name = name_of(rng.choice(installed))
                ops.append("remove %s" % name)
                installed = [q for q in installed if name_of(q) != name]
            elif x < 0.45:
                free = [q for q in ids if q not in installed]
                if free:
                    r = rng.choice(free)
                    ops.append("install %d" % r)
                    installed.append(r)
            elif x < 0.60:
                ops.append("%s %d" % (rng.choice(["enable", "disable"]), rng.choice(ids)))
            elif x < 0.70:
                name = rng.choice(NAMES + ["nosuch"])
                ops.append("remove %s" % name)
                installed = [q for q in installed if name_of(q) != name]
            elif x < 0.80:
                ops.append("get %s" % rng.choice(NAMES + ["nosuch", "SetPointerPlugin", "null", "f0"]))
            elif x < 0.84:
                ops.append("reset")
                installed = []
                if with_set and rng.random() < 0.8:
                    ops.append("install set")
            elif not with_set:
                ops.append(rng.choice(["install set", "install set", "remove SetPointerPlugin", "disable set", "enable set", "newset"]))
            elif x < 0.92:
                # life cycle of the pointer plugin inside ordinary cases
                ops.extend(rng.choice([["disable set"], ["enable set"], ["remove SetPointerPlugin"], ["install set"],
                                       ["remove SetPointerPlugin", "newset", "install set"], ["newset", "install set"]]))
        ops.extend(gen_test(rng))
    if malformed:
        junk = ["install 3", "install 3", "install set", "remove null", "run bogus", "runall", "test pass i3 -", "test pass rnull -", "test fail - 9:x", "newset", "disable 100", "enable 99", "set 99 1", "set 1 99", "set 1", "run", "sset 1", "tset 99 1", "cli", "cli 0", "cli 9", "cli 2", "sset 1 1", "tset 2 2",
                "frob", "enable 77", "install", "get", "remove", "run pass"]
        for _ in range(rng.randint(1, 4)):
            ops.insert(rng.randint(0, len(ops)), rng.choice(junk))
    return ops


def small_test(rng, pool, nmax=2, outcomes=("pass", "fail")):
    return ["set %d %d" % (rng.choice(pool), rng.randrange(64)) for _ in range(rng.randint(1, nmax))] + [run_line(rng, outcomes)]


def gen_setlife(rng):
    """life cycle of the pointer plugin: tests that run while it is disabled or removed (entries stay recorded, the
    index keeps growing, also up to the limit across tests), then either the same plugin becomes active again or
    it is removed by name and a NEWLY CONSTRUCTED one is installed, then short tests on the same few pointers"""
    ops = []
    pool = rng.sample(range(52), rng.choice([1, 2, 3]))
    recs = rng.sample(range(8), rng.randint(0, 3))
    for r in recs[:len(recs) // 2]:
        ops.append("install %d" % r)
    ops.append("install set")
    for r in recs[len(recs) // 2:]:
        ops.append("install %d" % r)
    for phase in range(rng.randint(1, 4)):
        how = rng.choice(["disable", "disable", "remove", "none"])
        if how == "disable":
            ops.append("disable set")
        elif how == "remove":
            ops.append("remove SetPointerPlugin")
        for _ in range(rng.randint(0, 3)):
            if rng.random() < 0.3:
                ops.extend(small_test(rng, pool, nmax=rng.choice([12, 20, 33]), outcomes=OUTCOMES))   # towards the limit across tests
            else:
                ops.extend(small_test(rng, pool, nmax=3, outcomes=OUTCOMES))
        y = rng.random()
        if y < 0.6:
            if rng.random() < 0.8:
                ops.append("remove SetPointerPlugin")
            ops += ["newset", "install set"]
        elif y < 0.8:
            ops += ["enable set", "install set"]        # `install set` is skipped by the harness if it is still linked
        else:
            ops += ["newset"]                            # constructed but not installed
        for _ in range(rng.randint(1, 3)):
            ops.extend(small_test(rng, pool))
    return ops


def gen_batch(rng):
    """several tests through ONE TestRegistry::runAllTests; tests install / remove plugins on the running registry,
    from the body or from the post action of an installed recording plugin; every plugin installed or removed in
    test k is looked for in the logs of tests k+1.."""
    ops = []
    installed = []                       # rec ids, most recently installed first (a hint: overflowing tests skip their change)
    has_set = rng.random() < 0.8
    for r in rng.sample(range(8), rng.randint(0, 4)):
        ops.append("install %d" % r)
        installed.insert(0, r)
        if rng.random() < 0.15:
            ops.append("disable %d" % r)
    if has_set:
        ops.insert(rng.randint(0, len(ops)), "install set")
    for rep in range(rng.randint(1, 2)):
        ntests = rng.randint(2, 6)
        for k in range(ntests):
            nsets = rng.choice([0, 1, 2, 2, 5, 33 if rng.random() < 0.1 else 3])
            pool = rng.sample(range(52), 3)
            for _ in range(nsets):
                ops.append("set %d %d" % (rng.choice(pool), rng.randrange(64)))
            bm, pm = "-", "-"
            oc = outcome3(rng)
            changes = nsets <= 32 and ("/" not in oc or oc.startswith("pass/"))    # the body runs and reaches its change
            before = list(installed)          # only these see this test's post action
            x = rng.random()
            free = [q for q in range(8) if q not in installed]
            if x < 0.35 and free:
                r = rng.choice(free)
                bm = "i%d" % r
                if changes:
                    installed.insert(0, r)
            elif x < 0.6 and installed:
                # the head, the last one, or any
                r = rng.choice([installed[0], installed[-1], rng.choice(installed)])
                bm = "rp%d" % r
                if changes:
                    installed.remove(r)
            elif x < 0.65 and has_set:
                bm = "rSetPointerPlugin"
            y = rng.random()
            free = [q for q in range(8) if q not in installed]
            if y < 0.2 and before:
                actor = rng.choice(before)
                if rng.random() < 0.5 and free:
                    r = rng.choice(free)
                    pm = "%d:i%d" % (actor, r)
                    installed.insert(0, r)
                elif installed:
                    r = rng.choice(installed)
                    pm = "%d:rp%d" % (actor, r)
                    installed.remove(r)
            ops.append("test %s %s %s" % (oc, bm, pm))
        ops.append("runall")
        if rng.random() < 0.5:
            ops.extend(small_test(rng, rng.sample(range(52), 2)))
    return ops


def generate(rng, tier):
    quick = tier == "quick"
    n = 1500 if quick else 8000
    if os.environ.get("C17_TRIAL_CASES"):          # mutation trials on a loaded machine: fewer cases, same streams
        n = int(os.environ["C17_TRIAL_CASES"])
    out = []
    for i in range(n):
        out.append(("gen", gen_case(rng, rng.randint(1, 10))))
    for i in range(n // 5):
        out.append(("noset", gen_case(rng, rng.randint(1, 8), with_set=False)))
    for i in range(n // 3):
        out.append(("setlife", gen_setlife(rng)))
    for i in range(n // 3):
        out.append(("midrun", gen_batch(rng)))
    for i in range(n // 4 if quick else n // 8):        # (thorough: the added streams are kept at ~10 % of the run)
        out.append(("phases", gen_phases(rng)))
    for i in range(n // 5 if quick else n // 12):
        out.append(("cli", gen_cli(rng)))
    for i in range(n // 8):
        out.append(("dupnames", gen_case(rng, rng.randint(1, 4), dup=True)))
    for i in range(n // 10):
        out.append(("malformed", gen_case(rng, rng.randint(1, 4), malformed=True)))
    # deep chains: remove each position of a full chain in turn
    for depth in range(1, 9):
        for k in range(depth):
            ops = ["install %d" % i for i in range(depth)] + ["remove p%d" % k, "set 1 1", "run pass"]
            out.append(("depth", ops))
            ops = ["install %d" % i for i in range(depth)] + ["install set", "remove p%d" % k, "get p%d" % k, "set 1 1", "set 1 2", "run fail"]
            out.append(("depth", ops))
    return out


def translate(ctx):
    from translate import extract_plugins, extract_plugincode
    return (extract_plugins.run() or []) + (extract_plugincode.run() or [])


def nontrivial(r):
    has_chain = any(l.startswith("chain ") and l != "chain -" for l in r.impl)
    redirected = any(l.startswith("done ") and l != "done 0" for l in r.impl)
    return has_chain and redirected


def observe(r, rep):
    locs = []
    for l in r.impl:
        if l.startswith("result "):
            rep.count("branch.test_" + l.split()[1])
        elif l.startswith("done "):
            k = int(l.split()[1])
            rep.count("branch.redirections_%s" % ("0" if k == 0 else "1-31" if k < 32 else "32"))
        elif l.startswith("> set "):
            locs.append(l.split()[2])
        elif l.startswith("> sset ") or l.startswith("> tset "):
            rep.count("branch.redirection_in_" + ("setup" if l[2] == "s" else "teardown"))
            locs.append(l.split()[2])
        elif l.startswith("regenerated-"):
            rep.count("branch.REGENERATED_CODE_DIFFERS")
        elif l.startswith("> run "):
            ph = l.split()[2].split("/")
            rep.count("branch.outcome_" + ph[1])
            if ph[0] != "pass":
                rep.count("branch.setup_ends_" + ph[0])
            if ph[2] != "pass":
                rep.count("branch.teardown_ends_" + ph[2])
            rep.count("branch.run_" + l.split()[3])
            if any(int(x) >= 40 for x in locs):
                rep.count("branch.typed_pointer_redirected")
            if len(set(locs)) < len(locs):
                rep.count("branch.repeated_target")
            if len(locs) > 32:
                rep.count("branch.more_than_limit")
            locs = []
        elif l.startswith("> test "):
            w = l.split()
            if w[3] != "-":
                rep.count("branch.midrun_body_" + ("install" if w[3][0] == "i" else "remove"))
            if w[4] != "-":
                rep.count("branch.midrun_postaction_change")
        elif l == "> runall":
            rep.count("branch.runall")
        elif l.startswith("> cli "):
            rep.count("branch.cli_run_repeat_" + l.split()[2])
        elif l.startswith("> install ") and l.endswith("failpre"):
            rep.count("branch.failing_pre_plugin_installed")
        elif l.startswith("got sentinel"):
            rep.count("branch.lookup_sentinel")
        elif l.startswith("> remove "):
            rep.count("branch.remove")
        elif l.startswith("pre ") and l != "pre -":
            rep.count("branch.chain_len_%d" % min(len(l.split()) - 1, 9))


LEVEL_TEXT = ("Machine-checked Lean 4 theorems, for every test (any number of redirections in setup(), body and teardown(), "
              "repeated targets, any phase ending by a failure or an exception), any number of consecutive tests and repetitions "
              "and every chain of any length: with an enabled SetPointerPlugin installed every location holds after the post "
              "actions the value from before the test and the table is empty; the (MAX_SET+1)-th store fails the test and "
              "writes neither table nor location, in whichever phase the limit is reached; every test has the whole table and "
              "behaves as if it ran first; pre actions run in installation-reversed order over the enabled plugins, post "
              "actions in exactly the reverse, disabled plugins see neither and enabled ones each exactly once; with pairwise "
              "different names removePluginByName removes exactly the named plugin at any depth; a run through "
              "CommandLineTestRunner::runAllTestsMain restores every test of every repetition with no hypothesis on the "
              "registry or the table and leaves the chain as it found it. CppUTestStore, SetPointerPlugin::postTestAction, "
              "the constructor, the array length, UT_PTR_SET's statement order and the two chain walks are REGENERATED from "
              "the clang AST of the current source on every run and proved (refinement, for all states) to be the model the "
              "theorems are about, never to evaluate setlist[e] outside the array over any history, and to restore every "
              "pointer; the rest of the model (chain operations, registry, Utest::run phases, runner) is tied to the code on "
              "every run by a differential harness (real registry, real SetPointerPlugin, real UT_PTR_SET on four pointer "
              "types, real CommandLineTestRunner, ASan/UBSan) and shape checks.")
LEVEL_NOTE = ("Trusted: Lean kernel; the AST translator + interpreter (cross-checked against the hand model by theorem and on every "
              "trace); the hand-written part of the model (validated by this run's correspondence); the shape extractor. Observed "
              "only: that the runner executes the post actions after a failing / throwing test (harness; the runner itself is "
              "C01's model, connected by C17x); the (void**)&(a) cast of UT_PTR_SET on function / typed pointers (harness). "
              "Outside the claim: removePluginByName(\"null\") (the sentinel's name), cyclic chains, plugin construction or "
              "nested registry runs inside a test with pending redirections, the runner's default re-throw mode.")
TECHNIQUE = ("Lean 4 invariant + refinement proofs over an executable model; table code and chain walks translated from the clang "
             "JSON AST into an interpreted statement language on every run; differential correspondence harness; regenerated constants and shape checks")
