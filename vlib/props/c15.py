"""C15 — injected out-of-memory hits exactly the designated allocations: generator and settings."""
ID = "C15"
HARNESS = "h_c15"
KEEP_FIRST = 1          # the `mode` line
TRUSTED = [
    "Lean 4 kernel; axioms of every theorem audited (propext, Classical.choice, Quot.sound at most)",
    "translate/extract_failable_code.py (token-level C front end + symbolic execution): regenerates Gen/FailableCode.lean from the bodies of "
    "LocationToFailAllocNode::{init, failAtAllocNumber, failNthAllocAt, shouldFail}, FailableMemoryAllocator::{constructor initialisers, "
    "failAllocNumber, failNthAllocAt, alloc_memory, checkAllFailedAllocsWereDone, clearFailedAllocs} and of cpputest_malloc_set_out_of_memory, "
    "_set_not_out_of_memory, _set_out_of_memory_countdown, countdown, cpputest_malloc_location, cpputest_malloc_count_reset/get_count, the calloc "
    "overflow guard; translate/extract_failable.py regenerates Gen/FailableConstants.lean: the two countdown constants and, from "
    "src/CppUTest/MemoryLeakWarningPlugin.cpp, the operator new tables (form -> function pointer, pointer -> function for the default and the "
    "thread-safe overloads, function -> throws std::bad_alloc on NULL; two body shapes understood, anything else = cannot translate); "
    "every regenerated definition is proved equal to the hand model (gen_*_eq) and the Lean driver EXECUTES the regenerated "
    "definitions against the real code in this run's correspondence, so a translator error shows up as a disagreement",
    "idioms the translator recognises rather than translates: the cursor walk of alloc_memory (visit every node, unlink + free the firing ones, "
    "keep the others), the free-all loop of clearFailedAllocs, 'new node in front of head_'; statement lists only compared: strdup_alloc, "
    "cpputest_strdup/strndup_location, test_harness_c_strlen, the tail of cpputest_calloc_location, the forwarding wrappers",
    "hand-written parts of lean/CppUModel/Model/Failable.lean (mallocOver: the leak detector hands size/file/line to the current malloc allocator "
    "and NULL back; content of strdup/strndup/calloc results; realloc/free under the null allocator), tied by the h_c15 correspondence of this run",
    "the real allocation behind a non-designated request succeeds (platform malloc under ASan, small sizes)",
]
ASSUMPTIONS = [
    "fewer than 2^31 allocations / designations (the C++ counters are int; the model uses unbounded naturals); line numbers below 2^31 "
    "(checkAllFailedAllocsWereDone prints the line through (int))",
    "failNthAllocAt is called with a non-NULL file (a NULL file makes the node a global-index designation)",
    "LP64 (size_t is 64 bit) for the calloc overflow test",
    "which calls consume a countdown tick and count in malloc_count: every cpputest_malloc/strdup/strndup and every calloc whose "
    "product does not overflow, failing ones included; cpputest_realloc and cpputest_free never (proved on the model, judged by the oracle)",
    "an allocation that the simulated out-of-memory refuses never reaches an installed FailableMemoryAllocator: it is not one of 'the allocations' "
    "that allocator's global / local indices count (proved: out_of_memory_hides_allocation; judged by the oracle in mode fc)",
    "cpputest_malloc_set_not_out_of_memory() called while NO out-of-memory is simulated (also: while a countdown has not expired yet) resets the "
    "malloc allocator to the default one, i.e. it uninstalls a FailableMemoryAllocator the test had installed (theorem "
    "stray_not_out_of_memory_resets; observed, modelled, outside the property: after such a call the oracle judges the C level only)",
    "cpputest_realloc(NULL, n) while the null allocator is current dereferences a NULL bookkeeping node inside the leak detector "
    "(confirmed crash, outside this property's statement, not driven by the harness); realloc/free of a tracked block in that state "
    "are refused with the allocator-mismatch failure (observed and modelled)",
]
RULE = ("mode fa: workloads of 1-60 allocations over 1-4 locations (pool: a.c twice at different addresses, b.c, dir/a.c, "
        "other/a.c, an own copy of the overloads' \"<unknown>\" (line 0) and of the harness' __FILE__) and ten ways to "
        "allocate with the allocator as the CURRENT malloc/new/new[] allocator (alloc_memory, cpputest_malloc_location, operator "
        "new/new[] with location, plain new / new[], nothrow new / new[], the malloc and new MACROS), a stream that designates "
        "one location and allocates at its look-alikes, 0-6 designations of both kinds interleaved with the allocations "
        "(duplicates, several at one location, zero/negative/too-late numbers), checks and clears interleaved, in the default and "
        "(op `ts on`, also switched in the middle of a history) in the THREAD-SAFE overload mode "
        "(MemoryLeakWarningPlugin::turnOnThreadSafeNewDeleteOverloads); stream 'forms': each of the ten forms in both overload modes as "
        "the designated allocation and as its undesignated neighbour, on every run; plus, for "
        "sampled workloads, every allocation point in turn as the single designated one, by global index and by "
        "location x local index; mode c: countdown -3..12 followed by mixed malloc/strdup/strndup/calloc calls, realloc/free "
        "(outside the countdown; malloc_count judged after every call), set/unset out-of-memory interleaved; mode fc (stream 'over'): the "
        "failable allocator installed as the malloc allocator for the whole case with cpputest_malloc/strdup/strndup/calloc (\"<unknown>\":0), "
        "cpputest_malloc_location at explicit locations and direct alloc_memory calls on top, designations by global index / at \"<unknown>\":0 / "
        "at explicit locations, countdown, set/unset out-of-memory (unset almost only while it is simulated), checks, clears, count resets; "
        "stream 'boundary': the last allocation and one past it, a local count that must not survive a clear, designations firing together, "
        "global indices already in the past, INT_MAX/INT_MIN, exactly n-1 ticking calls mixed with non-ticking ones before the n-th, "
        "re-arming the countdown under out-of-memory. The exact failure text of the check is compared. "
        "non-trivial = at least one failing allocation or failing check")

FAMS = ["d", "d", "d", "m", "n", "a"]          # explicit location: alloc_memory, malloc_location, operator new / new[] (file, line)
PLAIN = ["p", "q", "t", "u"]                    # plain / nothrow new and new[]: the overloads report "<unknown>":0

LINES = [10, 10, 11, 20, 4711]


def pick_locs(rng):
    k = rng.randint(1, 4)
    locs = []
    while len(locs) < k:
        fi = rng.choice([0, 1, 2, 3, 4, 0, 2, 5, 6])     # 0 and 2 have the same content; 3 and 4 differ from it by a directory
        ln = rng.choice(LINES)
        if fi == 5:
            ln = 0                                     # "<unknown>" always comes with line 0
        if fi == 6:
            ln = rng.choice([0, 1])                    # this source file: 0 = the malloc-macro line, 1 = the new-macro line
        locs.append((fi, ln))
    return locs


def content(fi):
    return {0: "a.c", 1: "b.c", 2: "a.c", 3: "dir/a.c", 4: "other/a.c", 5: "<unknown>", 6: "<harness>"}[fi]


def fam_for(rng, loc):
    """a family that reports the allocation at this location"""
    fi, ln = loc
    if fi == 5:
        return rng.choice(PLAIN + PLAIN + FAMS)        # the overloads' own "<unknown>", or our copy of it passed explicitly
    if fi == 6:
        return rng.choice(["M" if ln % 2 == 0 else "W"] * 2 + FAMS)
    return rng.choice(FAMS)


def eff(loc, fam):
    """the location the allocator sees (content, line key)"""
    fi, ln = loc
    if fam in PLAIN or fi == 5:
        return ("<unknown>", 0)
    if fam == "M":
        return ("<harness>", 0)
    if fam == "W":
        return ("<harness>", 1)
    if fi == 6:
        return ("<harness>", ln % 2)
    return (content(fi), ln)


def gen_fa(rng, nalloc, malformed=False):
    """free mix of designations, allocations, checks, clears"""
    ops = ["mode fa"]
    if rng.random() < 0.4:
        ops.append("ts on")                          # the thread-safe operator new / malloc overloads
    locs = pick_locs(rng)
    ndes = rng.randint(0, 6)
    # positions (in allocation count) at which designations are made
    des_at = sorted(rng.randint(0, nalloc) for _ in range(ndes))
    done = 0                       # allocations of the epoch
    per_loc = {}
    for k in range(nalloc + 1):
        while des_at and des_at[0] == k:
            des_at.pop(0)
            x = rng.random()
            if x < 0.45:
                # global index: mostly in the near future, sometimes already passed / zero / negative
                y = rng.random()
                if y < 0.75:
                    n = done + rng.randint(1, 6)
                elif y < 0.9:
                    n = rng.randint(1, max(1, done))
                else:
                    n = rng.choice([0, -1, -7]) if not malformed else rng.choice([0, -1, 2147483647, -2147483648])
                ops.append("failnum %d" % n)
                if rng.random() < 0.15:
                    ops.append("failnum %d" % n)            # duplicate designation
            else:
                fi, ln = rng.choice(locs)
                y = rng.random()
                if y < 0.85:
                    n = rng.randint(1, 4)
                else:
                    n = rng.choice([0, -1, 9]) if not malformed else rng.choice([0, -3, 2147483647])
                ops.append("failat %d %d %d" % (n, fi, ln))
                if rng.random() < 0.35:                       # a second designation at the same location
                    ops.append("failat %d %d %d" % (max(1, n + rng.choice([-1, 0, 1])), rng.choice([fi, fi, 2 - fi if fi in (0, 2) else fi]), ln))
        if k == nalloc:
            break
        x = rng.random()
        if x < 0.06:
            ops.append("check")
        elif x < 0.10:
            ops.append("clear")
            done = 0
        elif x < 0.13:
            ops.append(rng.choice(["ts on", "ts off"]))       # switching in the middle of a history
        fi, ln = rng.choice(locs)
        ops.append("alloc %d %d %d %s" % (rng.choice([1, 8, 24, 100]), fi, ln, fam_for(rng, (fi, ln))))
        done += 1
    if rng.random() < 0.85:
        ops.append("check")
    if rng.random() < 0.4:
        ops.append("clear")
        if rng.random() < 0.7:
            # after a clear: normal behaviour, indices restart
            if rng.random() < 0.5:
                ops.append("failnum %d" % rng.randint(1, 3))
            for _ in range(rng.randint(1, 4)):
                fi, ln = rng.choice(locs)
                ops.append("alloc 8 %d %d %s" % (fi, ln, fam_for(rng, (fi, ln))))
            ops.append("check")
    if malformed:
        junk = ["cd 3", "cmalloc 8", "frob", "failat 1", "alloc 8 0 10", "mode c", "failnum", "oom"]
        for _ in range(rng.randint(1, 4)):
            ops.insert(rng.randint(1, len(ops)), rng.choice(junk))
    return ops


def workload(rng, nalloc):
    locs = pick_locs(rng)
    out = []
    for _ in range(nalloc):
        loc = rng.choice(locs)
        out.append((loc, fam_for(rng, loc)))
    return out


def single_point_cases(rng, wl):
    """every allocation point of the workload in turn as the single designated one"""
    out = []
    for k in range(len(wl)):
        (fi, ln), famk = wl[k]
        # by global index, designated up front; one of the two cases of a point runs with the thread-safe overloads
        tsg = rng.random() < 0.5
        ops = ["mode fa"] + (["ts on"] if tsg else []) + ["failnum %d" % (k + 1)]
        ops += ["alloc 8 %d %d %s" % (l[0], l[1], fam) for (l, fam) in wl]
        ops.append("check")
        out.append(ops)
        # by location x local index, designation made after `start` allocations
        start = rng.randint(0, k)
        local = sum(1 for (l, f) in wl[start:k + 1] if eff(l, f) == eff((fi, ln), famk))
        ops = ["mode fa"] + ([] if tsg else ["ts on"])
        for i, (l, fam) in enumerate(wl):
            if i == start:
                dfi, dln = fi, ln
                if famk in PLAIN:
                    dfi, dln = 5, 0
                elif famk in ("M", "W"):
                    dfi, dln = 6, (0 if famk == "M" else 1)
                elif fi in (0, 2) and rng.random() < 0.5:
                    dfi = 2 - fi                      # designate through the OTHER pointer with the same content
                ops.append("failat %d %d %d" % (local, dfi, dln))
            ops.append("alloc 8 %d %d %s" % (l[0], l[1], fam))
        ops.append("check")
        out.append(ops)
    # and one designation beyond the workload: nothing fails, the check reports it
    ops = ["mode fa", "failnum %d" % (len(wl) + 1)] + ["alloc 8 %d %d %s" % (l[0], l[1], fam) for (l, fam) in wl] + ["check"]
    out.append(ops)
    return out


def gen_locations(rng):
    kind = rng.choice(["samecontent", "directory", "unknown", "macro"])
    ops = ["mode fa"] + (["ts on"] if rng.random() < 0.4 else [])
    if kind == "samecontent":
        des, allocs = (0, 10), [((2, 10), None), ((0, 10), None), ((1, 10), None), ((2, 11), None)]
    elif kind == "directory":
        des, allocs = (rng.choice([0, 3, 4]), 10), [((0, 10), None), ((3, 10), None), ((4, 10), None), ((2, 10), None)]
    elif kind == "unknown":
        des, allocs = (5, 0), [((5, 0), f) for f in PLAIN + ["n", "d"]] + [((0, 10), None)]
    else:
        k = rng.choice([0, 1])
        des, allocs = (6, k), [((6, 0), "M"), ((6, 1), "W"), ((6, k), "m"), ((0, 10), None), ((5, 0), "p")]
    n = rng.randint(1, 3)
    ops.append("failat %d %d %d" % (n, des[0], des[1]))
    if rng.random() < 0.3:
        ops.append("failat %d %d %d" % (rng.randint(1, 3), des[0], des[1]))
    for _ in range(rng.randint(2, 9)):
        loc, fam = rng.choice(allocs)
        ops.append("alloc 8 %d %d %s" % (loc[0], loc[1], fam or rng.choice(FAMS)))
    ops.append("check")
    return ops


STRS = ["-", "61", "68656c6c6f", "6162636465666768696a6b6c6d6e6f707172737475767778797a", "ff8001"]


def c_call(rng):
    if rng.random() < 0.15:
        # outside the countdown: never a tick, never counted
        return rng.choice(["crealloc %d %d" % (rng.randrange(8), rng.choice([1, 16, 200])), "cfree %d 0" % rng.randrange(8)])
    x = rng.random()
    if x < 0.35:
        return "cmalloc %d" % rng.choice([1, 7, 64, 1000])
    if x < 0.55:
        return "cstrdup %s" % rng.choice(STRS)
    if x < 0.75:
        return "cstrndup %s %d" % (rng.choice(STRS), rng.choice([0, 1, 3, 5, 26, 100]))
    y = rng.random()
    if y < 0.7:
        return "ccalloc %d %d" % (rng.choice([0, 1, 3, 16]), rng.choice([0, 1, 4, 32]))
    return "ccalloc %d %d" % rng.choice([(9223372036854775809, 2), (2, 9223372036854775809), (4294967296, 4294967296),
                                         (18446744073709551615, 18446744073709551615), (6148914691236517206, 3)])


def gen_c(rng, n_cd, malformed=False):
    ops = ["mode c"]
    if rng.random() < 0.3:
        for _ in range(rng.randint(0, 3)):
            ops.append(c_call(rng))
    ops.append("cd %d" % n_cd)
    for _ in range(rng.randint(0, 16)):
        x = rng.random()
        if x < 0.80:
            ops.append(c_call(rng))
        elif x < 0.86:
            ops.append("notoom")
        elif x < 0.90:
            ops.append("oom")
        elif x < 0.95:
            ops.append("cd %d" % rng.randint(-2, 5))
        else:
            ops.append("creset")
    if malformed:
        junk = ["failnum 1", "alloc 8 0 10 d", "check", "cd", "cstrdup zz", "ccalloc 1", "clear"]
        for _ in range(rng.randint(1, 3)):
            ops.insert(rng.randint(1, len(ops)), rng.choice(junk))
    return ops


def gen_fc(rng):
    """the C-level API on top of an installed failable allocator: designations (global index, "<unknown>":0 = the location the
    plain C calls report, and explicit locations reached through cpputest_malloc_location), countdown and set / unset
    out-of-memory.  The generator follows the C-level state so that `notoom` is (almost) only sent while out-of-memory is
    simulated: sent at another moment it resets the malloc allocator to the default one (see ASSUMPTIONS)."""
    ops = ["mode fc"] + (["ts on"] if rng.random() < 0.3 else [])
    oom, cd = False, None
    locs = [(5, 0), (5, 0), (rng.choice([0, 1, 2, 3]), rng.choice(LINES)), (6, 0)]
    done = 0

    def tick():
        nonlocal oom, cd
        if cd is not None:
            n, k = cd
            if n <= k + 1:
                oom, cd = True, None
            else:
                cd = (n, k + 1)

    for _ in range(rng.randint(3, 30)):
        x = rng.random()
        if x < 0.16:
            y = rng.random()
            if y < 0.5:
                ops.append("failnum %d" % (done + rng.randint(1, 4)))
            else:
                fi, ln = rng.choice(locs)
                ops.append("failat %d %d %d" % (rng.randint(1, 3), fi, ln))
        elif x < 0.24:
            n = rng.choice([0, 1, 1, 2, 3, 5, -1])
            ops.append("cd %d" % n)
            if n == 0:
                oom, cd = True, None
            elif n < 0:
                cd = None
            else:
                cd = (n, 0)
        elif x < 0.28:
            ops.append("oom")
            oom = True
        elif x < 0.36:
            if oom or rng.random() < 0.04:
                ops.append("notoom")
                oom, cd = False, None
        elif x < 0.40:
            ops.append("check")
        elif x < 0.43:
            ops.append("clear")
            done = 0
        elif x < 0.45:
            ops.append("creset")
        elif x < 0.50:
            # directly, not through the malloc path: always reaches the allocator
            fi, ln = rng.choice(locs)
            ops.append("alloc 8 %d %d d" % (fi, ln))
            done += 1
        else:
            y = rng.random()
            if y < 0.3:
                fi, ln = rng.choice(locs)
                ops.append("alloc 8 %d %d %s" % (fi, ln, "M" if fi == 6 else "m"))
            elif y < 0.5:
                ops.append("cmalloc %d" % rng.choice([1, 7, 64]))
            elif y < 0.7:
                ops.append("cstrdup %s" % rng.choice(STRS))
            elif y < 0.85:
                ops.append("cstrndup %s %d" % (rng.choice(STRS), rng.choice([0, 1, 3, 5, 26, 100])))
            elif y < 0.97:
                ops.append("ccalloc %d %d" % (rng.choice([0, 1, 3, 16]), rng.choice([0, 1, 4, 32])))
            else:
                ops.append("ccalloc 4294967296 4294967296")
                continue
            tick()
            if not oom:
                done += 1
    ops.append("check")
    return ops


def gen_boundary(rng):
    """exact boundaries: the last allocation / one past it, a count that must not survive a clear, designations that fire
    together (same location and number; global index and location on one allocation, neighbours in the list), global
    indices that are already in the past when designated, INT_MAX / INT_MIN; at the C level exactly n-1 ticking calls
    mixed with calls that must not tick, then the n-th"""
    kind = rng.choice(["last", "clear_resets_local", "together", "past", "c_exact", "c_rearm"])
    fi, ln = rng.choice([(0, 10), (2, 10), (1, 20), (5, 0), (6, 0)])
    ofi, oln = rng.choice([(1, 11), (3, 10), (4, 10)])
    fam = lambda f, l: fam_for(rng, (f, l))
    A = lambda f, l: "alloc 8 %d %d %s" % (f, l, fam(f, l))
    if kind == "last":
        n = rng.randint(1, 9)
        ops = ["mode fa", "failnum %d" % (n + rng.choice([0, 0, 1])), "failat %d %d %d" % (rng.choice([n, n + 1]), fi, ln)]
        ops += [A(fi, ln) for _ in range(n)] + ["check"]
    elif kind == "clear_resets_local":
        n = rng.randint(2, 5)
        ops = ["mode fa", "failat %d %d %d" % (n, fi, ln)] + [A(fi, ln) for _ in range(n - 1)] + ["check", "clear", "check"]
        if rng.random() < 0.6:
            ops.append("failat %d %d %d" % (n, fi, ln))
        ops += [A(fi, ln) for _ in range(n)] + ["check"]
    elif kind == "together":
        k = rng.randint(1, 4)
        ops = ["mode fa"]
        pre = rng.randint(0, 2)
        ops += [A(ofi, oln) for _ in range(pre)]
        des = ["failat %d %d %d" % (k, fi, ln), "failat %d %d %d" % (k, fi, ln), "failnum %d" % (pre + k), "failnum %d" % (pre + k + 1)]
        rng.shuffle(des)
        ops += des[:rng.randint(2, 4)]
        ops += [A(fi, ln) for _ in range(k + 2)] + ["check"]
    elif kind == "past":
        pre = rng.randint(1, 6)
        ops = ["mode fa"] + [A(fi, ln) for _ in range(pre)]
        ops += ["failnum %d" % pre, "failnum %d" % (pre + 1), "failnum %d" % rng.choice([2147483647, -2147483648, 0])]
        ops += [A(ofi, oln), A(fi, ln), "check", "clear", "check", "failnum 1", A(fi, ln), A(fi, ln), "check"]
    elif kind == "c_exact":
        n = rng.randint(1, 6)
        ops = ["mode c"] + [c_call(rng) for _ in range(rng.randint(0, 2))] + ["cd %d" % n]
        notick = ["ccalloc 4294967296 4294967296", "crealloc 0 16", "cfree 0 0", "creset", "ccalloc 9223372036854775809 2"]
        tick = ["cmalloc 8", "cstrdup 6162", "cstrndup 616263 2", "ccalloc 3 4", "ccalloc 0 0"]
        for _ in range(n - 1):
            if rng.random() < 0.5:
                ops.append(rng.choice(notick))
            ops.append(rng.choice(tick))
        if rng.random() < 0.3:
            ops += ["notoom", rng.choice(tick), rng.choice(tick)]      # cleared before it expired: nothing may fail afterwards
        else:
            ops += [rng.choice(notick), rng.choice(tick), rng.choice(tick), "notoom", rng.choice(tick)]
    else:
        n = rng.randint(1, 3)
        tick = ["cmalloc 8", "cstrdup 6162", "cstrndup 616263 2", "ccalloc 3 4"]
        ops = ["mode c", "cd %d" % n] + [rng.choice(tick) for _ in range(n + 1)]
        ops += [rng.choice(["cd 2", "cd 5", "oom", "cd -1"])] + [rng.choice(tick) for _ in range(3)] + ["notoom"] + [rng.choice(tick) for _ in range(2)]
        ops += ["cd 1", rng.choice(tick), "notoom", rng.choice(tick)]
    if ops[0] == "mode fa" and rng.random() < 0.3:
        ops.insert(1, "ts on")
    return ops


ALLFAMS = "dmMnapqtuW"


def gen_forms():
    """every allocation form, in the default and in the thread-safe overload mode, once as the designated allocation (by global
    index; then a second, undesignated one) and once undesignated behind a designated neighbour: a fixed set, run on every seed"""
    out = []
    for ts in (False, True):
        for fam in ALLFAMS:
            fi, ln = (5, 0) if fam in PLAIN else (6, 0 if fam == "M" else 1) if fam in "MW" else (0, 10)
            a = "alloc 8 %d %d %s" % (fi, ln, fam)
            head = ["mode fa"] + (["ts on"] if ts else [])
            out.append(head + ["failnum 1", a, a, "check"])
            out.append(head + ["failnum 2", a, a, a, "check"])
            dfi, dln = (5, 0) if fam in PLAIN else (fi, ln)
            out.append(head + ["failat 2 %d %d" % (dfi, dln), a, "ts off" if ts else "ts on", a, a, "check"])
    return out


def generate(rng, tier):
    quick = tier == "quick"
    out = []
    n = 3000 if quick else 12000
    for i in range(n):
        ln = rng.choice([1, 3, 8, 20, 40, 60]) if quick else rng.randint(1, 60)
        out.append(("fa", gen_fa(rng, ln)))
    # every allocation point in turn
    nwl = 20 if quick else 80
    for i in range(nwl):
        wl = workload(rng, rng.randint(1, 14) if quick else rng.randint(1, 60))
        for ops in single_point_cases(rng, wl):
            out.append(("point", ops))
    # locations: the same name through another pointer, names that differ only by the directory, the overloads' own
    # "<unknown>":0 and the macro locations, each as the only designated location of a small workload
    for i in range(150 if quick else 1500):
        out.append(("locations", gen_locations(rng)))
    for rep in range(20 if quick else 100):
        for n_cd in range(-3, 13):
            out.append(("countdown", gen_c(rng, n_cd)))
    for i in range(600 if quick else 6000):
        out.append(("over", gen_fc(rng)))
    for i in range(300 if quick else 3000):
        out.append(("boundary", gen_boundary(rng)))
    for ops in gen_forms():
        out.append(("forms", ops))
    for i in range(n // 10):
        if rng.random() < 0.6:
            out.append(("malformed", gen_fa(rng, rng.choice([2, 6, 12]), malformed=True)))
        else:
            out.append(("malformed", gen_c(rng, rng.randint(-3, 12), malformed=True)))
    return out


def translate(ctx):
    from translate import extract_failable, extract_failable_code
    problems = extract_failable.run() or []
    return problems + (extract_failable_code.run() or [])


def nontrivial(r):
    return any(l in ("ret null", "ret throw") or l.startswith("check fail") for l in r.impl)


def observe(r, rep):
    mode = ""
    ts = False
    for l in r.impl:
        if l.startswith("> mode "):
            mode = l.split()[2]
        elif l.startswith("> ts "):
            ts = l == "> ts on"
            rep.count("branch.overloads_" + ("threadsafe" if ts else "default_again"))
        elif ts and l in ("ret null", "ret throw", "ret ok"):
            rep.count("branch.%s.threadsafe_alloc_%s" % (mode, l.split()[1]))
            if l == "ret ok":
                rep.count("branch.%s.alloc_succeeds" % mode)
            else:
                rep.count("branch.%s.alloc_fails_%s" % (mode, l.split()[1]))
        elif l == "ret ok":
            rep.count("branch.%s.alloc_succeeds" % mode)
        elif l in ("ret null", "ret throw"):
            rep.count("branch.%s.alloc_fails_%s" % (mode, l.split()[1]))
        elif l.startswith("fired "):
            k = len(l.split()) - 1
            rep.count("branch.fired_%s" % ("one" if k == 1 else "several"))
        elif l.startswith("check fail number"):
            rep.count("branch.check_reports_number")
        elif l.startswith("check fail at"):
            rep.count("branch.check_reports_location")
        elif l == "check ok":
            rep.count("branch.check_ok")
        elif l.startswith("freed ") and l != "freed -":
            rep.count("branch.clear_releases_pending")
        elif l.startswith("> alloc "):
            rep.count("family." + l.split()[-1] + (".threadsafe" if ts else ""))
            if l.split()[2] in ("<unknown>", "<harness>"):
                rep.count("branch.alloc_at_" + l.split()[2].strip("<>"))
        elif l.startswith("text "):
            rep.count("branch.check_text_compared")
        elif mode == "fc" and l.startswith("> notoom"):
            rep.count("branch.fc.notoom")
        elif l.startswith("failure "):
            rep.count("branch.c.release_" + l.split()[1])
        elif l.startswith("ret zeros"):
            rep.count("branch.c.calloc_zeroed")
        elif l.startswith("ret ") and mode == "c":
            rep.count("branch.c.strdup_copy")


LEVEL_TEXT = ("Machine-checked Lean 4 theorems (86 obligations) over an executable model of FailableMemoryAllocator / LocationToFailAllocNode "
              "and of the C-level malloc countdown, for every history of designations, allocations (any locations), checks and "
              "clears of any length: an allocation fails iff it is designated (global index since construction/clear, or local "
              "index at its location since the designation was made) - also as one statement about the result list of a whole history "
              "(whole_history_outcomes) and as a bound (no history fails more allocations than it designates); every designation is "
              "consumed exactly once; the linked list equals the designations that have not fired and checkAllFailedAllocsWereDone "
              "reports the most recent of them with the regenerated text, passing iff there is none; after clearFailedAllocs the "
              "allocator behaves like a fresh one; countdown n fails exactly the allocating calls k with 0 <= n <= k, on top of any "
              "installed allocator, which set_not_out_of_memory re-installs; strdup/strndup/calloc return NULL exactly when their "
              "allocation fails, whether the countdown or an installed failable allocator refuses it (calloc also on overflow: the "
              "regenerated guard is proved to mean product >= 2^64). The definitions these theorems are about are REGENERATED from the "
              "function bodies of the current source on every run and proved equal to the hand model (gen_*_eq, regenerated_*); the Lean "
              "driver executes the regenerated definitions against the real code (all allocation families, real C entry points, "
              "ASan/UBSan), and the implementation's own observations are judged by an oracle that evaluates the theorem's predicate on "
              "the call history.")
LEVEL_NOTE = ("Regenerated and proved: see TRUSTED. Recognised as idioms (an edit outside the idiom is reported as 'cannot translate' and the "
              "harness searches for a failing input): the two list loops, the node push. Observed by the harness, not proved: plain new / "
              "new[] report \"<unknown>\":0 and throw std::bad_alloc, the nothrow forms and the malloc macro return NULL, the macros report "
              "the source file and line of the statement; that operator new turns a NULL from the allocator into std::bad_alloc and that the "
              "tracked malloc/new paths hand file and line through to alloc_memory unchanged (regenerated and proved: which function each "
              "operator new form reaches in the default and in the thread-safe overload mode and whether that function's body throws on NULL - "
              "gen_formThrows_eq, outcome_independent_of_overload_mode, regenerated_outcome_iff_designated; the allocMemory call inside those "
              "bodies and the MemLeakScopedMutex are only recognised) (hand-modelled as mallocOver for the malloc path, "
              "exercised by families m/M and mode fc); byte content of strdup/strndup/calloc results (model + oracle compare them, the copy "
              "loop itself belongs to C05); UtestShell::failWith / StringFromFormat behind the check (exactly one failure and its text are "
              "compared). int wrap-around of the counters is outside the claim.")
TECHNIQUE = ("Lean 4 refinement/invariant proofs over an executable model whose definitions are regenerated from the C++ function bodies "
             "(token-level translator + symbolic execution) and proved equal to the hand model + differential correspondence harness "
             "executing the regenerated definitions")
