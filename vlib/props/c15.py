"""C15 — injected out-of-memory hits exactly the designated allocations: generator and settings."""
ID = "C15"
HARNESS = "h_c15"
KEEP_FIRST = 1          # the `mode` line
TRUSTED = [
    "Lean 4 kernel; axioms of every theorem audited (propext, Classical.choice, Quot.sound at most)",
    "hand-written model lean/CppUModel/Model/Failable.lean, tied to src/CppUTest/TestMemoryAllocator.cpp "
    "(FailableMemoryAllocator, LocationToFailAllocNode) and src/CppUTest/TestHarness_c.cpp (countdown, strdup/strndup/calloc) "
    "by the h_c15 correspondence of this run",
    "translate/extract_failable.py: regenerates NO_COUNTDOWN / OUT_OF_MEMORRY and checks the shape of shouldFail, "
    "clearFailedAllocs, countdown, set_out_of_memory(_countdown), set_not_out_of_memory, cpputest_malloc_location, "
    "strdup_alloc, cpputest_calloc_location",
    "the real allocation behind a non-designated request succeeds (platform malloc under ASan, small sizes)",
]
ASSUMPTIONS = [
    "fewer than 2^31 allocations / designations (the C++ counters are int; the model uses unbounded naturals)",
    "failNthAllocAt is called with a non-NULL file (a NULL file makes the node a global-index designation)",
    "LP64 (size_t is 64 bit) for the calloc overflow test",
    "which calls consume a countdown tick and count in malloc_count: every cpputest_malloc/strdup/strndup and every calloc whose "
    "product does not overflow, failing ones included; cpputest_realloc and cpputest_free never (proved on the model, judged by the oracle)",
    "cpputest_realloc(NULL, n) while the null allocator is current dereferences a NULL bookkeeping node inside the leak detector "
    "(confirmed crash, outside this property's statement, not driven by the harness); realloc/free of a tracked block in that state "
    "are refused with the allocator-mismatch failure (observed and modelled)",
]
RULE = ("mode fa: workloads of 1-60 allocations over 1-4 locations (pool: a.c twice at different addresses, b.c, dir/a.c, "
        "other/a.c, an own copy of the overloads' \"<unknown>\" (line 0) and of the harness' __FILE__) and ten ways to "
        "allocate with the allocator as the CURRENT malloc/new/new[] allocator (alloc_memory, cpputest_malloc_location, operator "
        "new/new[] with location, plain new / new[], nothrow new / new[], the malloc and new MACROS), a stream that designates "
        "one location and allocates at its look-alikes, 0-6 designations of both kinds interleaved with the allocations "
        "(duplicates, several at one location, zero/negative/too-late numbers), checks and clears interleaved; plus, for "
        "sampled workloads, every allocation point in turn as the single designated one, by global index and by "
        "location x local index; mode c: countdown -3..12 followed by mixed malloc/strdup/strndup/calloc calls, realloc/free "
        "(outside the countdown; malloc_count judged after every call), set/unset out-of-memory interleaved. non-trivial = at least one failing allocation or failing check")

FAMS = ["d", "d", "d", "m", "n", "a"]          # explicit location: alloc_memory, malloc_location, operator new / new[] (file, line)
PLAIN = ["p", "q", "t", "u"]                    # plain / nothrow new and new[]: the overloads report "<unknown>":0

LINES = [10, 10, 11, 20, 4711]


def pick_locs(rng):
    k = rng.randint(1, 4)
    locs = []
    while len(locs) < k:
        fi = rng.choice([0, 1, 2, 3, 4, 0, 2, 5, 6])     # 0 and 2 have the same content; 3 and 4 differ from it by a directory
        ln = rng.choice(LINES)
        if fi == 5:
            ln = 0                                     # "<unknown>" always comes with line 0
        if fi == 6:
            ln = rng.choice([0, 1])                    # this source file: 0 = the malloc-macro line, 1 = the new-macro line
        locs.append((fi, ln))
    return locs


def content(fi):
    return {0: "a.c", 1: "b.c", 2: "a.c", 3: "dir/a.c", 4: "other/a.c", 5: "<unknown>", 6: "<harness>"}[fi]


def fam_for(rng, loc):
    """a family that reports the allocation at this location"""
    fi, ln = loc
    if fi == 5:
        return rng.choice(PLAIN + PLAIN + FAMS)        # the overloads' own "<unknown>", or our copy of it passed explicitly
    if fi == 6:
        return rng.choice(["M" if ln % 2 == 0 else "W"] * 2 + FAMS)
    return rng.choice(FAMS)


def eff(loc, fam):
    """the location the allocator sees (content, line key)"""
    fi, ln = loc
    if fam in PLAIN or fi == 5:
        return ("<unknown>", 0)
    if fam == "M":
        return ("<harness>", 0)
    if fam == "W":
        return ("<harness>", 1)
    if fi == 6:
        return ("<harness>", ln % 2)
    return (content(fi), ln)


def gen_fa(rng, nalloc, malformed=False):
    """free mix of designations, allocations, checks, clears"""
    ops = ["mode fa"]
    locs = pick_locs(rng)
    ndes = rng.randint(0, 6)
    # positions (in allocation count) at which designations are made
    des_at = sorted(rng.randint(0, nalloc) for _ in range(ndes))
    done = 0                       # allocations of the epoch
    per_loc = {}
    for k in range(nalloc + 1):
        while des_at and des_at[0] == k:
            des_at.pop(0)
            x = rng.random()
            if x < 0.45:
                # global index: mostly in the near future, sometimes already passed / zero / negative
                y = rng.random()
                if y < 0.75:
                    n = done + rng.randint(1, 6)
                elif y < 0.9:
                    n = rng.randint(1, max(1, done))
                else:
                    n = rng.choice([0, -1, -7]) if not malformed else rng.choice([0, -1, 2147483647, -2147483648])
                ops.append("failnum %d" % n)
                if rng.random() < 0.15:
                    ops.append("failnum %d" % n)            # duplicate designation
            else:
                fi, ln = rng.choice(locs)
                y = rng.random()
                if y < 0.85:
                    n = rng.randint(1, 4)
                else:
                    n = rng.choice([0, -1, 9]) if not malformed else rng.choice([0, -3, 2147483647])
                ops.append("failat %d %d %d" % (n, fi, ln))
                if rng.random() < 0.35:                       # a second designation at the same location
                    ops.append("failat %d %d %d" % (max(1, n + rng.choice([-1, 0, 1])), rng.choice([fi, fi, 2 - fi if fi in (0, 2) else fi]), ln))
        if k == nalloc:
            break
        x = rng.random()
        if x < 0.06:
            ops.append("check")
        elif x < 0.10:
            ops.append("clear")
            done = 0
        fi, ln = rng.choice(locs)
        ops.append("alloc %d %d %d %s" % (rng.choice([1, 8, 24, 100]), fi, ln, fam_for(rng, (fi, ln))))
        done += 1
    if rng.random() < 0.85:
        ops.append("check")
    if rng.random() < 0.4:
        ops.append("clear")
        if rng.random() < 0.7:
            # after a clear: normal behaviour, indices restart
            if rng.random() < 0.5:
                ops.append("failnum %d" % rng.randint(1, 3))
            for _ in range(rng.randint(1, 4)):
                fi, ln = rng.choice(locs)
                ops.append("alloc 8 %d %d %s" % (fi, ln, fam_for(rng, (fi, ln))))
            ops.append("check")
    if malformed:
        junk = ["cd 3", "cmalloc 8", "frob", "failat 1", "alloc 8 0 10", "mode c", "failnum", "oom"]
        for _ in range(rng.randint(1, 4)):
            ops.insert(rng.randint(1, len(ops)), rng.choice(junk))
    return ops


def workload(rng, nalloc):
    locs = pick_locs(rng)
    out = []
    for _ in range(nalloc):
        loc = rng.choice(locs)
        out.append((loc, fam_for(rng, loc)))
    return out


def single_point_cases(rng, wl):
    """every allocation point of the workload in turn as the single designated one"""
    out = []
    for k in range(len(wl)):
        (fi, ln), famk = wl[k]
        # by global index, designated up front
        ops = ["mode fa", "failnum %d" % (k + 1)]
        ops += ["alloc 8 %d %d %s" % (l[0], l[1], fam) for (l, fam) in wl]
        ops.append("check")
        out.append(ops)
        # by location x local index, designation made after `start` allocations
        start = rng.randint(0, k)
        local = sum(1 for (l, f) in wl[start:k + 1] if eff(l, f) == eff((fi, ln), famk))
        ops = ["mode fa"]
        for i, (l, fam) in enumerate(wl):
            if i == start:
                dfi, dln = fi, ln
                if famk in PLAIN:
                    dfi, dln = 5, 0
                elif famk in ("M", "W"):
                    dfi, dln = 6, (0 if famk == "M" else 1)
                elif fi in (0, 2) and rng.random() < 0.5:
                    dfi = 2 - fi                      # designate through the OTHER pointer with the same content
                ops.append("failat %d %d %d" % (local, dfi, dln))
            ops.append("alloc 8 %d %d %s" % (l[0], l[1], fam))
        ops.append("check")
        out.append(ops)
    # and one designation beyond the workload: nothing fails, the check reports it
    ops = ["mode fa", "failnum %d" % (len(wl) + 1)] + ["alloc 8 %d %d %s" % (l[0], l[1], fam) for (l, fam) in wl] + ["check"]
    out.append(ops)
    return out


def gen_locations(rng):
    kind = rng.choice(["samecontent", "directory", "unknown", "macro"])
    ops = ["mode fa"]
    if kind == "samecontent":
        des, allocs = (0, 10), [((2, 10), None), ((0, 10), None), ((1, 10), None), ((2, 11), None)]
    elif kind == "directory":
        des, allocs = (rng.choice([0, 3, 4]), 10), [((0, 10), None), ((3, 10), None), ((4, 10), None), ((2, 10), None)]
    elif kind == "unknown":
        des, allocs = (5, 0), [((5, 0), f) for f in PLAIN + ["n", "d"]] + [((0, 10), None)]
    else:
        k = rng.choice([0, 1])
        des, allocs = (6, k), [((6, 0), "M"), ((6, 1), "W"), ((6, k), "m"), ((0, 10), None), ((5, 0), "p")]
    n = rng.randint(1, 3)
    ops.append("failat %d %d %d" % (n, des[0], des[1]))
    if rng.random() < 0.3:
        ops.append("failat %d %d %d" % (rng.randint(1, 3), des[0], des[1]))
    for _ in range(rng.randint(2, 9)):
        loc, fam = rng.choice(allocs)
        ops.append("alloc 8 %d %d %s" % (loc[0], loc[1], fam or rng.choice(FAMS)))
    ops.append("check")
    return ops


STRS = ["", "61", "68656c6c6f", "6162636465666768696a6b6c6d6e6f707172737475767778797a", "ff8001"]


def c_call(rng):
    if rng.random() < 0.15:
        # outside the countdown: never a tick, never counted
        return rng.choice(["crealloc %d %d" % (rng.randrange(8), rng.choice([1, 16, 200])), "cfree %d 0" % rng.randrange(8)])
    x = rng.random()
    if x < 0.35:
        return "cmalloc %d" % rng.choice([1, 7, 64, 1000])
    if x < 0.55:
        return "cstrdup %s" % rng.choice(STRS)
    if x < 0.75:
        return "cstrndup %s %d" % (rng.choice(STRS), rng.choice([0, 1, 3, 5, 26, 100]))
    y = rng.random()
    if y < 0.7:
        return "ccalloc %d %d" % (rng.choice([0, 1, 3, 16]), rng.choice([0, 1, 4, 32]))
    return "ccalloc %d %d" % rng.choice([(9223372036854775809, 2), (2, 9223372036854775809), (4294967296, 4294967296),
                                         (18446744073709551615, 18446744073709551615), (6148914691236517206, 3)])


def gen_c(rng, n_cd, malformed=False):
    ops = ["mode c"]
    if rng.random() < 0.3:
        for _ in range(rng.randint(0, 3)):
            ops.append(c_call(rng))
    ops.append("cd %d" % n_cd)
    for _ in range(rng.randint(0, 16)):
        x = rng.random()
        if x < 0.80:
            ops.append(c_call(rng))
        elif x < 0.86:
            ops.append("notoom")
        elif x < 0.90:
            ops.append("oom")
        elif x < 0.95:
            ops.append("cd %d" % rng.randint(-2, 5))
        else:
            ops.append("creset")
    if malformed:
        junk = ["failnum 1", "alloc 8 0 10 d", "check", "cd", "cstrdup zz", "ccalloc 1", "clear"]
        for _ in range(rng.randint(1, 3)):
            ops.insert(rng.randint(1, len(ops)), rng.choice(junk))
    return ops


def generate(rng, tier):
    quick = tier == "quick"
    out = []
    n = 3000 if quick else 12000
    for i in range(n):
        ln = rng.choice([1, 3, 8, 20, 40, 60]) if quick else rng.randint(1, 60)
        out.append(("fa", gen_fa(rng, ln)))
    # every allocation point in turn
    nwl = 20 if quick else 80
    for i in range(nwl):
        wl = workload(rng, rng.randint(1, 14) if quick else rng.randint(1, 60))
        for ops in single_point_cases(rng, wl):
            out.append(("point", ops))
    # locations: the same name through another pointer, names that differ only by the directory, the overloads' own
    # "<unknown>":0 and the macro locations, each as the only designated location of a small workload
    for i in range(150 if quick else 1500):
        out.append(("locations", gen_locations(rng)))
    for rep in range(20 if quick else 100):
        for n_cd in range(-3, 13):
            out.append(("countdown", gen_c(rng, n_cd)))
    for i in range(n // 10):
        if rng.random() < 0.6:
            out.append(("malformed", gen_fa(rng, rng.choice([2, 6, 12]), malformed=True)))
        else:
            out.append(("malformed", gen_c(rng, rng.randint(-3, 12), malformed=True)))
    return out


def translate(ctx):
    from translate import extract_failable
    return extract_failable.run()


def nontrivial(r):
    return any(l in ("ret null", "ret throw") or l.startswith("check fail") for l in r.impl)


def observe(r, rep):
    mode = ""
    for l in r.impl:
        if l.startswith("> mode "):
            mode = l.split()[2]
        elif l == "ret ok":
            rep.count("branch.%s.alloc_succeeds" % mode)
        elif l in ("ret null", "ret throw"):
            rep.count("branch.%s.alloc_fails_%s" % (mode, l.split()[1]))
        elif l.startswith("fired "):
            k = len(l.split()) - 1
            rep.count("branch.fired_%s" % ("one" if k == 1 else "several"))
        elif l.startswith("check fail number"):
            rep.count("branch.check_reports_number")
        elif l.startswith("check fail at"):
            rep.count("branch.check_reports_location")
        elif l == "check ok":
            rep.count("branch.check_ok")
        elif l.startswith("freed ") and l != "freed -":
            rep.count("branch.clear_releases_pending")
        elif l.startswith("> alloc "):
            rep.count("family." + l.split()[-1])
            if l.split()[2] in ("<unknown>", "<harness>"):
                rep.count("branch.alloc_at_" + l.split()[2].strip("<>"))
        elif l.startswith("failure "):
            rep.count("branch.c.release_" + l.split()[1])
        elif l.startswith("ret zeros"):
            rep.count("branch.c.calloc_zeroed")
        elif l.startswith("ret ") and mode == "c":
            rep.count("branch.c.strdup_copy")


LEVEL_TEXT = ("Machine-checked Lean 4 theorems over an executable model of FailableMemoryAllocator / LocationToFailAllocNode "
              "and of the C-level malloc countdown, for every history of designations, allocations (any locations), checks and "
              "clears of any length: an allocation fails iff it is designated (global index since construction/clear, or local "
              "index at its location since the designation was made); every designation is consumed exactly once (fired, cleared "
              "or still pending - never twice, never lost); the linked list equals the designations that have not fired and "
              "checkAllFailedAllocsWereDone reports the most recent of them, passing iff there is none; after clearFailedAllocs "
              "the allocator behaves like a fresh one; countdown n fails exactly the allocating calls k with 0 <= n <= k; "
              "strdup/strndup/calloc return NULL exactly when their allocation fails (calloc also on overflow). The model is "
              "tied to the code on every run by a differential harness (real allocator, all four allocation families, real "
              "C entry points, ASan/UBSan) and by shape checks + regenerated constants; the implementation's own observations "
              "are judged by an oracle that evaluates the theorem's predicate on the call history.")
LEVEL_NOTE = ("Observed by the harness, not proved: plain new / new[] report \"<unknown>\":0 and throw std::bad_alloc, the nothrow "
              "forms and the malloc macro return NULL, the macros report the source file and line of the statement. "
              "Trusted: Lean kernel; the hand-written model (validated against the code by this run's correspondence); the "
              "shape-checking extractor. Observed only, not proved: that operator new turns a NULL from the allocator into "
              "std::bad_alloc and that the tracked malloc/new paths hand file and line through to alloc_memory unchanged "
              "(exercised by families m/n/a of the harness); byte content of strdup/strndup/calloc results (model + oracle "
              "compare them, the copy loop itself belongs to C05). int wrap-around of the counters is outside the claim.")
TECHNIQUE = "Lean 4 refinement/invariant proofs over an executable model + differential correspondence harness + shape-checked regenerated constants"
