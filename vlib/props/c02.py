"""C02 — every selected test runs exactly once; selection follows filters; reverse/shuffle permute."""
ID = "C02"
HARNESS = "h_c02"
KEEP_FIRST = 0
SHRINK_BUDGET = 300

TRUSTED = [
    "Lean 4 kernel; axioms of every theorem audited (propext, Classical.choice, Quot.sound at most)",
    "hand-written model lean/CppUModel/Model/Registry.lean (runAllTests loop, match/shouldRun loops, TestResult counters, "
    "IgnoredUtestShell with its per-shell flag, UtestShellPointerArray constructor/copy loop/getFirstTest over an explicit next-pointer map, "
    "unDoLastAddTest, findTestWithName/Group, countTests, getTestWithNext, the three list modes, CommandLineTestRunner's repeat loop) and "
    "Model/OrderedTest.lean (OrderedTestInstaller / OrderedTestShell pointer updates on both linked lists), "
    "tied to TestRegistry.cpp / Utest.cpp / TestFilter.cpp / TestResult.cpp / CommandLineTestRunner.cpp / OrderedTest.cpp by the h_c02 correspondence of this run",
    "translate/extract_ptrarray.py: translates UtestShellPointerArray::swap/shuffle/reverse/relinkTestsInOrder statement by statement from clang's "
    "typed JSON AST into Lean functions over the primitives of Model/PointerArrayRt.lean (array read/write, p->addTest(q), srand/rand seam, "
    "for-loops with fuel, return, method call); the generated functions are proved equal to the hand model AND executed by the driver in the "
    "shuffle/reverse operations, so a translator error shows up as a disagreement with the real code",
    "translate/extract_registry.py: regenerates the loop-free decision functions (TestFilter::match, shouldRun's conjunction, "
    "endOfGroup, IgnoredUtestShell::runOneTest's branch, the shuffle modulus, the three decisions of OrderedTest.cpp) and shape-checks every "
    "loop / statement list the hand-written model was written from",
    "SimpleString::contains / operator== / replace / endsWith / subString mean Text.isInfix / == / Text.replaceAll / ... (property C13 links "
    "SimpleString's code to those definitions; composition theorems in Props/C02x.lean); the harness still runs the real SimpleString, "
    "so a defective StrStr shows up as a selection that is not the documented one",
    "the values PlatformSpecificRand returns are an input (observed at the function-pointer seam and fed to the model)",
    "the command line parser (C12) maps -g/-sg/-xg/-xsg/-n/-sn/-xn/-xsn/-ri/-rN/-sSEED/-b/-lg/-ln/-ll to the arguments the runner model takes",
]
ASSUMPTIONS = [
    "counters are size_t and do not wrap (Nat in the model); size_t arithmetic of the pointer array is Nat arithmetic (count_ - 1 is only "
    "evaluated behind the count_ == 0 guards; a removed guard is found by the harness under ASan/UBSan, not by a theorem)",
    "every shell is registered once (a shell added twice makes the C++ list cyclic; outside the quantifier)",
    "TEST_ORDERED installers run during static initialisation, i.e. before any reverse / shuffle / unDoLastAddTest (an installer run after "
    "a reordering would follow stale _nextOrderedTest links; outside the quantifier, the harness skips such an operation)",
    "the shuffle theorems about the regenerated code take a random stream of at least count_ - 1 numbers (rand() always returns)",
    "group and name are NUL-terminated C strings (no embedded NUL)",
    "scripted test bodies never fail (the runner's return value is then the number of repetitions that ran nothing)",
    "list modes: the rendering theorem for names without '#' (list_accumulation_full) is not proved; the oracle checks it on the "
    "implementation's output in every run",
]
RULE = ("registries of 0..200 scripted shells (normal and ignored; in 30% of the cases also TEST_ORDERED shells registered through the real "
        "OrderedTestInstaller, mixed with the others in any order, levels from a small set incl. ties, negative, INT_MIN/INT_MAX, ascending / "
        "descending / all-equal runs) with group/name strings over a three-letter alphabet "
        "(substrings, equal names, empty strings and split groups frequent; in 30% of the cases self-overlapping filter texts with "
        "names in which the match starts inside a failed partial match), 0..4 filters of each of the 8 single kinds plus -t/-st/-xt/-xst group.name and TEST(g, n)/IGNORE_TEST(g, n), every filter built either by the real CommandLineArguments parser (value attached to the option, or in the next argument) or directly as TestFilter objects, mixed within a case; a third of the cases "
        "building the filters through the real CommandLineArguments parser, run-ignored on the registry and on single shells, reverse, "
        "shuffle with real rand() and with scripted streams (incl. negative values), repeated runs, the real CommandLineTestRunner "
        "with -rN / -sSEED / -b / -lg / -ln / -ll, unDoLastAddTest, findTestWithName/Group, countTests, getTestWithNext, willRun; "
        "non-trivial = a run in which some but not all tests are selected, or a shuffle/reverse/runner on >= 3 tests followed by a run; "
        "distinct = distinct op sequences")

ALPHA = "abA"


def hx(s):
    b = s if isinstance(s, bytes) else s.encode("latin-1")
    return b.hex() if b else "-"


def rstr(rng, maxlen=3, alpha=ALPHA):
    x = rng.random()
    if x < 0.12:
        return ""
    n = 1 if x < 0.45 else rng.randint(1, maxlen)
    return "".join(rng.choice(alpha) for _ in range(n))


def overlap_pair(rng, alpha="ab"):
    """(needle, haystack): the needle has a proper prefix that re-occurs inside it and the haystack
    holds an occurrence that starts inside a failed partial match (`aab` in `aaab`,
    `TestTimeout` in `TestTestTimeout`): a search that never backs up misses it"""
    x = rng.random()
    if x < 0.15:
        needle = rng.choice(["TestTimeout", "abab", "aab", "aaab", "abaabab", "AAa"])
    else:
        u = "".join(rng.choice(alpha) for _ in range(rng.randint(1, 2)))
        needle = u * rng.randint(1, 2) + "".join(rng.choice(alpha) for _ in range(rng.randint(1, 3)))
    k = rng.randint(1, max(1, len(needle) - 1))
    hay = needle[:k] + needle
    if rng.random() < 0.4:
        hay = rstr(rng, 2, alpha) + hay
    if rng.random() < 0.4:
        hay = hay + rstr(rng, 2, alpha)
    return needle, hay


def single_pass_contains(h, n):
    """the defective search the overlap cases are aimed at (used only for the histogram)"""
    if not n:
        return True
    m = 0
    for c in h:
        if c == n[m]:
            m += 1
            if m == len(n):
                return True
        else:
            m = 1 if c == n[0] else 0
            if m == len(n):
                return True
    return False


LEVELS = [0, 0, 1, 1, 2, 3, 5, -1, -7, 2147483647, -2147483648]


def gen_tests(rng, n, alpha=ALPHA, maxlen=3, hays=(), ordered=0.0):
    """group names come in runs (as TEST_GROUPs do) but a group can reappear later (split group);
    `ordered` = share of TEST_ORDERED registrations (levels from a small set: ties, head/middle/tail
    insertions, INT_MIN/INT_MAX), mixed with plain and ignored tests in any order"""
    ops = []
    style = rng.randrange(4)        # 0 random levels, 1 ascending, 2 descending (every insertion at the head), 3 all equal
    lv = rng.choice(LEVELS)
    pool = [rstr(rng, maxlen, alpha) for _ in range(rng.randint(1, 4))]
    if hays and rng.random() < 0.5:
        pool.append(rng.choice(hays))
    g = rng.choice(pool)
    for _ in range(n):
        if rng.random() < 0.35:
            g = rng.choice(pool) if rng.random() < 0.8 else rstr(rng, maxlen, alpha)
        kind = "i" if rng.random() < 0.3 else "n"
        name = rng.choice(hays) if hays and rng.random() < 0.3 else rstr(rng, maxlen, alpha)
        if ordered and rng.random() < ordered:
            if style == 0:
                lv = rng.choice(LEVELS) if rng.random() < 0.8 else rng.randint(-3, 12)
            elif style == 1:
                lv = min(lv + rng.choice([0, 1, 1, 2]), 2147483647)
            elif style == 2:
                lv = max(lv - rng.choice([0, 1, 1, 2]), -2147483648)
            ops.append("otest %d %s %s" % (lv, hx(g), hx(name)))
        else:
            ops.append("test %s %s %s" % (kind, hx(g), hx(name)))
    return ops


def gen_filters(rng, alpha=ALPHA, maxlen=3, pool=(), needles=()):
    """0-4 filters of each of the 8 single kinds plus -t/-st/-xt/-xst group.name and TEST(g, n) /
    IGNORE_TEST(g, n); texts are random strings, strings the tests use, or self-overlapping needles.
    Every filter says how it is built: j = real parser, value attached to the option; s = real
    parser, value in the next argument; d = TestFilter constructed directly; (none) = the case's default."""
    def text(nonempty=False):
        for _ in range(20):
            if needles and rng.random() < 0.6:
                t = rng.choice(needles)
            elif pool and rng.random() < 0.4:
                t = rng.choice(pool)
            else:
                t = rstr(rng, maxlen, alpha)
            if t or not nonempty:
                return t
        return alpha[0]

    def mode():
        return rng.choice(["", " j", " j", " s", " s", " d"])

    def one(kind, flags):
        if kind == "tfilter":
            return "tfilter %d %s %s%s" % (flags, hx(text()), hx(text(True)), mode())
        if kind == "vfilter":
            return "vfilter %s %s %s%s" % (rng.choice("TI"), hx(text(True)), hx(text()), mode())
        return "%s %d %s%s" % (kind, flags, hx(text()), mode())

    def kind():
        return rng.choice(["gfilter"] * 4 + ["nfilter"] * 4 + ["tfilter"] * 3 + ["vfilter"])

    ops = []
    m = rng.random()
    if m < 0.12 and not needles:
        return ops
    if m < 0.62 or needles:
        for _ in range(rng.choice([1, 1, 2, 2, 3])):
            flags = rng.choice([0, 0, 2]) if needles and rng.random() < 0.7 else rng.randrange(4)
            ops.append(one(kind() if not needles else rng.choice(["gfilter", "nfilter", "tfilter"]), flags))
        return ops
    for k in ("gfilter", "nfilter", "tfilter"):
        for flags in range(4):
            for _ in range(rng.choice([0, 0, 1, 1, 2, 3, 4] if k != "tfilter" else [0, 0, 0, 1, 1, 2])):
                ops.append(one(k, flags))
    for _ in range(rng.choice([0, 0, 1, 2])):
        ops.append(one("vfilter", 1))
    rng.shuffle(ops)
    return ops


def scripted(rng, n, reps=1):
    """a scripted random stream for n tests: boundary values of `% (i+1)`, negatives, huge values"""
    out = []
    style = rng.randrange(4)
    for _ in range(reps):
        for i in range(n - 1, 0, -1):
            if style == 0:
                v = 0
            elif style == 1:
                v = i
            elif style == 2:
                v = rng.choice([0, i, i + 1, i - 1, 2147483647, -1, -2147483648, -(i + 1), 1])
            else:
                v = rng.randint(-5, 5 * i + 5)
            out.append(str(v))
    if rng.random() < 0.2 and out:
        out = out[:rng.randrange(len(out))]      # too short: the rest comes from the real rand()
    return out


def gen_queries(rng, n, pool):
    """registry queries, per-shell run-ignored, list modes: a few of them"""
    ops = []
    for _ in range(rng.choice([0, 1, 1, 2, 4])):
        x = rng.random()
        if x < 0.2:
            ops.append("find %s %s" % (rng.choice(["name", "group"]), hx(rng.choice(pool) if pool and rng.random() < 0.7 else rstr(rng))))
        elif x < 0.3:
            ops.append("count")
        elif x < 0.5:
            ops.append("prev %s" % ("null" if rng.random() < 0.2 or n == 0 else rng.randrange(n)))
        elif x < 0.65 and n:
            ops.append("shellri %d" % rng.randrange(n))
        elif x < 0.75:
            ops.append("willrun")
        elif x < 0.95:
            ops.append("list %s" % rng.choice(["lg", "ln", "ln", "ll"]))
        else:
            ops.append("undo")
    return ops


def gen_runner(rng, n):
    rep = rng.choice([0, 1, 2, 2, 3])
    lst = rng.choice(["none"] * 5 + ["lg", "ln", "ll"])
    seed = "-"
    extra = []
    if rng.random() < 0.5:
        seed = str(rng.choice([1, 2, 7, 42, 4294967295, rng.randrange(1, 1 << 32)]))
        if rng.random() < 0.3:
            extra = scripted(rng, n, max(1, rep))
    return ("runner rep=%d seed=%s rev=%d list=%s %s" % (rep, seed, rng.random() < 0.3, lst, " ".join(extra))).strip()


def gen_case(rng, tier, malformed=False):
    big = 200
    x = rng.random()
    if x < 0.08:
        n = rng.choice([0, 1])
    elif x < 0.55:
        n = rng.randint(2, 9)
    elif x < 0.9:
        n = rng.randint(10, 40)
    else:
        n = rng.randint(41, big)
    alpha, maxlen = ALPHA, 3
    if malformed:
        alpha = rng.choice(["ab.,()-", "a", "ab\x7f\x80\xff ", "abAB", "-gsxnt", "ab# "])
        maxlen = rng.choice([3, 8, 40])
    needles, hays = [], []
    if not malformed and rng.random() < 0.3:
        for _ in range(rng.randint(1, 2)):
            nd, hy = overlap_pair(rng)
            needles.append(nd)
            hays += [hy, hy, nd]
    ops = []
    if rng.random() < 1 / 3:
        ops.append("cmdline")
    # TEST_ORDERED registrations only here: installers run during static initialisation, before any reordering
    ordered = rng.choice([0.15, 0.4, 0.7, 1.0]) if rng.random() < 0.3 else 0.0
    tests = gen_tests(rng, n, alpha, maxlen, hays, ordered)
    pool = []
    for t in tests:
        w = t.split()
        pool += [bytes.fromhex(x).decode("latin-1") if x != "-" else "" for x in w[2:4]]
    filters = gen_filters(rng, alpha, maxlen, pool, needles)
    if rng.random() < 0.5:
        ops += tests + filters
    else:
        ops += filters + tests
    if rng.random() < 0.4:
        ops.insert(rng.randrange(len(ops) + 1), "runignored")
    if rng.random() < 0.35:
        ops += gen_queries(rng, n, pool)
    reps = rng.choice([1, 1, 2, 3])
    for rep in range(reps):
        k = rng.random()
        if k < 0.3:
            ops.append("reverse")
        elif k < 0.7:
            seed = rng.choice([0, 1, 2, 42, 4294967295, 4294967296 + 7, rng.randrange(1 << 32), rng.randrange(1 << 64)])
            extra = scripted(rng, n) if rng.random() < 0.4 else []
            ops.append(("shuffle %d " % seed + " ".join(extra)).strip())
            if malformed and rng.random() < 0.5:
                ops.append("reverse")
                ops.append("shuffle %d" % rng.randrange(1 << 32))
        if rng.random() < 0.3:
            ops.append(gen_runner(rng, n))
        else:
            ops.append("run")
        if rng.random() < 0.25:
            ops += gen_queries(rng, n, pool)
        if rng.random() < 0.15:
            # the registry changes between repetitions: more tests / more filters / run-ignored switched on
            more = gen_tests(rng, rng.randint(1, 3), alpha, maxlen)
            ops += more
            n += len(more)
            if rng.random() < 0.5:
                ops += gen_filters(rng, alpha, maxlen, pool)[:2]
            if rng.random() < 0.3:
                ops.append("runignored")
            ops.append("run" if rng.random() < 0.7 else gen_runner(rng, n))
    return ops


def generate(rng, tier):
    n = 2500 if tier == "quick" else 40000
    out = []
    for _ in range(n):
        out.append(("gen", gen_case(rng, tier)))
    for _ in range(n // 8):
        out.append(("malformed", gen_case(rng, tier, malformed=True)))
    return out


def signature(r):
    """coarse, shrink-stable class of a failing case: the oracle's message without the concrete
    ids, counts and printed texts"""
    import re
    if r.crash:
        w = r.crash.split()
        return "crash:" + (w[1] if len(w) > 1 else "")
    if r.spec and r.spec.startswith("spec FAIL"):
        m = r.spec[len("spec FAIL"):]
        m = re.sub(r"`[^`]*`", "`..`", m)
        m = re.sub(r"\[[^\]]*\]", "[..]", m)
        m = re.sub(r"\(some \d+\)", "(some N)", m)
        m = re.sub(r"op#\d+", "op", m)
        m = re.sub(r"(runner|shuffle|find|prev|list|shellri) \S+:", r"\1:", m)
        m = re.sub(r"\d+", "N", m)
        return "spec:" + m.strip()[:140]
    if not r.agree:
        return "diff"
    return ""


def translate(ctx):
    from translate import extract_registry, extract_ptrarray
    problems = []
    err = None
    # both extractors always run (each keeps its last good output when it cannot translate)
    for ex in (extract_registry, extract_ptrarray):
        try:
            problems += ex.run() or []
        except Exception as e:
            problems.append("%s cannot translate the current source: %s" % (ex.__name__.split(".")[-1], e))
    return problems


def _runs(r):
    """counters of every run of the case (direct runs and runner repetitions), from the implementation's lines"""
    out = []
    for l in r.impl:
        w = l.split()
        if w and w[0] == "rep" and len(w) == 7 and w[2] == "counts":
            w = w[2:]
        if w and w[0] == "counts" and len(w) == 5:
            out.append(tuple(int(x) for x in w[1:]))
    return out


def nontrivial(r):
    for (t, run, ign, filt) in _runs(r):
        if 0 < filt < t:
            return True
    n = sum(1 for l in r.ops if l.startswith(("test ", "otest ")))
    return n >= 3 and any(l.startswith(("shuffle", "reverse", "runner")) for l in r.ops) and any(l.startswith(("run",)) for l in r.ops)


def _unhex(x):
    return "" if x == "-" else bytes.fromhex(x).decode("latin-1")


def observe(r, rep):
    n = sum(1 for l in r.ops if l.startswith(("test ", "otest ")))
    levels, plain_seen = [], False
    for l in r.ops:
        w = l.split()
        if w[0] == "test":
            plain_seen = True
            if levels:
                rep.count("ordered.plain_test_registered_after_ordered")
        elif w[0] == "otest" and len(w) >= 4:
            lv = int(w[1])
            if not levels:
                rep.count("ordered.first" + ("_after_plain_tests" if plain_seen else "_in_empty_registry"))
            elif lv < levels[0] if levels == sorted(levels) else lv < min(levels):
                rep.count("ordered.insert_at_head")
            elif lv >= max(levels):
                rep.count("ordered.insert_at_tail")
            else:
                rep.count("ordered.insert_in_middle")
            if lv in levels:
                rep.count("ordered.level_tie")
            levels.append(lv)
    if levels:
        rep.count("ordered.cases")
        if any(l.startswith(("shuffle", "reverse")) for l in r.ops):
            rep.count("ordered.then_reordered")
    rep.count("tests.%s" % ("0" if n == 0 else "1" if n == 1 else "2-9" if n < 10 else "10-40" if n <= 40 else "41-200"))
    if "cmdline" in r.ops:
        rep.count("branch.filters_via_CommandLineArguments")
    for (t, run, ign, filt) in _runs(r):
        rep.count("run.total")
        if t and filt == t:
            rep.count("run.nothing_selected")
        elif filt == 0:
            rep.count("run.everything_selected")
        else:
            rep.count("run.partly_selected")
        if ign:
            rep.count("run.with_ignored_counted")
    for l in r.impl:
        if l.startswith(("cb ", "stream ")):
            toks = l.split()[1:]
            gs = sum(1 for x in toks if x.startswith("gs"))
            rep.count("callbacks.group_blocks", gs)
            for i in range(len(toks) - 1):
                if toks[i].startswith("gs") and toks[i + 1] == "ge":
                    rep.count("branch.group_entirely_filtered_out")
        elif l.startswith("rands ") and len(l.split()) > 1:
            rep.count("branch.shuffle_nonempty")
    names, groups = [], []
    for l in r.ops:
        w = l.split()
        if w[0] in ("test", "otest") and len(w) >= 4:
            groups.append(_unhex(w[2])); names.append(_unhex(w[3]))
    for l in r.ops:
        w = l.split()
        if w[0] in ("gfilter", "nfilter"):
            md = w[3] if len(w) > 3 else "default"
            opt = (["-g", "-sg", "-xg", "-xsg"] if w[0] == "gfilter" else ["-n", "-sn", "-xn", "-xsn"])[int(w[1]) & 3]
            rep.count("filter.%s.%s" % (opt, {"j": "attached", "s": "separated", "d": "direct"}.get(md, "default")))
            if w[2] == "-":
                rep.count("filter.empty_text")
            if (int(w[1]) & 1) == 0:
                nd = _unhex(w[2])
                for h in (groups if w[0] == "gfilter" else names):
                    if nd in h and not single_pass_contains(h, nd):
                        rep.count("filter.match_needs_backing_up")
                        break
        elif w[0] == "tfilter" and len(w) >= 4:
            md = w[4] if len(w) > 4 else "default"
            rep.count("filter.t.%s.%s" % (["-t", "-st", "-xt", "-xst"][int(w[1]) & 3], {"j": "attached", "s": "separated", "d": "direct"}.get(md, "default")))
        elif w[0] == "vfilter" and len(w) >= 4:
            md = w[4] if len(w) > 4 else "default"
            rep.count("filter.%s.%s" % ("IGNORE_TEST()" if w[1] == "I" else "TEST()", {"j": "attached", "s": "separated", "d": "direct"}.get(md, "default")))
        elif w[0] == "shuffle" and len(w) > 2:
            rep.count("branch.shuffle_scripted_stream")
        elif w[0] == "runner":
            rep.count("runner.%s" % [x for x in w if x.startswith("list=")][0])
            if "rev=1" in w:
                rep.count("runner.reversing")
            if "seed=-" not in w:
                rep.count("runner.shuffling")
            rep.count("runner." + [x for x in w if x.startswith("rep=")][0])


LEVEL_TEXT = ("Machine-checked Lean 4 theorems over an executable model of TestRegistry::runAllTests, UtestShell::match/shouldRun, "
              "TestFilter::match, the TestResult counters, IgnoredUtestShell (per-shell flag, willRun), UtestShellPointerArray, "
              "unDoLastAddTest / findTestWith* / countTests / getTestWithNext, the list modes, CommandLineTestRunner's repeat loop and the "
              "TEST_ORDERED installer (OrderedTest.cpp), for all "
              "registries, filter lists, run-ignored settings, repeat counts and random streams of any length: run + ignored + filtered-out = "
              "number of registered tests; a test is selected iff the documented OR-within-kind / AND-across-kinds / substring|exact|negated "
              "reading holds (stated with List.IsInfix); the started tests are exactly the selected ones in list order, each body executed "
              "once; in EVERY repetition of the runner (shuffle re-seeded and applied to the previous order) the same tests start and run, "
              "each once, with identical counters; shuffle is a permutation for every random stream, reverse is the exact reverse, array -> "
              "relinked next pointers -> list is the array (given distinct shells); group start/end callbacks are balanced and sit at the "
              "block boundaries for every order; list modes run nothing and -ln lists exactly the selected tests; after ANY sequence of "
              "plain / ignored / ordered registrations the list holds every shell exactly once, plain tests first (newest first), ordered tests "
              "behind them sorted by level with ties in registration order (ordered_history), so every counting theorem applies to registries "
              "with ordered tests. UtestShellPointerArray::swap/shuffle/reverse/relinkTestsInOrder are TRANSLATED from the clang AST on every "
              "run and proved EQUAL to the array model the theorems are about (gen_*_eq, gen_shuffleTests_perm); the decision functions "
              "(filter match, shouldRun, endOfGroup, ignored branch, shuffle modulus, the three comparisons of OrderedTest.cpp) are regenerated "
              "too; the remaining loops are tied to the code by a differential harness (real registry, runner, parser, filters, "
              "OrderedTestInstaller and SimpleString, scripted shells, rand() observed at the seam, ASan/UBSan) and the implementation's "
              "observations are judged by an independent specification oracle.")
LEVEL_NOTE = ("Trusted: Lean kernel; the hand-written model of the loops that are not translated (run loop, match loop, pointer-array constructor, "
              "list modes, repeat loop, the pointer updates of the ordered installer), validated against the code by the correspondence of this run; "
              "the two extractors (the AST translator's output is itself executed against the real code); SimpleString operations as their Text.* "
              "reference (C13 / C02x). Observed only, not proved: that those C++ loops are the model's loops (differential runs), behaviour of rand(), "
              "size_t wrap-around behind the count_ == 0 guards (ASan/UBSan), the exact rendering of -lg/-ln for '#'-free names "
              "(list_accumulation_full, checked by the oracle on every run). Outside the quantifier: a TEST_ORDERED installer running after a "
              "reverse/shuffle/unDoLastAddTest (static initialisation is over by then).")
TECHNIQUE = ("Lean 4 induction/invariant proofs over an executable model (explicit next-pointer heap for the relink and for the two linked lists of the "
             "ordered installer, list-segment lemmas, key-multiset invariant for the repeat loop) + clang-AST translation of the pointer-array methods "
             "with equality proofs + regenerated decision functions + differential correspondence harness with an independent specification oracle")
