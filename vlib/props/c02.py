"""C02 — every selected test runs exactly once; selection follows filters; reverse/shuffle permute."""
ID = "C02"
HARNESS = "h_c02"
KEEP_FIRST = 0
SHRINK_BUDGET = 300

TRUSTED = [
    "Lean 4 kernel; axioms of every theorem audited (propext, Classical.choice, Quot.sound at most)",
    "hand-written model lean/CppUModel/Model/Registry.lean (runAllTests loop, match/shouldRun loops, TestResult counters, "
    "IgnoredUtestShell, UtestShellPointerArray copy/shuffle/reverse/relink over an explicit next-pointer map), tied to "
    "TestRegistry.cpp / Utest.cpp / TestFilter.cpp / TestResult.cpp by the h_c02 correspondence of this run",
    "translate/extract_registry.py: regenerates the loop-free decision functions (TestFilter::match, shouldRun's conjunction, "
    "endOfGroup, IgnoredUtestShell::runOneTest's branch, the shuffle modulus) and shape-checks the loops the model was written from",
    "SimpleString::contains / operator== mean Text.isInfix / == (property C13 links SimpleString's code to those definitions)",
    "the values PlatformSpecificRand returns are an input (observed at the function-pointer seam and fed to the model)",
]
ASSUMPTIONS = [
    "counters are size_t and do not wrap (Nat in the model)",
    "every shell is registered once (a shell added twice makes the C++ list cyclic; outside the quantifier)",
    "group and name are NUL-terminated C strings (no embedded NUL)",
    "the per-shell runIgnored_ flag of IgnoredUtestShell is only ever set by the registry loop (nobody calls shell->setRunIgnored() "
    "directly); under that invariant it equals the registry's flag where it is read (theorem ignored_flag_is_registry_flag)",
]
RULE = ("registries of 0..200 scripted shells (normal and ignored) with group/name strings over a three-letter alphabet "
        "(substrings, equal names, empty strings and split groups frequent), 0..4 filters of each of the 8 kinds "
        "(group/name x substring/strict/inverted/strict+inverted), a third of the cases building the filters through the real "
        "CommandLineArguments parser, run-ignored, reverse, shuffle with real rand() and with scripted streams (incl. negative "
        "values), repeated runs; non-trivial = a run in which some but not all tests are selected, or a shuffle/reverse of >= 3 tests "
        "followed by a run; distinct = distinct op sequences")

ALPHA = "abA"


def hx(s):
    b = s if isinstance(s, bytes) else s.encode("latin-1")
    return b.hex() if b else "-"


def rstr(rng, maxlen=3, alpha=ALPHA):
    x = rng.random()
    if x < 0.12:
        return ""
    n = 1 if x < 0.45 else rng.randint(1, maxlen)
    return "".join(rng.choice(alpha) for _ in range(n))


def gen_tests(rng, n, alpha=ALPHA, maxlen=3):
    """group names come in runs (as TEST_GROUPs do) but a group can reappear later (split group)"""
    ops = []
    pool = [rstr(rng, maxlen, alpha) for _ in range(rng.randint(1, 4))]
    g = rng.choice(pool)
    for _ in range(n):
        if rng.random() < 0.35:
            g = rng.choice(pool) if rng.random() < 0.8 else rstr(rng, maxlen, alpha)
        kind = "i" if rng.random() < 0.3 else "n"
        ops.append("test %s %s %s" % (kind, hx(g), hx(rstr(rng, maxlen, alpha))))
    return ops


def gen_filters(rng, alpha=ALPHA, maxlen=3, pool=()):
    """0-4 filters of each of the 8 kinds; texts are random strings or strings the tests use"""
    def text():
        if pool and rng.random() < 0.4:
            return rng.choice(pool)
        return rstr(rng, maxlen, alpha)

    def one(kind, flags):
        return "%s %d %s%s" % (kind, flags, hx(text()), " j" if rng.random() < 0.3 else "")

    ops = []
    mode = rng.random()
    if mode < 0.12:
        return ops
    if mode < 0.62:
        for _ in range(rng.choice([1, 1, 2, 2, 3])):
            ops.append(one(rng.choice(["gfilter", "nfilter"]), rng.randrange(4)))
        return ops
    for kind in ("gfilter", "nfilter"):
        for flags in range(4):
            for _ in range(rng.choice([0, 0, 1, 1, 2, 3, 4])):
                ops.append(one(kind, flags))
    rng.shuffle(ops)
    return ops


def scripted(rng, n):
    """a scripted random stream for n tests: boundary values of `% (i+1)`, negatives, huge values"""
    out = []
    style = rng.randrange(4)
    for i in range(n - 1, 0, -1):
        if style == 0:
            v = 0
        elif style == 1:
            v = i
        elif style == 2:
            v = rng.choice([0, i, i + 1, i - 1, 2147483647, -1, -2147483648, -(i + 1), 1])
        else:
            v = rng.randint(-5, 5 * i + 5)
        out.append(str(v))
    if rng.random() < 0.2 and out:
        out = out[:rng.randrange(len(out))]      # too short: the rest comes from the real rand()
    return out


def gen_case(rng, tier, malformed=False):
    big = 200
    x = rng.random()
    if x < 0.08:
        n = rng.choice([0, 1])
    elif x < 0.55:
        n = rng.randint(2, 9)
    elif x < 0.9:
        n = rng.randint(10, 40)
    else:
        n = rng.randint(41, big)
    alpha, maxlen = ALPHA, 3
    if malformed:
        alpha = rng.choice(["ab.,()-", "a", "ab\x7f\x80\xff ", "abAB", "-gsxnt"])
        maxlen = rng.choice([3, 8, 40])
    ops = []
    if rng.random() < 1 / 3:
        ops.append("cmdline")
    tests = gen_tests(rng, n, alpha, maxlen)
    pool = []
    for t in tests:
        w = t.split()
        pool += [bytes.fromhex(x).decode("latin-1") if x != "-" else "" for x in w[2:4]]
    filters = gen_filters(rng, alpha, maxlen, pool)
    if rng.random() < 0.5:
        ops += tests + filters
    else:
        ops += filters + tests
    if rng.random() < 0.4:
        ops.insert(rng.randrange(len(ops) + 1), "runignored")
    reps = rng.choice([1, 1, 2, 3])
    for rep in range(reps):
        k = rng.random()
        if k < 0.3:
            ops.append("reverse")
        elif k < 0.7:
            seed = rng.choice([0, 1, 2, 42, 4294967295, 4294967296 + 7, rng.randrange(1 << 32), rng.randrange(1 << 64)])
            extra = scripted(rng, n) if rng.random() < 0.4 else []
            ops.append(("shuffle %d " % seed + " ".join(extra)).strip())
            if malformed and rng.random() < 0.5:
                ops.append("reverse")
                ops.append("shuffle %d" % rng.randrange(1 << 32))
        ops.append("run")
        if rng.random() < 0.15:
            # the registry changes between repetitions: more tests / more filters / run-ignored switched on
            ops += gen_tests(rng, rng.randint(1, 3), alpha, maxlen)
            if rng.random() < 0.5:
                ops.append("%s %d %s" % (rng.choice(["gfilter", "nfilter"]), rng.randrange(4), hx(rstr(rng, maxlen, alpha))))
            if rng.random() < 0.3:
                ops.append("runignored")
            ops.append("run")
    return ops


def generate(rng, tier):
    n = 2500 if tier == "quick" else 40000
    out = []
    for _ in range(n):
        out.append(("gen", gen_case(rng, tier)))
    for _ in range(n // 8):
        out.append(("malformed", gen_case(rng, tier, malformed=True)))
    return out


def translate(ctx):
    from translate import extract_registry
    return extract_registry.run()


def _runs(r):
    """(counts, n_tests) of every run of the case, from the implementation's lines"""
    out = []
    for l in r.impl:
        if l.startswith("counts "):
            w = l.split()
            if len(w) == 5:
                out.append(tuple(int(x) for x in w[1:]))
    return out


def nontrivial(r):
    for (t, run, ign, filt) in _runs(r):
        if 0 < filt < t:
            return True
    n = sum(1 for l in r.ops if l.startswith("test "))
    return n >= 3 and any(l.startswith(("shuffle", "reverse")) for l in r.ops) and "run" in r.ops


def observe(r, rep):
    n = sum(1 for l in r.ops if l.startswith("test "))
    rep.count("tests.%s" % ("0" if n == 0 else "1" if n == 1 else "2-9" if n < 10 else "10-40" if n <= 40 else "41-200"))
    if "cmdline" in r.ops:
        rep.count("branch.filters_via_CommandLineArguments")
    for (t, run, ign, filt) in _runs(r):
        rep.count("run.total")
        if t and filt == t:
            rep.count("run.nothing_selected")
        elif filt == 0:
            rep.count("run.everything_selected")
        else:
            rep.count("run.partly_selected")
        if ign:
            rep.count("run.with_ignored_counted")
    for l in r.impl:
        if l.startswith("cb "):
            toks = l.split()[1:]
            gs = sum(1 for x in toks if x.startswith("gs"))
            rep.count("callbacks.group_blocks", gs)
        elif l.startswith("rands ") and len(l.split()) > 1:
            rep.count("branch.shuffle_nonempty")
    for l in r.ops:
        w = l.split()
        if w[0] in ("gfilter", "nfilter"):
            rep.count("filter.%s.%s" % (w[0][0], ["substring", "strict", "inverted", "strict+inverted"][int(w[1]) & 3]))
            if w[2] == "-":
                rep.count("filter.empty_text")
        elif w[0] == "shuffle" and len(w) > 2:
            rep.count("branch.shuffle_scripted_stream")


LEVEL_TEXT = ("Machine-checked Lean 4 theorems over an executable model of TestRegistry::runAllTests, UtestShell::match/shouldRun, "
              "TestFilter::match, the TestResult counters, IgnoredUtestShell and UtestShellPointerArray, for all registries, filter "
              "lists, run-ignored settings and random streams of any length: run + ignored + filtered-out = number of tests; a test is "
              "selected iff the documented OR-within-kind / AND-across-kinds / substring|exact|negated reading holds (stated with "
              "List.IsInfix); the started tests are exactly the selected ones in list order, each body executed once; shuffle is a "
              "permutation for every random stream, reverse is the exact reverse, array -> relinked next pointers -> list is the array "
              "(given distinct shells); group start/end callbacks are balanced for every order. The decision functions are regenerated "
              "from the source on every run; the model is tied to the code by a differential harness (real registry, scripted shells, "
              "real filters and parser, rand() observed at the seam, ASan/UBSan) and the implementation's observations are judged by an "
              "independent specification oracle.")
LEVEL_NOTE = ("Trusted: Lean kernel; the hand-written model of the loops (validated against the code by the correspondence of this run); "
              "the extractor for the loop-free decision functions; SimpleString::contains/== as Text.isInfix/== (C13). Observed only, not "
              "proved about the compiled code: that the C++ loops are the model's loops (differential runs), behaviour of rand().")
TECHNIQUE = ("Lean 4 induction/invariant proofs over an executable model (explicit next-pointer heap for the relink) + regenerated "
             "decision functions + differential correspondence harness with an independent specification oracle")
