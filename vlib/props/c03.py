"""C03 — each check macro fails exactly when the predicate it names is false: generator and settings."""
import re, struct
from fractions import Fraction

ID = "C03"
HARNESS = "h_c03"
KEEP_FIRST = 0

TRUSTED = [
    "Lean 4 kernel; axioms of every theorem audited (propext, Classical.choice, Quot.sound at most)",
    "translate/extract_asserts_ast.py (clang++-14 typed JSON AST -> Lean): doubles_equal, the 19 UtestShell::assert*/fail bodies, the 18 C entry "
    "points of TestHarness_c.cpp and ~570 typed instantiations of the check macros of both headers are regenerated as executable Lean "
    "definitions (Gen/AssertFns.lean, Gen/AssertMacros.lean) on every run and proved EQUAL to the hand-written model for all operands "
    "(gen_*_eq, gen_macro_*, gen_c_entries); a translator bug would have to coincide with a model bug, and both are run against the "
    "real code by the h_c03 correspondence of this run; clang's own typing (implicit conversions, usual arithmetic conversions) is trusted",
    "translate/extract_asserts.py re-reads every assert body / macro / C entry point as token text (one countCheck() first, condition texts, "
    "failure classes, parameter types, cast expressions, the full list of check macros of both headers incl. every _TEXT form, CHECK_THROWS / "
    "TEST_EXIT, the platform predicates IsNanImplementation / IsInfImplementation / PlatformSpecificFabs) into Gen/AssertShapes.lean, compared "
    "with the model's tables by `rfl` theorems",
    "the primitives Asserts.P.StrCmp/StrNCmp/MemCmp/SimpleString/equalsNoCase/contains/containsNoCase (= textbook Text.cmp/ncmp/isInfix/lower, "
    "memCmp) stand for the SimpleString functions the assert bodies call; Props/C03x.lean proves the five string checks executed on C13's "
    "bounded-buffer models return exactly these verdicts with no out-of-bounds access; C13 ties those models to SimpleString.cpp; here "
    "every generated string / block pair is also observed",
    "IEEE-754: finite subtraction, fabs and <= of the hardware are what the standard says (the class logic NaN / infinities / which "
    "comparison is made is proved for every interpretation of the finite operations; the driver runs the same hardware operations); "
    "PlatformSpecificIsNan/IsInf/Fabs are isnan/isinf/fabs (shape check of src/Platforms/Gcc/UtestPlatform.cpp)",
    "LP64, g++/clang on x86-64: char is signed; harness/config mirrors the cmake-generated configuration (CPPUTEST_USE_LONG_LONG = 1)",
    "the fixture (TestTestingFixture) reports the failure and check counters of the TestResult the check wrote to",
]
ASSUMPTIONS = [
    "operands are pure expressions (a macro may evaluate an operand more than once)",
    "a non-NULL string operand is NUL terminated; a non-NULL block operand has at least `size` readable bytes",
    "the test terminator leaves the test (NormalTestTerminator throws, the C entry points longjmp, the crash-on-fail terminators call the "
    "crash method first and then do the same; modelled as `runBody`, observed by the `seq` / `seqc` ops; the -fno-exceptions build is C01's "
    "subject; with the real crash method the process ends instead)",
    "operand evaluation counts (CHECK_EQUAL: 1 when passing, 4 when failing; CHECK_COMPARE: 1 / 2; CHECK_EQUAL_ZERO: literal + 1 / 4; every "
    "function-style macro: 1) and the crash-method call count are observations about the code, compared with the model by the `evals` / `seqc` "
    "ops, not part of the oracle",
    "doubles: 'differ by no more than the tolerance' is read with the IEEE-754 rounded difference fabs(a-b) <= tol, as every C implementation "
    "of the check computes it (the exact real difference can exceed tol by less than half an ulp of the difference)",
    "CHECK_EQUAL / CHECK_COMPARE use the operands' own operators: for integer operands of different signedness the language converts a "
    "negative value to unsigned BEFORE the check sees it; the oracle demands the mathematical relation whenever the conversions keep the "
    "values and only the counting rule otherwise (the model reproduces the conversion exactly in both cases, and gen_macro_CHECK_EQUAL / "
    "gen_macro_CHECK_COMPARE_* prove the model's conversion rules equal to clang's on all 64 operand type pairs)",
    "checks executed outside a running test (OutsideTestRunnerUTest) and the build without long long are not covered",
]
RULE = ("one op = one macro invocation in a fresh fixture; integer operands from the boundary lattice of each of the 8 types "
        "(min, min+1, -129..-127, -2..2, 126..129, 254..257, 2^15/2^16/2^31/2^32/2^63 neighbours, max-1, max) as ordered pairs, equal pairs and "
        "pairs equal modulo 2^8/2^32 frequent; doubles from all classes (+-0, subnormal, normal, +-DBL_MAX, +-inf, quiet/signalling/negative NaN, "
        "neighbours one ulp apart) x tolerances (0, subnormal, finite, +inf, negative, NaN, the computed difference and its neighbours); strings over an alphabet around the case boundaries "
        "(@ A Z [ ` a z {, 0x01, 0x80, 0xff) with NULL/empty/prefix/case-swapped/substring relations and lengths 0..len+1..SIZE_MAX; blocks with "
        "interior NUL x NULL x length incl. 0; masks x operand types x byte counts 1,2,4,8; doubles beyond +-FLT_MAX (1e39, 1e300, 2e300, DBL_MAX) and "
        "float-subnormal magnitudes; test bodies of several check statements (C++ and C style, passing prefix then failing checks, TEST_EXIT) under "
        "the normal and the crash-on-fail terminators (seq / seqc: failures, checks, statements started, failed flag, crash calls); "
        "operands with side effects for 25 macros (evals: pure, changing expected, changing actual, both); every macro also in its _TEXT form; a deterministic sweep in every run: every macro, plain and _TEXT, at every "
        "operand type over pairs differing in exactly one bit (0, 7, 8, 15, 16, 31, 32, 47, 63), the distinguishing string / block / double "
        "pairs, the eight boolean macros on COMPOUND conditions (a || b, a && b, a == b, a != b, a < b, a ? b : 0 over int pairs of every truth "
        "combination - the macro's ! / (bool) must apply to the whole argument), every seq step alone / after a passing prefix in both terminator modes, every evals macro on 8 operand streams; thorough: the lattices exhaustively (plain and _TEXT forms alike). "
        "non-trivial = a case with at least one failing and one passing check; distinct = distinct op sequences")

TYPES = ["i8", "u8", "i16", "u16", "i32", "u32", "i64", "u64"]
PAIR_TYPES = ["i8", "u16", "i32", "u32", "i64", "u64"]
INT_MACROS_BASE = ["LONGS_EQUAL", "UNSIGNED_LONGS_EQUAL", "LONGLONGS_EQUAL", "UNSIGNED_LONGLONGS_EQUAL", "BYTES_EQUAL",
                   "SIGNED_BYTES_EQUAL", "C_BOOL", "C_INT", "C_UINT", "C_LONG", "C_ULONG", "C_LONGLONG", "C_ULONGLONG", "C_CHAR",
                   "C_UBYTE", "C_SBYTE"]
INT_MACROS_SAME = INT_MACROS_BASE + [m + "_TEXT" for m in INT_MACROS_BASE] + ["CHECK_EQUAL_TEXT"]
RELOPS = ["lt", "le", "gt", "ge", "eq", "ne"]
STR_BASE = ["STRCMP_EQUAL", "STRNCMP_EQUAL", "STRCMP_NOCASE_EQUAL", "STRCMP_CONTAINS", "STRCMP_NOCASE_CONTAINS", "C_STRING"]
STR_MACROS = STR_BASE + STR_BASE + [m + "_TEXT" for m in STR_BASE]
MEM_MACROS = ["MEMCMP_EQUAL", "C_MEMCMP", "MEMCMP_EQUAL_TEXT", "C_MEMCMP_TEXT"]
DBL_MACROS = ["DOUBLES_EQUAL", "C_REAL", "DOUBLES_EQUAL_TEXT", "C_REAL_TEXT"]
PTR_MACROS = ["POINTERS_EQUAL", "FUNCTIONPOINTERS_EQUAL", "C_POINTER", "CHECK_EQUAL", "POINTERS_EQUAL_TEXT", "FUNCTIONPOINTERS_EQUAL_TEXT",
              "C_POINTER_TEXT"]
BOOL_MACROS = ["CHECK", "CHECK_TRUE", "CHECK_FALSE", "CHECK_C", "CHECK_TEXT", "CHECK_TRUE_TEXT", "CHECK_FALSE_TEXT", "CHECK_C_TEXT"]
SEQ_STEPS = ["cpp_pass", "cpp_fail", "c_pass", "c_fail", "cmp_pass", "cmp_fail", "str_null_fail", "cstr_null_fail", "fail", "c_fail_text",
             "mem_null_fail", "throws_pass", "throws_fail", "dbl_fail", "check_fail", "c_check_fail", "equal_fail", "equal_pass",
             "bits_fail", "exit"]
SEQ_PASS = ["cpp_pass", "c_pass", "cmp_pass", "throws_pass", "equal_pass"]
FAIL_MACROS = ["FAIL", "FAIL_TEST", "C_FAIL", "C_FAIL_TEXT"]


def rng_of(t):
    w = int(t[1:])
    return (-(1 << (w - 1)), (1 << (w - 1)) - 1) if t[0] == "i" else (0, (1 << w) - 1)


def lattice(t):
    lo, hi = rng_of(t)
    c = {lo, lo + 1, hi - 1, hi, 0, 1, 2, -1, -2}
    for k in (7, 8, 15, 16, 31, 32, 63):
        for d in (-2, -1, 0, 1):
            c.add((1 << k) + d)
            c.add(-(1 << k) + d)
    return sorted(v for v in c if lo <= v <= hi)


LAT = {t: lattice(t) for t in TYPES}


def small_lattice(t):
    lo, hi = rng_of(t)
    c = [lo, -1, 0, 1, 127, 128, 255, 256, hi]
    return sorted(set(v for v in c if lo <= v <= hi))


def pick_int(rng, t):
    lo, hi = rng_of(t)
    x = rng.random()
    if x < 0.75:
        return rng.choice(LAT[t])
    if x < 0.9:
        return rng.randint(max(lo, -300), min(hi, 300))
    return rng.randint(lo, hi)


def related_int(rng, t, v):
    """a second operand related to v: equal, equal modulo 2^8 / 2^32, neighbour, or fresh"""
    lo, hi = rng_of(t)
    x = rng.random()
    if x < 0.3:
        return v
    if x < 0.5:
        c = [v + d for d in (256, -256, 1 << 32, -(1 << 32), 1 << 8, 1 << 16, -(1 << 16), 1 << 31, -(1 << 31)) if lo <= v + d <= hi]
        if c:
            return rng.choice(c)
    if x < 0.6:
        c = [v + d for d in (1, -1) if lo <= v + d <= hi]
        if c:
            return rng.choice(c)
    return pick_int(rng, t)


def convert_same_bits(v, tfrom, tto):
    """the value with the same low bits read at another type (for mixed-sign pairs that compare equal in C++)"""
    w = int(tto[1:])
    u = v % (1 << w)
    if tto[0] == "i" and u >= 1 << (w - 1):
        u -= 1 << w
    return u


# ---- doubles
def bits_of(x):
    return "%016x" % struct.unpack("<Q", struct.pack("<d", x))[0]


def dbl_from_bits(b):
    return struct.unpack("<d", struct.pack("<Q", b))[0]


D_SPECIAL_BITS = [
    0x0000000000000000, 0x8000000000000000,          # +-0
    0x0000000000000001, 0x8000000000000001,          # smallest subnormals
    0x000fffffffffffff, 0x800fffffffffffff,          # largest subnormals
    0x0010000000000000, 0x8010000000000000,          # smallest normals
    0x3ff0000000000000, 0xbff0000000000000,          # +-1
    0x3ff0000000000001, 0x3fefffffffffffff,          # 1 + ulp, 1 - ulp/2
    0x3fb999999999999a, 0x3fc999999999999a, 0x3fd3333333333333, 0x3fd3333333333334,   # 0.1 0.2 0.3 0.1+0.2
    0x4059000000000000, 0x4024000000000000,          # 100, 10
    0x7fefffffffffffff, 0xffefffffffffffff,          # +-DBL_MAX
    0x7fe0000000000000,                              # DBL_MAX/2 + ...: a big finite
    0x47efffffe0000000, 0x47efffffe0000001, 0xc7efffffe0000000, 0xc7efffffe0000001,   # +-FLT_MAX and the next double beyond it
    0x48078287f49c4a1d, 0xc8078287f49c4a1d,          # +-1e39 (finite, above FLT_MAX)
    0x7e37e43c8800759c, 0xfe37e43c8800759c, 0x7e47e43c8800759c, 0xfe47e43c8800759c,   # +-1e300, +-2e300
    0x380fffffc0000000, 0x36a0000000000000,          # the largest / the smallest float subnormal: normal doubles that are subnormal as float
    0x7ff0000000000000, 0xfff0000000000000,          # +-inf
    0x7ff8000000000000, 0xfff8000000000000, 0x7ff0000000000001, 0x7fffffffffffffff,   # NaNs: quiet, negative, signalling, all ones
]
D_GRID = ["%016x" % b for b in D_SPECIAL_BITS]
TOL_BITS = [0x0000000000000000, 0x8000000000000000, 0x0000000000000001, 0x0010000000000000, 0x3cb0000000000000,  # 0 -0 denorm minnormal 2^-52
            0x3fb999999999999a, 0x3ff0000000000000, 0x7fefffffffffffff, 0x7ff0000000000000,                      # 0.1 1 DBL_MAX +inf
            0xbfb999999999999a, 0xfff0000000000000, 0x7ff8000000000000, 0x8000000000000001]                      # -0.1 -inf NaN -denorm
TOL_GRID = ["%016x" % b for b in TOL_BITS]


def pick_dbl(rng):
    x = rng.random()
    if x < 0.7:
        return rng.choice(D_GRID)
    if x < 0.85:
        return bits_of(rng.choice([rng.uniform(-10, 10), rng.uniform(-1e300, 1e300), rng.gauss(0, 1e-300)]))
    return "%016x" % rng.getrandbits(64)


def related_dbl(rng, e):
    b = int(e, 16)
    x = rng.random()
    if x < 0.2:
        return e
    if x < 0.4:
        return "%016x" % ((b + rng.choice([1, -1, 2, -2])) % (1 << 64))      # neighbour in the bit order
    if x < 0.5:
        return "%016x" % (b ^ (1 << 63))                                       # the negation
    return pick_dbl(rng)


def pick_tol(rng, e, a):
    x = rng.random()
    if x < 0.6:
        return rng.choice(TOL_GRID)
    if x < 0.85:
        # the computed difference itself, and its neighbours: the boundary of <=
        try:
            d = abs(dbl_from_bits(int(e, 16)) - dbl_from_bits(int(a, 16)))
            b = int(bits_of(d), 16)
            return "%016x" % ((b + rng.choice([0, 0, 1, -1])) % (1 << 64))
        except (OverflowError, ValueError):
            return rng.choice(TOL_GRID)
    return pick_dbl(rng)


# ---- strings
ALPHA = [0x40, 0x41, 0x5a, 0x5b, 0x60, 0x61, 0x7a, 0x7b, 0x42, 0x62, 0x01, 0x80, 0xff, 0x20]


def hexs(bs):
    return "-" if not bs else "".join("%02x" % b for b in bs)


def pick_bytes(rng, nul=False):
    n = rng.choice([0, 1, 1, 2, 3, 4, 6, 9])
    al = ALPHA + ([0] if nul else [])
    return [rng.choice(al) for _ in range(n)]


def swapcase(bs):
    return [b ^ 0x20 if (0x41 <= b <= 0x5a or 0x61 <= b <= 0x7a) else b for b in bs]


def related_bytes(rng, e, nul=False):
    x = rng.random()
    if x < 0.15:
        return list(e)
    if x < 0.3:
        return swapcase(e)
    if x < 0.4 and e:                      # differs in one position
        i = rng.randrange(len(e))
        return e[:i] + [rng.choice(ALPHA)] + e[i + 1:]
    if x < 0.5:                            # proper prefix / extension
        return e[:rng.randint(0, len(e))] if rng.random() < 0.5 else e + pick_bytes(rng, nul)
    if x < 0.65:                           # contains e
        return pick_bytes(rng, nul) + (e if rng.random() < 0.6 else swapcase(e)) + pick_bytes(rng, nul)
    if x < 0.75 and e:                     # a substring of e
        i = rng.randint(0, len(e)); j = rng.randint(i, len(e))
        return e[i:j]
    if x < 0.8 and e:                      # case-flip of a neighbour of the alphabet boundary: '@'<->'`', '['<->'{'
        return [b ^ 0x20 for b in e]
    return pick_bytes(rng, nul)


def opt(rng, bs, p_null=0.12):
    return "null" if rng.random() < p_null else hexs(bs)


# ---- one op of each kind
def op_int(rng):
    if rng.random() < 0.2:
        te, ta = rng.choice(PAIR_TYPES), rng.choice(PAIR_TYPES)
        ve = pick_int(rng, te)
        if rng.random() < 0.35:
            va = convert_same_bits(ve, te, ta)
        else:
            lo, hi = rng_of(ta)
            va = ve if (rng.random() < 0.3 and lo <= ve <= hi) else pick_int(rng, ta)
        return "int CHECK_EQUAL %s %d %s %d" % (te, ve, ta, va)
    t = rng.choice(TYPES)
    m = rng.choice(INT_MACROS_SAME + ["CHECK_EQUAL"])
    ve = pick_int(rng, t)
    va = related_int(rng, t, ve)
    if m == "C_BOOL" and rng.random() < 0.6:          # truthiness: zero against non-zero
        ve = rng.choice([0, ve])
        va = rng.choice([0, va, 1])
    return "int %s %s %d %s %d" % (m, t, ve, t, va)


def op_enum(rng):
    t = rng.choice(TYPES)
    ve = pick_int(rng, t)
    if rng.random() < 0.25:
        return "enumt %s %s %d %s %d" % (rng.choice(["i32", "u16"]), t, ve, t, related_int(rng, t, ve))
    return "enum %s %s %d %s %d" % (rng.choice(TYPES), t, ve, t, related_int(rng, t, ve))


def op_zero(rng):
    t = rng.choice(TYPES)
    v = rng.choice([0, 0, pick_int(rng, t)])
    return "zero %s %s %d" % (rng.choice(["CHECK_EQUAL_ZERO", "CHECK_EQUAL_ZERO_TEXT"]), t, v)


def op_throws(rng):
    return "throws %s" % rng.choice(["nothing", "expected", "other", "other_class"])


def op_seq(rng):
    """a test body of several check statements: mostly a passing prefix, then failing checks of both styles"""
    n = rng.randint(1, 7)
    steps = []
    for i in range(n):
        steps.append(rng.choice(SEQ_PASS) if rng.random() < 0.55 else rng.choice(SEQ_STEPS))
    return ("seqc " if rng.random() < 0.3 else "seq ") + " ".join(steps)


EVALS_ONCE = ["UNSIGNED_LONGS_EQUAL", "LONGLONGS_EQUAL", "UNSIGNED_LONGLONGS_EQUAL", "BYTES_EQUAL", "SIGNED_BYTES_EQUAL", "BITS_EQUAL",
              "ENUMS_EQUAL_INT", "DOUBLES_EQUAL", "POINTERS_EQUAL", "C_INT", "C_LONG", "C_BOOL", "C_UBYTE", "C_BITS", "C_REAL", "CHECK",
              "CHECK_TRUE", "CHECK_FALSE", "CHECK_C"]
EVALS_ALL = ["CHECK_EQUAL", "CHECK_EQUAL_TEXT", "CHECK_COMPARE_lt", "CHECK_COMPARE_ge", "LONGS_EQUAL", "CHECK_EQUAL_ZERO"] + EVALS_ONCE


def op_evals(rng):
    m = rng.choice(["CHECK_EQUAL", "CHECK_EQUAL", "CHECK_COMPARE_lt", "LONGS_EQUAL", "CHECK_EQUAL_ZERO", "CHECK_COMPARE_ge",
                    "CHECK_EQUAL_TEXT"] + EVALS_ONCE)
    e0 = rng.randint(-5, 5)
    a0 = e0 if rng.random() < 0.4 else rng.randint(-5, 5)
    return "evals %s %d %d %d %d" % (m, e0, rng.choice([0, 0, 1, -1, 3]), a0, rng.choice([0, 0, 1, -2]))


def op_bool(rng):
    t = rng.choice(TYPES)
    v = rng.choice([0, 0, 1, pick_int(rng, t)])
    if t in ("i64", "u64") and rng.random() < 0.3:
        v = rng.choice([1 << 32, 1 << 33, (1 << 32) + 1, 3 << 40])     # non-zero, low 32 bits zero or not
    return "bool %s %s %d" % (rng.choice(BOOL_MACROS), t, v)


COND_OPS = ["or", "and", "eq", "ne", "lt", "cond"]
# operand pairs of a compound condition: every truth combination, equal / ordered both ways, negative, and values on which
# `!a OP b` differs from `!(a OP b)` for each operator (0||1, 1&&0, 1==2, 0!=0 vs 0!=1, 3<5, 0?x:0)
COND_PAIRS = [(0, 0), (0, 1), (1, 0), (1, 1), (1, 2), (2, 1), (2, 2), (3, 5), (5, 3), (-1, 0), (0, -1), (0, 7), (-2147483648, 2147483647)]


def op_boolx(rng):
    """a boolean check macro on a compound condition over two ints (top-level operator binds weaker than unary !)"""
    if rng.random() < 0.7:
        a, b = rng.choice(COND_PAIRS)
    else:
        a = rng.choice([0, 0, 1, pick_int(rng, "i32")])
        b = rng.choice([0, 1, a, pick_int(rng, "i32")])
    return "boolx %s %s %d %d" % (rng.choice(BOOL_MACROS), rng.choice(COND_OPS), a, b)


def op_dbl(rng):
    e = pick_dbl(rng)
    a = related_dbl(rng, e)
    if rng.random() < 0.1:
        return "dbl %s %s %s %s" % (rng.choice(["CHECK_EQUAL", "CHECK_EQUAL_TEXT"]), e, a, D_GRID[0])
    return "dbl %s %s %s %s" % (rng.choice(DBL_MACROS), e, a, pick_tol(rng, e, a))


def op_dcmp(rng):
    e = pick_dbl(rng)
    return "dcmp %s %s %s" % (rng.choice(RELOPS), e, related_dbl(rng, e))


def op_cmp(rng):
    o = rng.choice(RELOPS + ["lt_text"])
    if o in ("lt", "ge") and rng.random() < 0.5:
        te, ta = rng.choice(PAIR_TYPES), rng.choice(PAIR_TYPES)
        ve = pick_int(rng, te)
        lo, hi = rng_of(ta)
        va = ve if (rng.random() < 0.3 and lo <= ve <= hi) else pick_int(rng, ta)
        return "cmp %s %s %d %s %d" % (o, te, ve, ta, va)
    t = rng.choice(TYPES)
    ve = pick_int(rng, t)
    return "cmp %s %s %d %s %d" % (o, t, ve, t, related_int(rng, t, ve))


def op_str(rng, nul=False):
    e = pick_bytes(rng, nul)
    a = related_bytes(rng, e, nul)
    if rng.random() < 0.5:
        e, a = a, e
    m = rng.choice(STR_MACROS)
    n = rng.choice([0, 1, 2, max(len(e), len(a)), min(len(e), len(a)), max(0, min(len(e), len(a)) - 1), len(e) + 1, 1000,
                    (1 << 64) - 1, rng.randint(0, 8)])
    return "str %s %s %s %d" % (m, opt(rng, e), opt(rng, a), n)


def op_mem(rng):
    e = pick_bytes(rng, True)
    if rng.random() < 0.3:
        e = e + [rng.choice(ALPHA + [0]) for _ in range(rng.randint(1, 6))]
    a = related_bytes(rng, e, True)
    while len(a) < len(e) and rng.random() < 0.7:
        a = a + [rng.choice([0, 0x41, 0xff])]
    se, sa = opt(rng, e, 0.15), opt(rng, a, 0.15)
    limit = min([len(x) for x, s in ((e, se), (a, sa)) if s != "null"] or [9])
    n = rng.choice([0, limit, limit, max(0, limit - 1), rng.randint(0, limit)])
    return "mem %s %s %s %d" % (rng.choice(MEM_MACROS), se, sa, n)


MASKS = {"i32": [0, 1, 0x80, 0xff, 0x100, 0xff00, 0x7fffffff, -1, -(1 << 31), 0x10000, 0xaaaa, 0x5555],
         "u8": [0, 1, 0x80, 0xff, 0x7f, 0x0f, 0xf0, 0xaa],
         "u64": [0, 1, 0xff, 0x100, 0xffff0000, 1 << 32, 1 << 63, (1 << 64) - 1, (1 << 63) - 1, 0xff00000000, 0x8000]}


def op_bits(rng):
    t = rng.choice(TYPES)
    tm = rng.choice(["i32", "u8", "u64"])
    ve = pick_int(rng, t)
    x = rng.random()
    if x < 0.3:
        va = ve
    elif x < 0.6:      # differs in exactly one bit
        w = int(t[1:])
        u = (ve % (1 << w)) ^ (1 << rng.randrange(w))
        va = convert_same_bits(u, "u64", t)
    else:
        va = pick_int(rng, t)
    km = rng.choice(MASKS[tm]) if rng.random() < 0.8 else pick_int(rng, tm)
    m = rng.choice(["BITS_EQUAL", "C_BITS", "BITS_EQUAL_TEXT", "C_BITS_TEXT"])
    return "bits %s %s %d %s %d %s %d" % (m, t, ve, t, va, tm, km)


def op_ptr(rng):
    c = [0, 1, 8, 4096, 4097, (1 << 32), (1 << 47) - 1, (1 << 63), (1 << 64) - 1, (1 << 64) - 2]
    e = rng.choice(c)
    a = e if rng.random() < 0.4 else rng.choice(c)
    return "ptr %s %d %d" % (rng.choice(PTR_MACROS), e, a)


def op_fail(rng):
    return "fail %s" % rng.choice(FAIL_MACROS)


KINDS = [(op_int, 24), (op_dbl, 16), (op_str, 16), (op_mem, 8), (op_bits, 8), (op_cmp, 8), (op_dcmp, 4), (op_enum, 5),
         (op_bool, 5), (op_boolx, 6), (op_ptr, 4), (op_fail, 2), (op_zero, 2), (op_throws, 2), (op_seq, 6), (op_evals, 4)]


def gen_case(rng, n):
    fns = [f for f, w in KINDS for _ in range(w)]
    return [rng.choice(fns)(rng) for _ in range(n)]


def malformed_op(rng):
    x = rng.random()
    if x < 0.15:
        return "int NO_SUCH_MACRO i32 1 i32 1"
    if x < 0.3:
        return "int LONGS_EQUAL i32 %d i64 5" % rng.randint(-5, 5)            # cast macros: (T, T) only in the harness
    if x < 0.45:                                                             # values outside the operand type: wrap in the harness
        t = rng.choice(["i8", "u8", "i16", "u16", "i32", "u32"])
        lo, hi = rng_of(t)
        return "int %s %s %d %s %d" % (rng.choice(INT_MACROS_SAME), t, hi + rng.randint(1, 300), t, lo - rng.randint(1, 300))
    if x < 0.6:
        return op_str(rng, nul=True)                                          # interior NUL: the C string ends there
    if x < 0.7:
        return "mem MEMCMP_EQUAL 6162 616263 %d" % rng.choice([3, 4, 100])    # longer than a block: outside the contract, skipped
    if x < 0.8:
        return "dbl DOUBLES_EQUAL 7ff 0 0"
    if x < 0.85:
        return "str STRCMP_EQUAL 6g 61 0"
    if x < 0.9:
        return rng.choice(["boolx CHECK_FALSE xor 1 2", "boolx CHECK or 99999999999 1", "boolx CHECK_EQUAL or 1 1", "boolx CHECK_C cond 1"])
    return rng.choice(["bogus", "int", "bits BITS_EQUAL i8 1 i8 1 i16 1", "cmp xx i32 1 i32 1", "enum i32 i8 1 i16 1"])


def chunks(ops, n):
    return [ops[i:i + n] for i in range(0, len(ops), n)]


def exhaustive(rng):
    """thorough tier: the finite lattices in full"""
    ops = []
    for t in TYPES:
        for ve in LAT[t]:
            for va in LAT[t]:
                for m in INT_MACROS_SAME:
                    ops.append("int %s %s %d %s %d" % (m, t, ve, t, va))
                ops.append("cmp %s %s %d %s %d" % (rng.choice(["le", "gt", "eq", "ne"]), t, ve, t, va))
                ops.append("enum %s %s %d %s %d" % (rng.choice(TYPES), t, ve, t, va))
    for te in PAIR_TYPES:
        for ta in PAIR_TYPES:
            for ve in LAT[te]:
                for va in LAT[ta]:
                    ops.append("int CHECK_EQUAL %s %d %s %d" % (te, ve, ta, va))
                    ops.append("cmp lt %s %d %s %d" % (te, ve, ta, va))
                    ops.append("cmp ge %s %d %s %d" % (te, ve, ta, va))
    for e in D_GRID:
        for a in D_GRID:
            for t in TOL_GRID:
                ops.append("dbl DOUBLES_EQUAL %s %s %s" % (e, a, t))
                ops.append("dbl C_REAL %s %s %s" % (e, a, t))
            ops.append("dbl CHECK_EQUAL %s %s %s" % (e, a, D_GRID[0]))
            ops.append("dcmp %s %s %s" % (rng.choice(RELOPS), e, a))
    al = [0x41, 0x61, 0x5b, 0x80]
    strs = [[]] + [[x] for x in al] + [[x, y] for x in al for y in al] + [[x, y, z] for x in al[:3] for y in al[:3] for z in al[:3]]
    sw = ["null"] + [hexs(s) for s in strs]
    for e in sw:
        for a in sw:
            for m in ["STRCMP_EQUAL", "STRCMP_NOCASE_EQUAL", "STRCMP_CONTAINS", "STRCMP_NOCASE_CONTAINS", "C_STRING"]:
                ops.append("str %s %s %s 0" % (m, e, a))
            for n in (0, 1, 2, 3, 4):
                ops.append("str STRNCMP_EQUAL %s %s %d" % (e, a, n))
    bl = [0x00, 0x41, 0xff]
    blocks = [[x, y, z] for x in bl for y in bl for z in bl]
    bw = ["null"] + [hexs(b) for b in blocks]
    for e in bw:
        for a in bw:
            for n in (0, 1, 2, 3):
                ops.append("mem %s %s %s %d" % (rng.choice(["MEMCMP_EQUAL", "C_MEMCMP"]), e, a, n))
    for t in TYPES:
        for ve in small_lattice(t):
            for va in small_lattice(t):
                for tm in ("i32", "u8", "u64"):
                    for km in MASKS[tm]:
                        ops.append("bits BITS_EQUAL %s %d %s %d %s %d" % (t, ve, t, va, tm, km))
                        ops.append("bits C_BITS %s %d %s %d %s %d" % (t, ve, t, va, tm, km))
    for t in TYPES:
        for v in LAT[t]:
            for m in BOOL_MACROS:
                ops.append("bool %s %s %d" % (m, t, v))
            ops.append("zero CHECK_EQUAL_ZERO %s %d" % (t, v))
    for m in BOOL_MACROS:
        for o in COND_OPS:
            for a in small_lattice("i32") + [2, 5]:
                for b in small_lattice("i32") + [2, 5]:
                    ops.append("boolx %s %s %d %d" % (m, o, a, b))
    # every statement kind followed by every statement kind, after a passing prefix of each style
    for x in SEQ_STEPS:
        for y in SEQ_STEPS:
            ops.append("seq %s %s" % (x, y))
            ops.append("seq cpp_pass c_pass %s %s cpp_fail c_fail" % (x, y))
            ops.append("seqc %s %s" % (x, y))
    for m in EVALS_ALL:
        for e0 in (-1, 0, 1):
            for a0 in (-1, 0, 1):
                for es in (0, 1, -1):
                    for as_ in (0, 2):
                        ops.append("evals %s %d %d %d %d" % (m, e0, es, a0, as_))
    return ops


def flip(t, v, b):
    """the value of type t whose bit pattern is that of v with bit b flipped"""
    w = int(t[1:])
    return convert_same_bits((v % (1 << w)) ^ (1 << b), "u64", t)


FLIP_BITS = [0, 7, 8, 15, 16, 31, 32, 47, 63]


def sweep():
    """Deterministic width / expansion sweep, part of EVERY run: every macro in its plain and its _TEXT form over operand pairs
    that differ in exactly one bit (bits 0, 7, 8, 15, 16, 31 = sign of int, 32, 47, 63 = sign of long) at every operand type wide
    enough, plus an equal pair - so a macro that expands to a neighbour of another width, signedness or meaning gives a concrete
    wrong verdict - and for the string / block / double macros the operand pairs that tell each macro from every other one."""
    ops = []
    for t in TYPES:
        w = int(t[1:])
        lo, hi = rng_of(t)
        bases = sorted(set([0, hi, lo, min(hi, 0x55)]))
        pairs = [(v, v) for v in bases[:2]]
        for b in FLIP_BITS:
            if b < w:
                for v in bases:
                    pairs.append((v, flip(t, v, b)))
        for ve, va in pairs:
            for m in INT_MACROS_SAME + ["CHECK_EQUAL"]:
                ops.append("int %s %s %d %s %d" % (m, t, ve, t, va))
            for o in RELOPS + ["lt_text"]:
                ops.append("cmp %s %s %d %s %d" % (o, t, ve, t, va))
            for tu in TYPES:
                ops.append("enum %s %s %d %s %d" % (tu, t, ve, t, va))
            for tu in ("i32", "u16"):
                ops.append("enumt %s %s %d %s %d" % (tu, t, ve, t, va))
        # truthiness and zero tests: single bits (a conversion to a narrower parameter loses the high ones)
        for v in [0] + [flip(t, 0, b) for b in FLIP_BITS if b < w] + [hi, lo]:
            for m in BOOL_MACROS:
                ops.append("bool %s %s %d" % (m, t, v))
            for m in ("CHECK_EQUAL_ZERO", "CHECK_EQUAL_ZERO_TEXT"):
                ops.append("zero %s %s %d" % (m, t, v))
        # masked bits: operands differing in one bit, masks selecting exactly that bit / everything but that bit
        for b in FLIP_BITS:
            if b < w:
                for v in (0, hi):
                    va = flip(t, v, b)
                    for m in ("BITS_EQUAL", "BITS_EQUAL_TEXT", "C_BITS", "C_BITS_TEXT"):
                        ops.append("bits %s %s %d %s %d u64 %d" % (m, t, v, t, va, 1 << b))
                        ops.append("bits %s %s %d %s %d u64 %d" % (m, t, v, t, va, ((1 << 64) - 1) ^ (1 << b)))
                        if b < 31:
                            ops.append("bits %s %s %d %s %d i32 %d" % (m, t, v, t, va, 1 << b))
                        if b < 8:
                            ops.append("bits %s %s %d %s %d u8 %d" % (m, t, v, t, va, 1 << b))
    # the boolean macros on compound conditions: every macro (plain and _TEXT) x every operator x every operand pair
    for m in BOOL_MACROS:
        for o in COND_OPS:
            for a, b in COND_PAIRS:
                ops.append("boolx %s %s %d %d" % (m, o, a, b))
    for m in PTR_MACROS:
        for v in (0, 4096, (1 << 64) - 1):
            ops.append("ptr %s %d %d" % (m, v, v))
            for b in (0, 12, 31, 32, 47, 63):
                ops.append("ptr %s %d %d" % (m, v, v ^ (1 << b)))
    # strings: (ab, AB) equal only without case; (abc, abd, n=2) equal only in the first n; (b, abc) / (B, abc) only contained;
    # (abc, b) containment is not symmetric; NULL rules
    spairs = [("6162", "4142", 2), ("616263", "616264", 2), ("616263", "616264", 3), ("62", "616263", 1), ("42", "616263", 1),
              ("616263", "62", 3), ("616263", "616263", 3), ("-", "-", 0), ("-", "61", 1), ("null", "null", 0), ("null", "61", 1),
              ("61", "null", 1), ("405b607b", "607b405b", 4), ("5a", "7a", 1)]
    for e, a, n in spairs:
        for m in STR_BASE + [x + "_TEXT" for x in STR_BASE]:
            ops.append("str %s %s %s %d" % (m, e, a, n))
    mpairs = [("61006364", "61006365", 4), ("61006364", "61006365", 3), ("61006364", "61006364", 4), ("null", "61006364", 4),
              ("null", "61006364", 0), ("null", "null", 4), ("61", "62", 1), ("61", "62", 0)]
    for e, a, n in mpairs:
        for m in MEM_MACROS:
            ops.append("mem %s %s %s %d" % (m, e, a, n))
    one, onehalf, quarter, inf, ninf, nan = (bits_of(1.0), bits_of(1.5), bits_of(0.25), "7ff0000000000000", "fff0000000000000",
                                             "7ff8000000000000")
    for e, a, t in [(one, onehalf, one), (one, onehalf, quarter), (one, onehalf, bits_of(0.5)), (one, one, bits_of(0.0)), (inf, inf, quarter),
                    (inf, ninf, quarter), (inf, ninf, inf), (ninf, ninf, bits_of(0.0)), (nan, nan, inf), (one, nan, inf),
                    (bits_of(1e300), bits_of(2e300), one), (bits_of(-1e39), bits_of(-2e39), one)]:
        for m in DBL_MACROS:
            ops.append("dbl %s %s %s %s" % (m, e, a, t))
        for m in ("CHECK_EQUAL", "CHECK_EQUAL_TEXT"):
            ops.append("dbl %s %s %s %s" % (m, e, a, D_GRID[0]))
    for m in FAIL_MACROS:
        ops.append("fail " + m)
    for k in ("nothing", "expected", "other", "other_class"):
        ops.append("throws " + k)
    # every statement kind alone, after a passing prefix and in front of a failing tail: normal and crash-on-fail terminators
    for x in SEQ_STEPS:
        for kind in ("seq", "seqc"):
            ops.append("%s %s" % (kind, x))
            ops.append("%s cpp_pass c_pass cmp_pass %s cpp_fail c_fail" % (kind, x))
    # operands with side effects: every macro of the `evals` op, pure / changing expected / changing actual / both
    for m in EVALS_ALL:
        for e0, es, a0, as_ in ((2, 0, 2, 0), (2, 0, 3, 0), (0, 0, 0, 0), (2, 1, 2, 0), (2, 0, 2, 1), (2, 1, 3, -1), (256, 0, 0, 0),
                                (0, 0, 1, 1)):
            ops.append("evals %s %d %d %d %d" % (m, e0, es, a0, as_))
    return ops


def generate(rng, tier):
    out = []
    if tier == "quick":
        ncases, nops = 500, 40
    else:
        ncases, nops = 4000, 60
    for _ in range(ncases):
        out.append(("gen", gen_case(rng, nops)))
    # the double grid is small enough for every run: every class x class, tolerances sampled in quick
    grid = []
    for e in D_GRID:
        for a in D_GRID:
            ts = TOL_GRID if tier != "quick" else [rng.choice(TOL_GRID), rng.choice(TOL_GRID[:9])]
            for t in ts:
                grid.append("dbl %s %s %s %s" % (rng.choice(["DOUBLES_EQUAL", "C_REAL"]), e, a, t))
    for c in chunks(grid, 100):
        out.append(("dgrid", c))
    for c in chunks(sweep(), 200):
        out.append(("sweep", c))
    for _ in range(ncases // 10):
        ops = gen_case(rng, 12)
        for _ in range(6):
            ops.insert(rng.randint(0, len(ops)), malformed_op(rng))
        out.append(("malformed", ops))
    if tier != "quick":
        for c in chunks(exhaustive(rng), 400):
            out.append(("exhaustive", c))
    return out


def translate(ctx):
    from translate import extract_asserts, extract_asserts_ast
    problems = []
    for t in (extract_asserts, extract_asserts_ast):      # both always run: neither Gen file may keep text of another tree
        try:
            problems += list(t.run() or [])
        except Exception as e:
            problems.append("translator %s cannot translate the current source: %s" % (t.__name__, e))
    return problems


def _pairs(r):
    cur = None
    for l in r.impl:
        if l.startswith("> "):
            cur = l[2:].split()
        elif l.startswith("r ") and cur:
            yield cur, l.split()


def nontrivial(r):
    f = [o[1] for _, o in _pairs(r)]
    return "1" in f and "0" in f




def dclass(h):
    b = int(h, 16)
    ex, fr = (b >> 52) & 0x7ff, b & ((1 << 52) - 1)
    if ex == 0x7ff:
        return "nan" if fr else ("-inf" if b >> 63 else "+inf")
    if ex == 0:
        return "zero" if fr == 0 else "subnormal"
    return "finite"


def observe(r, rep):
    for op, o in _pairs(r):
        kind = op[0]
        if kind in ("seq", "seqc"):
            rep.count("check.%s.%s" % (kind, "fail" if o[1] == "1" else "pass"))
            continue
        if kind == "evals":
            rep.count("check.evals.%s.%s" % (op[1], "fail" if o[1] == "1" else "pass"))
            continue
        name = op[1] if kind not in ("enum",) else "ENUMS_EQUAL_TYPE"
        if kind in ("cmp", "dcmp"):
            name = "CHECK_COMPARE"
        res = "fail" if o[1] == "1" else "pass"
        rep.count("check.%s.%s.%s" % (kind, name, res))
        if kind in ("cmp", "dcmp") and o[1] == "0" and o[2] == "0":
            rep.count("branch.compare_pass_counts_nothing")
        if kind == "dbl" and name != "CHECK_EQUAL":
            ce, ca, ct = dclass(op[2]), dclass(op[3]), dclass(op[4])
            if "nan" in (ce, ca):
                rep.count("branch.dbl.nan_operand")
            elif ct == "nan":
                rep.count("branch.dbl.nan_tolerance")
            elif ce.endswith("inf") and ca.endswith("inf"):
                rep.count("branch.dbl.both_inf_%s" % ("same" if ce == ca else "opposite"))
            elif ce.endswith("inf") or ca.endswith("inf"):
                rep.count("branch.dbl.one_inf")
            else:
                rep.count("branch.dbl.finite_difference")
            if ct.endswith("inf"):
                rep.count("branch.dbl.tolerance_%s" % ct)
            if "nan" not in (ce, ca, ct) and not (ce.endswith("inf") or ca.endswith("inf") or ct.endswith("inf")):
                # how often does the IEEE rounded difference decide differently from the exact real difference?
                # (the property is read with the IEEE difference, see ASSUMPTIONS; this is reported, not judged)
                fe, fa, ft = (dbl_from_bits(int(x, 16)) for x in (op[2], op[3], op[4]))
                if ft >= 0:
                    d = fe - fa
                    if d != float("inf") and d != float("-inf"):
                        ieee = abs(d) <= ft
                        exact = abs(Fraction(fe) - Fraction(fa)) <= Fraction(ft)
                        if ieee != exact:
                            rep.count("info.dbl.ieee_equal_but_exact_difference_exceeds_tolerance" if ieee else
                                      "info.dbl.ieee_unequal_but_exact_difference_within_tolerance")
                        elif abs(d) == ft:
                            rep.count("branch.dbl.difference_equals_tolerance")
            if int(op[4], 16) >> 63 and ct not in ("nan",):
                rep.count("branch.dbl.negative_tolerance")
        if kind == "boolx" and len(op) == 5:
            a, b = int(op[3]), int(op[4])
            na = 0 if a else 1
            whole = {"or": a or b, "and": a and b, "eq": a == b, "ne": a != b, "lt": a < b, "cond": (b if a else 0)}[op[2]]
            first = {"or": na or b, "and": na and b, "eq": na == b, "ne": na != b, "lt": na < b, "cond": (b if na else 0)}[op[2]]
            if bool(first) == bool(whole):          # `!a OP b` and `!(a OP b)` differ: only the parenthesised expansion is right
                rep.count("branch.boolx.negating_first_operand_only_would_differ")
        if kind in ("str", "mem"):
            nulls = (op[2] == "null") + (op[3] == "null")
            rep.count("branch.%s.null_operands_%d" % (kind, nulls))
            if kind == "mem" and op[4] == "0":
                rep.count("branch.mem.zero_length")
        if kind == "int" and op[2] != op[4]:
            rep.count("branch.int.mixed_types")
    cur = None
    for l in r.impl:
        if l == "> skip":
            rep.count("op.skipped_by_harness")
        if l.startswith("> seq ") or l.startswith("> seqc "):
            cur = l.split()[2:]
        elif l.startswith("ran ") and cur is not None:
            n = int(l.split()[1])
            if n < len(cur):
                rep.count("branch.seq.stopped_early_by_%s" % ("exit" if cur[n - 1] == "exit" else "c_style_check" if cur[n - 1] in
                          ("c_fail", "cstr_null_fail", "c_fail_text", "c_check_fail") else "cpp_check"))
            else:
                rep.count("branch.seq.ran_to_the_end")
            cur = None
        elif l.startswith("crashed "):
            rep.count("branch.seqc.crash_method_calls_%s" % l.split()[1])
        elif l.startswith("evals "):
            rep.count("observation.operand_evaluations.%s" % "_".join(l.split()[1:]))
        elif l.startswith("warn ") and l != "warn 0":
            rep.count("observation.multiple_evaluation_warnings." + l.split()[1])


def signature(r):
    """stable class of a failing case (used for known findings)"""
    if r.crash:
        return "crash:" + (r.crash.split()[1] if len(r.crash.split()) > 1 else "?")
    if r.spec and r.spec.startswith("spec FAIL"):
        m = re.match(r"spec FAIL op#\d+ (\w+) (\w+)", r.spec)
        what = "%s %s" % (m.group(1), m.group(2)) if m else "?"
        if "counted" in r.spec:
            return "spec:count:" + what
        return "spec:verdict:" + what
    if not r.agree:
        return "diff"
    return ""


LEVEL_TEXT = ("Machine-checked Lean 4 theorems over an executable model of every check (UtestShell::assert*, doubles_equal, the macros "
              "with their casts, the C entry points), for ALL operand values: each check records a failure iff the named predicate on the "
              "operands after the macro's conversions is false (integers: value modulo 2^n at the declared parameter type, = the mathematical "
              "value whenever it is representable; strings: equality / first-n equality / case-folded equality / infix on NUL-free byte "
              "strings; blocks: first-n equality; bits: two's complement bits under the mask), counts exactly one check (a passing "
              "CHECK_COMPARE counts none), NULL equals only NULL, a zero length block always matches, NaN equals nothing, doubles are equal "
              "iff same infinity or |a-b| <= tol for EVERY tolerance (finite, +-inf; IEEE class rules proved, finite arithmetic a parameter). "
              "A test body stops at its first failing check (exception, longjmp or crash-on-fail terminator): a failure is recorded iff a failing "
              "check is reached (body_failure_iff, both directions), exactly one, nothing after it runs or is counted; CHECK_THROWS and CHECK_EQUAL_ZERO likewise. "
              "REGENERATED AND PROVED EQUAL on every run, from clang's typed AST of the current source: doubles_equal itself, all 19 assert bodies "
              "(statement order, countCheck, NULL guards, casts), all 18 C entry points, and the expansion of every check macro of both headers "
              "(plain and _TEXT) at every operand type it is driven with - 8 integer types, all 64 type pairs for CHECK_EQUAL / CHECK_COMPARE "
              "(usual arithmetic conversions as clang inserts them), 64 underlying x operand types for ENUMS_EQUAL_TYPE, 24 operand x mask types "
              "for BITS_EQUAL: ~600 typed expansions, each proved equal to the model function for all bit patterns, so the theorems speak "
              "about what the source says at check time. Additionally the token-level shape tables (`rfl`), a differential harness "
              "that runs every macro in a real fixture under ASan/UBSan, and an independent specification oracle on the implementation's "
              "own (failures, checks) observations.")
LEVEL_NOTE = ("Trusted: Lean kernel; clang's typing of the source and the AST-to-Lean translator (its output is proved equal to the hand model AND "
              "run against the real code); that Text.cmp/ncmp/isInfix/lower are what SimpleString computes (C13 + the C03x composition; observed here); "
              "IEEE finite arithmetic; LP64. Only observed (model diff, not oracle): operand evaluation counts, crash-method calls. "
              "Not carried by theorems: operands with side effects, the failure texts (C14), CHECK_THROWS' try/catch (token shape + harness only), "
              "checks outside a running test.")
TECHNIQUE = ("Lean 4 proofs over an executable model of all check macros + clang-AST translation of doubles_equal / assert bodies / C entry points / "
             "~600 typed macro expansions proved equal to the model + token shape tables + differential fixture harness with independent oracle")
