"""C13 — SimpleString operations: generator and property-specific settings."""
import os, re

ID = "C13"
HARNESS = "h_c13"
KEEP_FIRST = 0
SHRINK_BUDGET = 300

TRUSTED = [
    "Lean 4 kernel; axioms of every theorem audited (propext, Classical.choice, Quot.sound at most); leanchecker in the thorough tier",
    "translate/extract_string_prims.py (clang-14 typed JSON AST -> lean/CppUModel/Gen/StringPrims.lean) and the C semantics it targets "
    "(Model/CPrimSem.lean: char signed, int range-checked, unsigned mod 2^32, size_t mod 2^64, pointers = buffer + offset read through "
    "rd/wr, C++17 evaluation order): the regenerated functions are PROVED equal to the hand models (gen_*_is_model) and are also executed "
    "by the driver on the operands of every primitive / allocation-free method operation (a difference is a `gen-differs` line), so a "
    "translator defect shows up as a broken proof or a disagreement, not as a false theorem",
    "hand-written models lean/CppUModel/Base/CString.lean, Model/SimpleString.lean, Model/SimpleStringOps.lean, tied to "
    "src/CppUTest/SimpleString.cpp by the h_c13 correspondence of this run: result bytes, returned numbers and the exact "
    "sequence of string-allocator events of every operation are diffed against the model",
    "the statements of Spec/Text.lean and Spec/TextExt.lean (the textbook definitions) and of Props/C13.lean",
    "vsnprintf (libc): its results are inputs of the model (recorded by a wrapper around PlatformSpecificVSNprintf); "
    "theorems about printable/StringFromBinary assume it printed \\x%02X / %02X as libc does (HexEnv, BinEnv)",
    "g++'s copy elision / NRVO / operand evaluation order, which fix the order of allocator events the model mirrors",
    "translate/extract_string_consts.py (character-class bounds, ToLower offset, escape table and copy lengths, printable "
    "size increments, 100-byte format buffer, 128-byte display limit, ordinal rule constants, literals): its output is "
    "exercised by the correspondence and the theorems are re-checked over it",
    "ASan/UBSan for 'reads and writes only inside the buffers' of the compiled code; std::string/libc as a second reference",
]
ASSUMPTIONS = [
    "char is signed (x86-64): bytes >= 0x80 count as control characters in printable(); the regenerated code sign-extends char -> int (sx8)",
    "LP64; string lengths and buffer sizes stay below 2^64 (hypothesis Fits / a.length < npos / fuel < 2^64 in the theorems)",
    "fuel: a regenerated loop function gets a fuel argument; the theorems hold for every fuel above the string length / count "
    "(stated per theorem; the driver uses buffer length + 1); running out of fuel is the distinct outcome Err.fuel, never a wrong value",
    "at(pos) with pos > size(), StrNCpy into a too small destination, MemCmp past the operands, copyToBuffer with a size "
    "larger than the buffer, StringFromMaskedBits with byteCount 0 and AtoI of a value that does not fit int are outside "
    "the operations' contracts (stated as hypotheses; the generator respects them)",
    "the string allocator hands out pairwise distinct live buffers (ids)",
    "split with an empty delimiter and replace with an empty pattern: only termination, memory safety and allocator "
    "pairing are demanded by the oracle (DESIGN appendix A); the model and theorems pin what the code does",
]
RULE = ("scripts of 4-30 operations on several live SimpleString objects (results fed back as operands) over the alphabets "
        "{a,b}, bytes>=0x80, control bytes, mixed-case ASCII, empty/one-byte strings, lengths 97..103/128/200; positions in "
        "{0,1,len-1,len,len+1,npos,random}; patterns drawn from the subject; primitives and the formatter family in their "
        "own flavours; SimpleStringCollection action lists (allocate / operator[] in and out of range / size) and operations "
        "whose C-string operand is the object's own asCharString(); a malformed stream (embedded NULs, unknown/reused labels, huge positions); "
        "two deterministic streams on every run: the 256-byte character-class sweep (every byte through AtoU/AtoI/ToLower/lowerCase/"
        "printable/findFrom, 8 cases) and hand-picked boundary inputs of the primitives and of the allocation-free methods "
        "(empty operands, n in {0,1,len,len+1,npos}, bytes 0x7f/0x80/0xff, INT_MAX, 2^32 wrap); non-trivial = at least one "
        "allocating operation and one branch event of the histogram (the two deterministic streams: one branch event); "
        "distinct = distinct op sequences")

LEVEL_TEXT = ("Machine-checked Lean 4 theorems (104, no sorry/axiom) for ALL NUL-free byte strings, buffers, offsets, positions and counts. "
              "(1) REGENERATED CODE: the fourteen C-like primitives (isDigit, isSpace, isUpper, isControl, isControlWithShortEscapeSequence, "
              "ToLower, StrLen, StrCmp, StrNCmp, StrNCpy incl. its NULL/n=0 guard and returned pointer, StrStr, MemCmp, AtoU, AtoI incl. signed "
              "overflow) and eight allocation-free methods (size, isEmpty, at, contains, startsWith, endsWith, find, findFrom) are translated "
              "on every run from clang's typed AST of SimpleString.cpp into Lean loop functions (Gen/StringPrims.lean); 30 obligations prove "
              "that each regenerated function equals the hand-written bounded-buffer model on every input (gen_*_is_model) and, for C strings "
              "and any fuel above the string length (< 2^64), returns the textbook value with no out-of-bounds read, no exhausted fuel and no "
              "signed overflow (gen_*_eq) - so an edit of these functions that changes a result breaks a proof. "
              "(2) HAND MODEL: every other string method "
              "(constructors, =, +, +=, ==, equalsNoCase, containsNoCase, count, "
              "subString forms, subStringFromTill, split, replace(char) incl. a NUL replacement, replace(string), lowerCase, "
              "printable, padStringsToSameLength, copyToBuffer) and SimpleStringCollection (allocate, operator[] in and out "
              "of range, size) returns the value of its textbook list definition (Spec/Text.lean, Spec/TextExt.lean), never "
              "leaves a buffer (no Err.oob) and terminates; formatter texts given the libc renderings as inputs "
              "(100-byte fast/slow path with exact buffer sizes, HexStringFrom(signed char) two-digit cut, "
              "BracketsFormattedHexString, pointer forms, StringFrom(bool), StringFromBinary hex pairs, "
              "StringFromBinaryWithSize 128-byte cut + ' ...', StringFromMaskedBits, ordinal suffix rule); allocator pairing "
              "as an invariant over operation sequences of any length and of ANY operations, formatted construction "
              "included, whatever vsnprintf answers (step_keeps_pairing_full: every buffer released exactly once with the "
              "size it was requested with; after destroying all objects nothing is outstanding). Not proved: memory safety "
              "of the COMPILED code (observed under ASan/UBSan); what printf prints. The models are tied to the code on every "
              "run by a differential harness (real SimpleString objects and collections, recording allocator and vsnprintf, "
              "std::string/libc cross-check) whose observations are also judged by an independent specification oracle, "
              "by the regenerated functions executed next to the hand model, and by constants regenerated from the source.")
LEVEL_NOTE = ("Trusted: Lean kernel; the AST translator and its C semantics (cross-checked: its output is proved equal to the hand "
              "model and executed against the implementation's results); the hand-written model of the allocating methods (validated "
              "against the code by this run's correspondence, event by event); vsnprintf/libc (its results are inputs; text theorems "
              "assume the libc renderings HexEnv/BinEnv/"
              "header); the compiler's temporary/elision order; the constants extractor; theorem and Spec statements. The "
              "model is value-based: a use of an asCharString() pointer after the object changed is not representable "
              "(the harness exercises the own-buffer operand cases under ASan). A semantically neutral rewrite of a regenerated "
              "function that changes its loop structure breaks the shape-dependent equality proof and is reported as "
              "`no-failing-input-found` (renamings and reorderings of independent statements are not). Not carried by theorems: "
              "memory safety of the compiled code; decimal/hex digits printed by printf (judged by the oracle and std::string/libc on "
              "generated inputs only); count/split/replace/printable/lowerCase/subString are hand-modelled, not regenerated.")
TECHNIQUE = ("Lean 4 refinement proofs (regenerated C loops = bounded-buffer model = textbook list functions; allocator-pairing invariant) "
             "+ clang-AST-to-Lean translator for the primitives and allocation-free methods + differential correspondence harness + regenerated constants")


def hx(b):
    return b.hex() if b else "-"


AB = b"ab"
UPLOW = b"abcXYZxyzABC"
MIXED = b"abcABCxyzXYZ019 _-./"
HIGH = bytes(range(0x80, 0x100))
CTRL = bytes(list(range(1, 32)) + [127])


def rstr(rng, maxlen=8, alpha=None):
    if alpha is None:
        x = rng.random()
        alpha = AB if x < 0.45 else UPLOW if x < 0.6 else MIXED if x < 0.75 else HIGH if x < 0.85 else CTRL if x < 0.95 else bytes(range(1, 256))
    n = rng.choice([0, 1, 1, 2, 2, 3, 3, 4, 5, 6, 7, 8])
    n = min(n, maxlen)
    return bytes(rng.choice(alpha) for _ in range(n))


def longstr(rng):
    n = rng.choice([97, 98, 99, 100, 101, 102, 103, 128, 200])
    alpha = rng.choice([AB, MIXED, HIGH])
    return bytes(rng.choice(alpha) for _ in range(n))


def gen_value(rng):
    x = rng.random()
    if x < 0.07:
        return b""
    if x < 0.12:
        return longstr(rng)
    return rstr(rng)


def pos_around(rng, n):
    c = [0, 1, n - 1, n, n + 1, "npos", rng.randint(0, n + 2), 2, n // 2]
    p = rng.choice(c)
    if p == "npos":
        return "npos"
    return str(max(0, p))


def pattern_for(rng, subj):
    """pattern that is likely to occur in `subj`"""
    x = rng.random()
    if x < 0.5 and subj:
        i = rng.randrange(len(subj))
        j = min(len(subj), i + rng.choice([1, 1, 2, 2, 3]))
        return subj[i:j]
    if x < 0.6:
        return b""
    if x < 0.7:
        return subj
    if x < 0.78:
        return subj + rstr(rng, 2)
    if x < 0.86 and subj:
        return subj[-rng.choice([1, 2, 3]):]
    if x < 0.93 and subj:
        return subj[:rng.choice([1, 2, 3])]
    return rstr(rng, 3)


def byte_for(rng, subj):
    x = rng.random()
    if x < 0.6 and subj:
        return rng.choice(subj)
    if x < 0.65:
        return 0
    return rng.choice(AB + b"zA\x80\x01")


# ---- python-side reference (only used to keep the generator's idea of the operands realistic)

def cut(b):
    i = b.find(b"\0")
    return b if i < 0 else b[:i]


def p_lower(b):
    return bytes(c + 32 if 65 <= c <= 90 else c for c in b)


def p_replace(s, to, w):
    if not to:
        return s
    return s.replace(to, w)


def p_printable(b):
    out = b""
    short = {7: b"\\a", 8: b"\\b", 9: b"\\t", 10: b"\\n", 11: b"\\v", 12: b"\\f", 13: b"\\r"}
    for c in b:
        if c in short:
            out += short[c]
        elif c < 32 or c == 127 or c >= 128:
            out += b"\\x%02X" % c
        else:
            out += bytes([c])
    return out


INTS = [0, 1, -1, 7, 10, 99, 100, 255, 256, -128, 127, 32767, -32768, 65535, 2147483647, -2147483648, 123456789, -987654321]
U32 = [0, 1, 9, 10, 255, 4096, 65535, 2147483647, 2147483648, 4294967295, 305419896]
I64 = INTS + [9223372036854775807, -9223372036854775808, 4294967296, -4294967297]
U64 = U32 + [4294967296, 9223372036854775807, 9223372036854775808, 18446744073709551615, 0x0123456789abcdef]
DOUBLES = [0x3ff0000000000000, 0x0, 0x8000000000000000, 0x7ff0000000000000, 0xfff0000000000000, 0x7ff8000000000000,
           0x7ff0000000000001, 0xfff8000000000001, 0x400921fb54442d18, 0x3fb999999999999a, 0x7fefffffffffffff,
           0x0000000000000001, 0xc05edd3c07ee0b0b, 0x4197d78400000000]
ORDINALS = [0, 1, 2, 3, 4, 10, 11, 12, 13, 14, 20, 21, 22, 23, 24, 100, 101, 102, 103, 110, 111, 112, 113, 114, 121, 122, 123,
            211, 212, 213, 1011, 1012, 1013, 1021, 4294967295, 4294967211, 4294967213]


class Gen:
    def __init__(self, rng, malformed=False):
        self.rng = rng
        self.ops = []
        self.vals = {}       # label -> bytes (generator's belief)
        self.k = 0
        self.malformed = malformed

    def fresh(self):
        self.k += 1
        return "s%d" % self.k

    def pick(self):
        return self.rng.choice(sorted(self.vals))

    def sval(self):
        v = gen_value(self.rng)
        if self.malformed and self.rng.random() < 0.3 and v:
            i = self.rng.randrange(len(v) + 1)
            v = v[:i] + b"\0" + v[i:]
        return v

    def create(self):
        rng = self.rng
        l = self.fresh()
        x = rng.random()
        if x < 0.7 or not self.vals:
            v = self.sval()
            self.ops.append("new %s %s" % (l, hx(v)))
            self.vals[l] = cut(v)
        elif x < 0.75:
            self.ops.append("newnull %s" % l)
            self.vals[l] = b""
        elif x < 0.87:
            v = rstr(rng, 4)
            k = rng.choice([0, 1, 2, 3, 5, 20])
            self.ops.append("rep %s %s %d" % (l, hx(v), k))
            self.vals[l] = cut(v) * k
        else:
            a = self.pick()
            self.ops.append("copy %s %s" % (l, a))
            self.vals[l] = self.vals[a]

    def string_op(self):
        rng = self.rng
        V = self.vals
        if not V:
            return self.create()
        a = self.pick()
        va = V[a]
        x = rng.choice(["assign", "plus", "pluseq", "pluseqc", "eq", "ne", "eqnc", "contains", "containsnc", "starts",
                        "ends", "count", "count", "find", "findfrom", "at", "size", "isempty", "cstr", "substr", "substr",
                        "substr1", "fromtill", "lower", "printable", "split", "split", "replc", "repl", "repl", "repl",
                        "pad", "copybuf", "copybufnull", "del", "create", "create", "selfops", "coll", "alias"])
        if len(va) > 150 and x in ("plus", "pluseq", "pluseqc", "selfops", "alias", "pad", "repl"):
            x = "size"          # keep strings short: the list-based model is quadratic in the length
        if x == "create":
            return self.create()
        if x == "coll":         # SimpleStringCollection: allocate / operator[] in and out of range / size
            acts, size = [], 0
            for _ in range(rng.choice([2, 4, 7, 10])):
                y = rng.random()
                idx = rng.choice([0, 1, max(0, size - 1), size, size + 1, rng.randint(0, size + 3)])
                if y < 0.3:
                    size = rng.choice([0, 1, 2, 3, 5])
                    acts.append("alloc:%d" % size)
                elif y < 0.6:
                    acts.append("set:%d:%s" % (idx, self.pick()))
                    if rng.random() < 0.7:
                        acts.append("get:%d" % idx)
                elif y < 0.9:
                    acts.append("get:%d" % idx)
                else:
                    acts.append("size")
            self.ops.append("coll " + " ".join(acts))
            return
        if x == "alias":        # operands that are the object's own asCharString()
            y = rng.choice(["selfassignc", "selfrepl", "selfreplw"])
            if y == "selfassignc":
                self.ops.append("selfassignc %s" % a)
            elif y == "selfrepl":
                v = rstr(rng, 3)
                self.ops.append("selfrepl %s %s" % (a, hx(v)))
                if va:
                    V[a] = cut(v)
            else:
                to = pattern_for(rng, va)
                if len(va) > 12:
                    to = va            # at most one occurrence: the result stays as long as the string
                self.ops.append("selfreplw %s %s" % (a, hx(to)))
                V[a] = p_replace(va, cut(to), va)
            return
        if x == "selfops":      # the same object on both sides
            y = rng.choice(["assign", "pluseq", "eq", "contains", "count", "pad", "plus", "split", "starts", "ends", "eqnc"])
            if y == "assign":
                self.ops.append("assign %s %s" % (a, a))
            elif y == "pluseq":
                self.ops.append("pluseq %s %s" % (a, a)); V[a] = va + va
            elif y == "pad":
                self.ops.append("pad %s %s %02x" % (a, a, rng.choice(b" .x")))
            elif y == "plus":
                l = self.fresh(); self.ops.append("plus %s %s %s" % (l, a, a)); V[l] = va + va
            else:
                self.ops.append("%s %s %s" % (y, a, a))
            return
        if x in ("eq", "ne", "eqnc", "contains", "containsnc", "starts", "ends", "count", "split"):
            # second operand: an existing object or a fresh pattern object
            if rng.random() < 0.35:
                b = self.pick()
            else:
                b = self.fresh()
                if x in ("eq", "ne", "eqnc"):
                    y = rng.random()
                    pv = va if y < 0.3 else va.swapcase() if y < 0.6 else va[:-1] if y < 0.7 else va + b"a" if y < 0.8 else rstr(rng)
                elif x in ("containsnc",):
                    pv = pattern_for(rng, va).swapcase()
                else:
                    pv = pattern_for(rng, va)
                pv = cut(pv)
                self.ops.append("new %s %s" % (b, hx(pv)))
                V[b] = pv
            self.ops.append("%s %s %s" % (x, a, b))
            return
        if x == "assign":
            b = self.pick(); self.ops.append("assign %s %s" % (a, b)); V[a] = V[b]
        elif x == "plus":
            b = self.pick(); l = self.fresh(); self.ops.append("plus %s %s %s" % (l, a, b)); V[l] = va + V[b]
        elif x == "pluseq":
            b = self.pick(); self.ops.append("pluseq %s %s" % (a, b)); V[a] = va + V[b]
        elif x == "pluseqc":
            v = self.sval(); self.ops.append("pluseqc %s %s" % (a, hx(v))); V[a] = va + cut(v)
        elif x == "find":
            self.ops.append("find %s %02x" % (a, byte_for(rng, va)))
        elif x == "findfrom":
            self.ops.append("findfrom %s %s %02x" % (a, pos_around(rng, len(va)), byte_for(rng, va)))
        elif x == "at":
            p = rng.randint(0, len(va)) if not self.malformed else rng.randint(0, len(va) + 3)
            self.ops.append("at %s %d" % (a, p))
        elif x in ("size", "isempty", "cstr"):
            self.ops.append("%s %s" % (x, a))
        elif x == "substr":
            l = self.fresh()
            p = pos_around(rng, len(va)); n = pos_around(rng, len(va))
            self.ops.append("substr %s %s %s %s" % (l, a, p, n))
            pi = 2 ** 64 - 1 if p == "npos" else int(p); ni = 2 ** 64 - 1 if n == "npos" else int(n)
            V[l] = b"" if pi >= len(va) else va[pi:pi + ni]
        elif x == "substr1":
            l = self.fresh(); p = pos_around(rng, len(va))
            self.ops.append("substr1 %s %s %s" % (l, a, p))
            pi = 2 ** 64 - 1 if p == "npos" else int(p)
            V[l] = va[pi:] if pi < len(va) else b""
        elif x == "fromtill":
            l = self.fresh(); c1 = byte_for(rng, va); c2 = byte_for(rng, va)
            self.ops.append("fromtill %s %s %02x %02x" % (l, a, c1, c2))
            i = va.find(bytes([c1])) if c1 else -1
            if i < 0:
                V[l] = b""
            else:
                j = va.find(bytes([c2]), i) if c2 else -1
                V[l] = va[i:] if j < 0 else va[i:j]
        elif x == "lower":
            l = self.fresh(); self.ops.append("lower %s %s" % (l, a)); V[l] = p_lower(va)
        elif x == "printable":
            l = self.fresh(); self.ops.append("printable %s %s" % (l, a)); V[l] = p_printable(va)
        elif x == "replc":
            c1 = byte_for(rng, va); c2 = byte_for(rng, b"xyAB\x80")
            if c2 == 0 and not self.malformed:
                c2 = 0x78
            self.ops.append("replc %s %02x %02x" % (a, c1, c2))
            V[a] = cut(va.replace(bytes([c1]), bytes([c2]))) if c1 else va
        elif x == "repl":
            to = pattern_for(rng, va)
            y = rng.random()
            w = b"" if y < 0.2 else to + to if y < 0.35 else to[:1] if y < 0.5 else rstr(rng, 4)
            if self.malformed and rng.random() < 0.3:
                to = to + b"\0" + b"x"
            self.ops.append("repl %s %s %s" % (a, hx(to), hx(w)))
            V[a] = p_replace(va, cut(to), cut(w))
        elif x == "pad":
            b = self.pick(); c = rng.choice(b" .0x\x80") if rng.random() < 0.95 else 0
            self.ops.append("pad %s %s %02x" % (a, b, c))
            if a != b and c:
                vb = V[b]
                if len(va) > len(vb):
                    V[b] = bytes([c]) * (len(va) - len(vb)) + vb
                else:
                    V[a] = bytes([c]) * (len(vb) - len(va)) + va
        elif x == "copybuf":
            n = rng.choice([0, 1, 2, len(va), len(va) + 1, len(va) + 2, max(0, len(va) - 1), rng.randint(0, len(va) + 5)])
            self.ops.append("copybuf %s %d" % (a, n))
        elif x == "copybufnull":
            self.ops.append("copybufnull %s %d" % (a, rng.choice([0, 1, 5])))
        elif x == "del":
            if len(V) > 2:
                self.ops.append("del %s" % a); del V[a]
            else:
                self.create()

    def prim_op(self):
        rng = self.rng
        x = rng.choice(["strlen", "strcmp", "strcmp", "strncmp", "strncmp", "strncpy", "strncpy", "strstr", "strstr",
                        "memcmp", "atoi", "atoi", "atou", "tolower"])
        if x == "strlen":
            self.ops.append("strlen %s" % hx(self.sval()))
        elif x in ("strcmp", "strncmp"):
            a = self.sval(); y = rng.random()
            b = a if y < 0.25 else a[:-1] if y < 0.4 else a + rstr(rng, 2) if y < 0.55 else (a[:len(a) // 2] + rstr(rng, 2)) if y < 0.8 else self.sval()
            if x == "strcmp":
                self.ops.append("strcmp %s %s" % (hx(a), hx(b)))
            else:
                self.ops.append("strncmp %s %s %s" % (hx(a), hx(b), pos_around(rng, len(a))))
        elif x == "strncpy":
            s = cut(self.sval())
            if rng.random() < 0.1:
                self.ops.append("strncpy null %s %d" % (hx(s), rng.choice([0, 1, 5])))
            else:
                n = rng.choice([0, 1, len(s), len(s) + 1, len(s) + 2, len(s) + 5, max(0, len(s) - 1)])
                need = min(n, len(s) + 1)
                d = bytes(rng.choice(b"\xee\x00zq") for _ in range(need + rng.choice([0, 0, 1, 3])))
                ns = "npos" if (n > len(s) + 1 and rng.random() < 0.2) else str(n)
                self.ops.append("strncpy %s %s %s" % (hx(d), hx(s), ns))
        elif x == "strstr":
            a = self.sval(); self.ops.append("strstr %s %s" % (hx(a), hx(pattern_for(rng, cut(a)))))
        elif x == "memcmp":
            n = rng.randint(0, 6)
            a = bytes(rng.choice(b"\0ab\xff") for _ in range(n + rng.choice([0, 1])))
            b = bytearray(a[:n] + bytes(rng.choice(b"\0ab") for _ in range(rng.choice([0, 2]))))
            if n and rng.random() < 0.6:
                b[rng.randrange(n)] = rng.choice(b"\0ab\xff\x80")
            self.ops.append("memcmp %s %s %d" % (hx(a), hx(bytes(b)), n))
        elif x == "atoi":
            blanks = bytes(rng.choice(b" \t\n\v\f\r\x08\x0e") for _ in range(rng.choice([0, 0, 1, 3])))
            sign = rng.choice([b"", b"", b"-", b"+", b"--", b"+-"])
            v = rng.choice([0, 7, 42, 123, 2147483647, 2147483646, 1000000000, 99999]) if rng.random() < 0.7 else rng.randint(0, 2147483647)
            digits = (b"0" * rng.choice([0, 0, 2])) + str(v).encode()
            if rng.random() < 0.1:
                digits = b""
            tail = rng.choice([b"", b"", b"x", b" 1", b".5", b"\x80", b"\x08" b"9"])
            self.ops.append("atoi %s" % hx(blanks + sign + digits + tail))
        elif x == "atou":
            blanks = bytes(rng.choice(b" \t\n\v\f\r\x08\x0e") for _ in range(rng.choice([0, 0, 1, 2])))
            sign = rng.choice([b"", b"", b"", b"-", b"+"])
            v = rng.choice([0, 1, 4294967295, 4294967296, 4294967297, 42949672960, 99999999999999, 123]) if rng.random() < 0.7 else rng.randint(0, 10 ** 13)
            tail = rng.choice([b"", b"x", b" ", b"/", b":"])
            self.ops.append("atou %s" % hx(blanks + sign + str(v).encode() + tail))
        else:
            self.ops.append("tolower %02x" % rng.choice([0x40, 0x41, 0x5a, 0x5b, 0x61, 0x7a, 0xc1, 0xda, 0x00, 0x20, rng.randrange(256)]))

    def fmt_op(self):
        rng = self.rng
        V = self.vals
        l = self.fresh()
        x = rng.choice(["fmts", "fmts", "vfmts", "fmt2", "sfint", "sflong", "sfll", "sfuint", "sfulong", "sfull", "sfbool", "sfchar",
                        "sfcstr", "sfornull", "psfornull", "psfornull", "sfss", "sfstd", "sfnullptr", "sfptr", "sffptr", "sfdouble",
                        "hexint", "hexuint", "hexlong", "hexulong", "hexll", "hexull", "hexsc", "hexsc", "hexptr", "hexfptr",
                        "brint", "bruint", "brlong", "brulong", "brll", "brull", "brsc", "brstr",
                        "ordinal", "ordinal", "ordinal", "binary", "binary", "binaryornull", "binarynull", "binarysize", "binarysize",
                        "binarysizeornull", "binarysizenull", "masked", "masked", "masked"])
        if x in ("fmts", "vfmts"):
            v = longstr(rng) if rng.random() < 0.6 else self.sval()
            self.ops.append("%s %s %s" % (x, l, hx(v))); V[l] = cut(v)
        elif x == "fmt2":
            n = rng.choice([90, 91, 92, 93, 94, 95, 96, 97, 98, 3])
            v = bytes(rng.choice(AB) for _ in range(n)); i = rng.choice(INTS)
            self.ops.append("fmt2 %s %s %d" % (l, hx(v), i)); V[l] = b"<" + v + b"|" + str(i).encode() + b">"
        elif x in ("sfint", "hexint", "brint"):
            i = rng.choice(INTS) if rng.random() < 0.7 else rng.randint(-2 ** 31, 2 ** 31 - 1)
            self.ops.append("%s %s %d" % (x, l, i)); V[l] = str(i).encode()
        elif x in ("sflong", "sfll", "hexlong", "hexll", "brlong", "brll"):
            i = rng.choice(I64) if rng.random() < 0.7 else rng.randint(-2 ** 63, 2 ** 63 - 1)
            self.ops.append("%s %s %d" % (x, l, i)); V[l] = str(i).encode()
        elif x in ("sfuint", "hexuint", "bruint"):
            i = rng.choice(U32) if rng.random() < 0.7 else rng.randint(0, 2 ** 32 - 1)
            self.ops.append("%s %s %d" % (x, l, i)); V[l] = str(i).encode()
        elif x in ("sfulong", "sfull", "hexulong", "hexull", "brulong", "brull", "sfptr", "sffptr", "hexptr", "hexfptr"):
            i = rng.choice(U64) if rng.random() < 0.7 else rng.randint(0, 2 ** 64 - 1)
            self.ops.append("%s %s %d" % (x, l, i)); V[l] = str(i).encode()
        elif x == "sfbool":
            b = rng.choice([0, 1]); self.ops.append("sfbool %s %d" % (l, b)); V[l] = b"true" if b else b"false"
        elif x == "sfchar":
            c = rng.choice([0x41, 0x20, 0x7f, 0x80, 0xff, 0x0a, 0x00, rng.randrange(256)])
            self.ops.append("sfchar %s %02x" % (l, c)); V[l] = bytes([c]) if c else b""
        elif x in ("sfcstr", "sfstd"):
            v = self.sval(); self.ops.append("%s %s %s" % (x, l, hx(v))); V[l] = cut(v)
        elif x in ("sfornull", "psfornull"):
            if rng.random() < 0.25:
                self.ops.append("%s %s null" % (x, l)); V[l] = b"(null)"
            else:
                v = self.sval() if x == "sfornull" else rstr(rng, 8, rng.choice([CTRL, HIGH, bytes(range(1, 256)), MIXED]))
                self.ops.append("%s %s %s" % (x, l, hx(v))); V[l] = cut(v) if x == "sfornull" else p_printable(cut(v))
        elif x in ("sfss", "brstr"):
            if not V:
                self.k -= 1
                return self.create()
            a = self.pick(); self.ops.append("%s %s %s" % (x, l, a)); V[l] = V[a] if x == "sfss" else b"(0x" + V[a] + b")"
        elif x == "sfnullptr":
            self.ops.append("sfnullptr %s" % l); V[l] = b"(null)"
        elif x == "sfdouble":
            self.ops.append("sfdouble %s %d %d" % (l, rng.choice(DOUBLES), rng.choice([6, 6, 2, 17, 0, 1]))); V[l] = b"1"
        elif x in ("hexsc", "brsc"):
            i = rng.choice([-128, -127, -1, -2, -16, -17, 0, 1, 15, 16, 127, rng.randint(-128, 127)])
            self.ops.append("%s %s %d" % (x, l, i)); V[l] = b"ff"
        elif x == "ordinal":
            n = rng.choice(ORDINALS) if rng.random() < 0.8 else rng.randint(0, 2 ** 32 - 1)
            self.ops.append("ordinal %s %d" % (l, n)); V[l] = str(n).encode() + b"th"
        elif x in ("binary", "binaryornull", "binarysize", "binarysizeornull"):
            n = rng.choice([0, 1, 2, 3, 5, 16, 33]) if (x in ("binary", "binaryornull") or rng.random() < 0.7) else rng.choice([127, 128, 129, 200])
            v = bytes(rng.choice([0, 0x0f, 0x10, 0xa0, 0xff, rng.randrange(256)]) for _ in range(n))
            self.ops.append("%s %s %s" % (x, l, hx(v))); V[l] = b" ".join(b"%02X" % c for c in v)
        elif x in ("binarynull", "binarysizenull"):
            self.ops.append("%s %s %d" % (x, l, rng.choice([0, 1, 200]))); V[l] = b"(null)"
        elif x == "masked":
            k = rng.choice([1, 1, 2, 2, 3, 4, 7, 8, 9, 16]) if not self.malformed else rng.choice([0, 1, 2, 8, 9])
            v = rng.choice([0, 0xff, 0xaa55, 2 ** 64 - 1, 0x8000000000000000, rng.getrandbits(64), rng.getrandbits(16)])
            m = rng.choice([0, 0xff, 0xf0f0, 2 ** 64 - 1, 0x8000000000000001, rng.getrandbits(64), rng.getrandbits(16)])
            self.ops.append("masked %s %d %d %d" % (l, v, m, k)); V[l] = b"x"

    def malformed_op(self):
        rng = self.rng
        x = rng.random()
        if x < 0.3:
            self.ops.append("%s nosuch%d %s" % (rng.choice(["eq", "contains", "count", "pluseq", "assign", "split"]), rng.randrange(3), "s1"))
        elif x < 0.5 and self.vals:
            a = self.pick()     # label reused: the harness skips
            self.ops.append("new %s %s" % (a, hx(rstr(rng))))
        elif x < 0.6:
            self.ops.append("bogus op")
        elif x < 0.8 and self.vals:
            a = self.pick()
            self.ops.append("findfrom %s %d %02x" % (a, rng.choice([2 ** 63, 2 ** 64 - 2, 10 ** 6]), rng.choice(AB)))
        elif self.vals:
            a = self.pick(); l = self.fresh()
            self.ops.append("substr %s %s %d %d" % (l, a, rng.choice([2 ** 63, 2 ** 64 - 2, 3]), rng.choice([2 ** 64 - 2, 2 ** 63])))
            self.vals[l] = b""


def gen_case(rng, n, flavour, malformed=False):
    g = Gen(rng, malformed)
    if rng.random() < 0.5:
        g.ops.append("junk %02x" % rng.choice([0x00, 0xff, 0x41, 0x5c, 0x80, 0x01]))
    for _ in range(rng.choice([1, 2, 3])):
        g.create()
    for _ in range(n):
        x = rng.random()
        if malformed and x < 0.15:
            g.malformed_op()
        elif flavour == "strings":
            g.string_op() if x < 0.9 else g.prim_op()
        elif flavour == "prims":
            g.prim_op()
        elif flavour == "fmt":
            g.fmt_op() if x < 0.75 else g.string_op()
        else:
            (g.string_op if x < 0.6 else g.prim_op if x < 0.75 else g.fmt_op)()
    if rng.random() < 0.9:
        g.ops.append("delall")
    return g.ops


def class_sweep():
    """every byte value through the public entry points that depend on the five character classes and ToLower:
    isSpace/isDigit via AtoU/AtoI ("<c>37"), isUpper via ToLower and lowerCase, isControl/isControlWithShortEscapeSequence
    via printable(); 8 deterministic cases of 32 bytes"""
    out = []
    for base in range(0, 256, 32):
        ops = []
        for c in range(base, base + 32):
            ops.append("tolower %02x" % c)
            if c:
                ops.append("atou %02x3337" % c)
                ops.append("atoi %02x3337" % c)
                ops.append("atoi 20%02x39" % c)
                ops.append("new c%d 41%02x5a" % (c, c))
                ops.append("printable p%d c%d" % (c, c))
                ops.append("lower l%d c%d" % (c, c))
                ops.append("findfrom c%d 1 %02x" % (c, c))
        ops.append("delall")
        out.append(("classes", ops))
    return out


def prim_bounds():
    """hand-picked boundary inputs of the primitives and of the regenerated allocation-free methods"""
    ops = [
        "strlen -", "strlen 00", "strlen 61", "strlen " + "62" * 200, "strlen 610062",
        "strcmp - -", "strcmp 61 -", "strcmp - 61", "strcmp 61 61", "strcmp 6162 61", "strcmp 61 6162", "strcmp ff 01", "strcmp 01 ff",
        "strcmp 7f 80", "strcmp 80 7f", "strcmp 6180 617f",
        "strncmp 6162 6163 0", "strncmp 6162 6163 1", "strncmp 6162 6163 2", "strncmp 6162 6163 3", "strncmp 6162 6163 npos",
        "strncmp 6162 6162 npos", "strncmp - - 0", "strncmp - - npos", "strncmp 61 - 1", "strncmp - 61 1", "strncmp ff 7f 1", "strncmp 61ff 617f 2",
        "strncpy null 6162 0", "strncpy null 6162 3", "strncpy eeee 6162 0", "strncpy ee 6162 1", "strncpy eeee 6162 2", "strncpy eeeeee 6162 3",
        "strncpy eeeeeeee 6162 4", "strncpy eeeeeeee 6162 npos", "strncpy ee - 1", "strncpy ee - 5", "strncpy 00 61 1", "strncpy 0000 61 2",
        "strstr - -", "strstr 61 -", "strstr - 61", "strstr 6162 6162", "strstr 6162 616263", "strstr 616162 6162", "strstr 61616161 6161",
        "strstr 6162 62", "strstr 6162 63", "strstr 80ff ff", "strstr 616261 6261",
        "memcmp - - 0", "memcmp 61 62 0", "memcmp 61 62 1", "memcmp 00 00 1", "memcmp 0061 0062 2", "memcmp ff 00 1", "memcmp 00 ff 1", "memcmp 80 7f 1",
        "atoi -", "atoi 2d", "atoi 2b", "atoi 2d2d31", "atoi 2b2d31", "atoi 2b31", "atoi 2d30", "atoi 32313437343833363437", "atoi 2d32313437343833363437",
        "atoi 3030303030303030303030303132", "atoi 0d0a090b0c2031", "atoi 0831", "atoi 0e31", "atoi 312033", "atoi 31e9", "atoi 2f", "atoi 3a",
        "atou -", "atou 2d31", "atou 2b31", "atou 34323934393637323935", "atou 34323934393637323936", "atou 34323934393637323937",
        "atou 39393939393939393939393939393939393939", "atou 0d0a090b0c2031", "atou 2f31", "atou 3a31", "atou 3030303037",
        "tolower 40", "tolower 41", "tolower 5a", "tolower 5b", "tolower 60", "tolower 61", "tolower c1", "tolower da", "tolower 00", "tolower ff",
    ]
    meth = [
        "new e -", "new a 616263", "new b 6263", "new c 63", "new d 61626364", "new f 616263", "new h 80ff80",
        "size e", "size a", "isempty e", "isempty a", "at a 0", "at a 2", "at a 3", "at e 0",
        "contains e e", "contains a e", "contains e a", "contains a b", "contains a d", "contains a f", "contains b a", "contains h h",
        "starts e e", "starts a e", "starts e a", "starts a b", "starts a f", "starts a d", "starts d a", "starts a c",
        "ends e e", "ends a e", "ends e a", "ends a b", "ends a c", "ends a f", "ends a d", "ends b a", "ends d b",
        "find a 61", "find a 63", "find a 7a", "find e 61", "find a 00", "findfrom a 0 63", "findfrom a 2 63", "findfrom a 3 63", "findfrom a 4 63",
        "findfrom a npos 61", "findfrom a 1 61", "findfrom h 1 80", "findfrom e 0 00", "findfrom a 3 00",
        "delall",
    ]
    return [("primbounds", ops), ("primbounds", meth)]


def generate(rng, tier):
    n = 1100 if tier == "quick" else 14000
    out = class_sweep() + prim_bounds()
    for i in range(n):
        flavour = rng.choice(["strings", "strings", "strings", "mixed", "mixed", "prims", "fmt"])
        ln = rng.choice([4, 8, 12, 20, 30]) if tier == "quick" else rng.choice([6, 12, 25, 40, 80])
        if flavour == "fmt":
            ln = min(ln, 12)
        out.append((flavour, gen_case(rng, ln, flavour)))
    for i in range(n // 10):
        out.append(("malformed", gen_case(rng, rng.choice([5, 12, 25]), "mixed", malformed=True)))
    return out


def translate(ctx):
    from translate import extract_string_consts, extract_string_prims
    problems = []
    for m in (extract_string_consts, extract_string_prims):
        try:
            problems += m.run() or []
        except Exception as e:      # each translator reports on its own; the other one still regenerates its file
            problems.append("%s cannot translate the current source: %s" % (m.__name__.split(".")[-1], e))
    return problems


ALLOC = re.compile(r"^alloc ")


def _branches(r):
    """branch events of one case, from the implementation's trace"""
    ev = []
    cur = None
    for l in r.impl:
        if l.startswith("> "):
            cur = l[2:].split()
            continue
        if not cur:
            continue
        w = l.split()
        op = cur[0]
        if op == "printable" and w[0] == "vsn":
            ev.append("printable.hex_escape")
        elif w[0] == "vsn" and w[1] == "100":
            ev.append("fmt.slow_path_ge_100" if int(w[2]) >= 100 else "fmt.fast_path_99" if int(w[2]) == 99 else "fmt.fast_path")
        elif op == "repl" and w[0] == "alloc":
            ev.append("repl.rebuilt")
        elif op == "split" and w[0] == "ntok":
            ev.append("split.tokens_%s" % ("0" if w[1] == "0" else "1" if w[1] == "1" else "many"))
        elif op == "count" and w[0] == "ret":
            ev.append("count.%s" % ("0" if w[1] == "0" else "1" if w[1] == "1" else "many"))
        elif op in ("contains", "containsnc", "starts", "ends", "eq", "eqnc") and w[0] == "ret":
            ev.append("%s.%s" % (op, w[1]))
        elif op in ("find", "findfrom") and w[0] == "ret":
            ev.append("find.%s" % ("npos" if w[1] == "npos" else "hit"))
        elif op == "substr" and w[0] == "val":
            ev.append("substr.%s" % ("empty" if w[1] == "-" else "nonempty"))
        elif op == "coll" and w[0] == "cval":
            ev.append("coll.get_%s" % ("empty" if w[1] == "-" else "value"))
        elif op == "strstr" and w[0] == "ret":
            ev.append("strstr.%s" % ("null" if w[1] == "null" else "hit"))
        elif op in ("strcmp", "strncmp", "memcmp") and w[0] == "ret":
            ev.append("%s.%s" % (op, "zero" if w[1] == "0" else "negative" if w[1].startswith("-") else "positive"))
            if op == "strncmp":
                ev.append("strncmp.n_%s" % ("0" if cur[3] == "0" else "npos" if cur[3] == "npos" else "other"))
        elif op == "strncpy":
            if w[0] == "ret":
                ev.append("strncpy.null_destination")
            elif w[0] == "buf":
                srclen = 0 if cur[2] == "-" else len(cur[2]) // 2
                k = 2 ** 64 - 1 if cur[3] == "npos" else int(cur[3])
                ev.append("strncpy.%s" % ("n_0" if k == 0 else "truncated_no_terminator" if k <= srclen else "exact_with_terminator"
                                          if k == srclen + 1 else "n_larger_than_source"))
        elif op == "atoi" and w[0] == "ret":
            ev.append("atoi.%s" % ("zero" if w[1] == "0" else "negative" if w[1].startswith("-") else "int_max" if w[1] == "2147483647" else "positive"))
        elif op == "atou" and w[0] == "ret":
            digits = bytes.fromhex(cur[1]) if cur[1] != "-" else b""
            ev.append("atou.%s" % ("zero" if w[1] == "0" else "wrapped_mod_2^32" if w[1] not in digits.decode("latin1") else "plain"))
        elif op == "tolower" and w[0] == "ret":
            ev.append("tolower.%s" % ("changed" if w[1] != cur[1] else "unchanged"))
        elif op == "strlen" and w[0] == "ret":
            ev.append("strlen.%s" % ("0" if w[1] == "0" else "long" if int(w[1]) >= 97 else "short"))
        elif op == "at" and w[0] == "ret":
            ev.append("at.%s" % ("terminator" if w[1] == "00" else "byte"))
        elif op == "size" and w[0] == "ret":
            ev.append("size.%s" % ("zero" if w[1] == "0" else "nonzero"))
        elif op == "isempty" and w[0] == "ret":
            ev.append("isempty.%s" % ("true" if w[1] == "1" else "false"))
    return ev


def nontrivial(r):
    executed = [l for l in r.impl if l.startswith("> ") and l != "> skip"]
    if r.id.split(":")[0] in ("primbounds", "classes"):
        return len(executed) >= 2 and bool(_branches(r))
    return len(executed) >= 2 and any(ALLOC.match(l) for l in r.impl) and bool(_branches(r))


def observe(r, rep):
    for e in _branches(r):
        rep.count("branch." + e)
    for l in r.impl:
        if l == "> skip":
            rep.count("op.skipped_by_harness")


def signature(r):
    """stable class of a failing case"""
    from vlib.flow import default_signature
    s = default_signature(r)
    if s.startswith("crash"):
        # name the operation that was running
        last = [l for l in r.impl if l.startswith("> ")]
        return s + ":" + (last[-1][2:].split()[0] if last else "?")
    return s
