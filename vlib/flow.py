"""Generic flow of one check run (DESIGN.md 2.1 / 3.3)."""
import glob, hashlib, importlib, os, random, re, sys, time
from . import core
from .core import CheckError, Report


def load(prop):
    return importlib.import_module("vlib.props." + prop.lower())


def default_signature(r):
    """coarse class of a failing case: used to group findings and to match known findings"""
    if r.crash:
        return "crash:" + r.crash.split()[1] if len(r.crash.split()) > 1 else "crash"
    if r.spec and r.spec.startswith("spec FAIL"):
        s = r.spec[len("spec FAIL"):]
        s = re.sub(r"op#\d+", "op", s)
        s = re.sub(r"\d+", "N", s)
        return "spec:" + s.strip()[:160]
    if not r.agree:
        return "diff"
    return ""


def read_corpus(prop):
    cases = []
    for path in sorted(glob.glob(os.path.join(core.VERIF, "corpus", prop, "*.ops"))):
        ops = [l.rstrip("\n") for l in open(path) if l.strip() and not l.startswith("#")]
        cases.append(("corpus:" + os.path.basename(path), ops))
    return cases


class Ctx:
    pass


def run_cases(mod, exe, cases, env=None):
    impl_out, impl_err = core.run_harness(exe, cases, env=env, timeout=getattr(mod, "HARNESS_TIMEOUT", 3600))
    model_out = core.run_driver(mod.ID, impl_out)
    ignore = getattr(mod, "ignore_line", None)
    return core.compare(cases, impl_out, model_out, ignore=ignore), impl_out, impl_err


def is_impl_failure(mod, r):
    """the implementation's own observations falsify the specification predicate (or it crashed)"""
    if r.crash:
        return True
    return bool(r.spec and r.spec.startswith("spec FAIL"))


def describe(r):
    out = []
    if r.crash:
        out.append("implementation: " + r.crash)
    if r.spec:
        out.append("specification oracle on the implementation's observations: " + r.spec)
    if not r.agree:
        out.append("model/implementation correspondence: " + str(r.first_diff))
    return "; ".join(out)


def replay_text(mod, r, header, stderr_tail=""):
    lines = ["# property %s" % mod.ID] + ["# " + h for h in header]
    lines += ["# replay: ./check %s --replay <this file>" % mod.ID]
    lines += ["case replay"] + list(r.ops) + ["end"]
    lines += ["# --- implementation trace"] + ["#I " + l for l in (r.impl or [])]
    lines += ["# --- model trace"] + ["#M " + l for l in (r.model or [])]
    if stderr_tail:
        lines += ["# --- stderr"] + ["#E " + l for l in stderr_tail.split("\n")[-40:]]
    return "\n".join(lines) + "\n"


def shrink(mod, exe, r, sig, env=None):
    sigf = getattr(mod, "signature", default_signature)
    keep = getattr(mod, "KEEP_FIRST", 0)

    def fails(ops):
        try:
            rs, _, _ = run_cases(mod, exe, [("s", ops)], env=env)
        except CheckError:
            return False
        return sigf(rs[0]) == sig

    try:
        ops = core.ddmin(list(r.ops), fails, keep_first=keep, max_tests=getattr(mod, "SHRINK_BUDGET", 250))
        rs, _, err = run_cases(mod, exe, [("replay", ops)], env=env)
        if sigf(rs[0]) == sig:
            return rs[0], err
    except Exception:
        pass
    return r, ""


def regen_others(own):
    import hashlib
    stamp = os.path.join(core.CACHE, "gen_tree_stamp")
    os.makedirs(core.CACHE, exist_ok=True)
    h = core._hash_files(core._tree_files())
    try:
        if open(stamp).read().strip() == h:
            return
    except OSError:
        pass
    with core.Lock("regen"):
        for i in range(1, 21):
            pid = "C%02d" % i
            if pid == own:
                continue
            try:
                m = load(pid)
            except Exception:
                continue
            if hasattr(m, "translate"):
                c = Ctx()
                c.tier, c.seed, c.rng, c.rep, c.mod = "quick", 0, random.Random(0), None, m
                try:
                    m.translate(c)
                except Exception:
                    pass
        with open(stamp, "w") as f:
            f.write(h)


def run_property(prop, tier, seed, replay=None):
    mod = load(prop)
    rep = Report(mod.ID, tier, seed)
    rep.trusted = list(getattr(mod, "TRUSTED", []))
    rep.assumptions = list(getattr(mod, "ASSUMPTIONS", []))
    rep.rule = getattr(mod, "RULE", "")
    rng = random.Random(seed)
    ctx = Ctx()
    ctx.tier, ctx.seed, ctx.rng, ctx.rep, ctx.mod = tier, seed, rng, rep, mod
    sigf = getattr(mod, "signature", default_signature)

    # 1. translators: regenerate Gen/ from the current source.
    # Extension modules (Props/Cnnx.lean) import other properties' Gen files, so when the source tree is
    # not the one the Gen directory was last generated from, every translator is run first (errors of the
    # other properties' translators are theirs to report; their last good output stays in place).
    regen_others(mod.ID)
    gen_problems = []
    if hasattr(mod, "translate"):
        try:
            gen_problems = mod.translate(ctx) or []
        except Exception as e:      # "cannot translate" is handled like a broken obligation (DESIGN 3.1)
            gen_problems = ["translator cannot translate the current source: %s" % e]
        for g in gen_problems:
            rep.notes.append("translator: " + g)

    # 2. proof obligations
    module = getattr(mod, "PROPS_MODULE", "CppUModel.Props." + mod.ID)
    res, out = core.audit(mod.ID, module)
    rep.obligations = res
    rep.checker_cmd = "lake build %s && lake env lean <#print axioms of every obligation>" % " ".join(core.props_modules(mod.ID, module))
    forb = core.grep_forbidden()
    broken = ["%s: %s" % (k, v[1]) for k, v in res.items() if not v[0]]
    if forb:
        broken += ["forbidden construct: " + h for h in forb]
        for k in list(rep.obligations):
            rep.obligations[k] = (False, "forbidden construct in Lean sources: " + forb[0])
    if tier == "thorough" and not broken:
        for m_ in core.props_modules(mod.ID, module):
            ok, o = core.leanchecker(m_)
            rep.checker_cmd += " && lake env leanchecker %s" % m_
            rep.notes.append("leanchecker %s: %s" % (m_, "ok" if ok else "FAILED " + o[-300:]))
            if not ok:
                broken.append("leanchecker rejects %s" % m_)
    broken += gen_problems

    # 3. correspondence + specification oracle on the implementation
    variant = getattr(mod, "VARIANT", "asan")
    env = getattr(mod, "ENV", None)
    exe = core.build_harness(mod.HARNESS, variant, extra_flags=getattr(mod, "HARNESS_FLAGS", ()))
    core.build_driver(mod.ID)

    if replay:
        ops = [l.rstrip("\n") for l in open(replay) if l.strip() and not l.startswith("#")]
        ops = [l for l in ops if not l.startswith("case ") and l.strip() != "end"]
        rs, impl_out, err = run_cases(mod, exe, [("replay", ops)], env=env)
        r = rs[0]
        print("--- implementation"); print("\n".join(r.impl))
        print("--- model"); print("\n".join(r.model))
        print("--- oracle: %s" % r.spec)
        print("--- agree: %s %s" % (r.agree, r.first_diff or ""))
        if is_impl_failure(mod, r) or not r.agree:
            print("VIOLATION property=%s replay=%s" % (mod.ID, replay))
            return 1
        return 0

    cases = read_corpus(mod.ID)
    gen = mod.generate(rng, tier)
    for i, (tag, ops) in enumerate(gen):
        cases.append(("%s:%d" % (tag, i), ops))
    t1 = time.time()
    results, _, impl_err = run_cases(mod, exe, cases, env=env)
    rep.notes.append("correspondence: %d cases in %.1fs" % (len(cases), time.time() - t1))

    known = core.known_findings(mod.ID)
    known_active = {k["signature"]: k for k in known if k.get("status") == "known"}
    seen_known = {}
    impl_fail, disagree = {}, {}
    nontrivial = getattr(mod, "nontrivial", lambda r: len(r.ops) >= 2)
    for r in results:
        rep.evaluations += 1
        rep.traces += 1
        tag = r.id.split(":")[0]
        rep.count("cases." + tag)
        for l in r.ops:
            w = l.split()
            if w:
                rep.count("op." + w[0])
        if nontrivial(r):
            rep.distinct.add(hashlib.sha1("\n".join(r.ops).encode()).hexdigest())
        if hasattr(mod, "observe"):
            mod.observe(r, rep)
        bad_impl = is_impl_failure(mod, r)
        if bad_impl or not r.agree:
            sig = sigf(r)
            if sig in known_active:
                seen_known.setdefault(sig, r)
                continue
            if getattr(mod, "tolerated", None) and mod.tolerated(r):
                rep.count("tolerated")
                continue
            if bad_impl:
                cur = impl_fail.get(sig)
                if cur is None or len(r.ops) < len(cur.ops):
                    impl_fail[sig] = r
            else:
                cur = disagree.get(sig)
                if cur is None or len(r.ops) < len(cur.ops):
                    disagree[sig] = r
    if len(results) >= 3:
        for r in results[:2] + results[-1:]:
            rep.samples.append({"case": r.id, "ops": r.ops[:12], "implementation": r.impl[:16], "oracle": r.spec})

    # extra, property specific checks (exhaustive sweeps, second build variants, runtime parts)
    if hasattr(mod, "extra"):
        try:
            mod.extra(ctx, exe)
        except CheckError:
            raise
        except Exception as e:
            # output of the implementation that the property-specific judge cannot even digest is not an
            # infrastructure error: the run is reported as "no longer shown to hold"
            import traceback
            broken.append("property-specific step (%s.extra) could not digest the implementation's output: %s | %s"
                          % (mod.ID, e, traceback.format_exc().strip().split("\n")[-3:]))

    # known findings: replay each listed one; print KNOWN-FINDING if it still reproduces
    for sig, k in known_active.items():
        r = seen_known.get(sig)
        if r is None and k.get("replay"):
            path = os.path.join(core.VERIF, k["replay"])
            if os.path.exists(path):
                ops = [l.rstrip("\n") for l in open(path) if l.strip() and not l.startswith("#")]
                ops = [l for l in ops if not l.startswith("case ") and l.strip() != "end"]
                rs, _, _ = run_cases(mod, exe, [("known", ops)], env=env)
                if sigf(rs[0]) == sig:
                    r = rs[0]
        if r is not None:
            rep.known("%s (%s)" % (k.get("what", sig), k.get("id", "")))

    # 4. classify
    for sig, r in sorted(impl_fail.items())[:4]:
        r2, err = shrink(mod, exe, r, sig, env=env)
        hdr = ["kind: the implementation violates the specification predicate on this input",
               "signature: " + sig, "detail: " + describe(r2), "found in case: " + r.id, "seed: %d tier: %s" % (seed, tier)]
        if broken:
            hdr.append("broken obligations: " + "; ".join(broken[:6]))
        rep.violation("property %s violated by the implementation: %s" % (mod.ID, describe(r2)),
                      replay_text(mod, r2, hdr, err), name="impl")
    if not impl_fail and (broken or disagree):
        hdr = ["kind: the property is no longer shown to hold; no failing input found on the implementation"]
        for b in broken[:12]:
            hdr.append("no longer checks: " + b)
        r2 = None
        if disagree:
            sig, r = sorted(disagree.items(), key=lambda kv: len(kv[1].ops))[0]
            r2, _ = shrink(mod, exe, r, sig, env=env)
            hdr.append("correspondence %s: %s" % (mod.HARNESS, describe(r2)))
            hdr.append("disagreeing classes: " + "; ".join(sorted(disagree)[:6]))
        else:
            r2 = core.CaseResult()
            r2.ops, r2.impl, r2.model = [], [], []
        what = "property %s no longer shown to hold: %s" % (
            mod.ID, "; ".join(broken[:3]) if broken else "model and implementation disagree: " + describe(r2))
        rep.violation(what, replay_text(mod, r2, hdr), name="unproved", no_input=True)
    return rep.finish()
