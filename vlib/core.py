"""Shared machinery of the checks: build cache, Lean build/audit, harness+driver runs, diff,
shrinking, known findings, evidence, reporting.  See DESIGN.md section 2."""
import hashlib, json, os, random, re, shutil, subprocess, sys, tempfile, time, fcntl
from concurrent.futures import ThreadPoolExecutor

VERIF = os.path.dirname(os.path.dirname(os.path.abspath(__file__)))
REPO = os.environ.get("VERIF_REPO", "/repo")
LEAN = os.path.join(VERIF, "lean")
CACHE = os.path.join(VERIF, ".cache")
REPLAYS = os.path.join(VERIF, "replays")
# a run against another tree (VERIF_REPO, mutation trials) must not overwrite the committed evidence
EVIDENCE = os.environ.get("VERIF_EVIDENCE_DIR") or (os.path.join(VERIF, "evidence") if "VERIF_REPO" not in os.environ
                                                      else os.path.join(CACHE, "evidence_other_tree"))
GUARD = "CPPUTEST_VERIF_HOOKS"
NCPU = os.cpu_count() or 4

ALLOWED_AXIOMS = {"propext", "Classical.choice", "Quot.sound"}
FORBIDDEN = re.compile(r"\b(sorry|admit|native_decide|bv_decide|implemented_by|unsafe)\b|^\s*axiom\s|maxHeartbeats\s+0")


class CheckError(Exception):
    """infrastructure failure (tree does not compile, tool missing): exit 2, never a verdict"""


def sh(cmd, cwd=None, timeout=None, input=None, env=None, check=False):
    e = dict(os.environ)
    if env:
        e.update(env)
    p = subprocess.run(cmd, cwd=cwd, timeout=timeout, input=input, env=e, shell=isinstance(cmd, str),
                       stdout=subprocess.PIPE, stderr=subprocess.PIPE, text=True, errors="replace")
    if check and p.returncode != 0:
        raise CheckError("command failed: %s\n%s\n%s" % (cmd, p.stdout[-4000:], p.stderr[-4000:]))
    return p


class Lock:
    def __init__(self, name):
        os.makedirs(CACHE, exist_ok=True)
        self.path = os.path.join(CACHE, name + ".lock")

    def __enter__(self):
        self.f = open(self.path, "w")
        fcntl.flock(self.f, fcntl.LOCK_EX)
        return self

    def __exit__(self, *a):
        fcntl.flock(self.f, fcntl.LOCK_UN)
        self.f.close()


# --------------------------------------------------------------------------- implementation build

VARIANTS = {
    # name: (compiler, flags)
    "asan": ("g++", ["-O1", "-g", "-fsanitize=address,undefined", "-fno-sanitize-recover=all", "-fno-omit-frame-pointer"]),
    "asan_noub_signed": ("g++", ["-O1", "-g", "-fsanitize=address,undefined", "-fno-sanitize=signed-integer-overflow",
                                  "-fno-sanitize-recover=all", "-fno-omit-frame-pointer"]),
    "noexc": ("g++", ["-O1", "-g", "-fsanitize=address,undefined", "-fno-sanitize-recover=all", "-fno-exceptions"]),
    "tsan": ("g++", ["-O1", "-g", "-fsanitize=thread"]),
    "nocorrupt": ("g++", ["-O1", "-g", "-fsanitize=address,undefined", "-fno-sanitize-recover=all",
                          "-DCPPUTEST_DISABLE_MEM_CORRUPTION_CHECK"]),
    "plain": ("g++", ["-O1", "-g"]),
}
COMMON_FLAGS = ["-std=gnu++17", "-w", "-D" + GUARD, "-DHAVE_CONFIG_H",
                "-I" + os.path.join(REPO, "include"), "-I" + os.path.join(VERIF, "harness", "config"),
                "-I" + os.path.join(VERIF, "harness")]


def _impl_sources():
    out = []
    for d in ("src/CppUTest", "src/CppUTestExt", "src/Platforms/Gcc"):
        full = os.path.join(REPO, d)
        for f in sorted(os.listdir(full)):
            if f.endswith(".cpp") or f.endswith(".c"):
                if f in ("GTest.cpp",):
                    continue
                out.append(os.path.join(full, f))
    return out


def _hash_files(files, extra=""):
    h = hashlib.sha256()
    h.update(extra.encode())
    for f in files:
        h.update(f.encode())
        with open(f, "rb") as fh:
            h.update(fh.read())
    return h.hexdigest()[:20]


def _tree_files():
    files = _impl_sources()
    for root, _, names in os.walk(os.path.join(REPO, "include")):
        for n in sorted(names):
            files.append(os.path.join(root, n))
    files.append(os.path.join(VERIF, "harness", "config", "generated", "CppUTestGeneratedConfig.h"))
    return sorted(files)


def tree_hash(variant):
    comp, flags = VARIANTS[variant]
    return _hash_files(_tree_files(), extra=variant + comp + " ".join(flags + COMMON_FLAGS))


def _prune_cache(keep_prefix="impl_", keep=6):
    try:
        ds = [os.path.join(CACHE, d) for d in os.listdir(CACHE) if d.startswith(keep_prefix)]
        ds.sort(key=lambda d: os.path.getmtime(d), reverse=True)
        for d in ds[keep:]:
            shutil.rmtree(d, ignore_errors=True)
    except OSError:
        pass


def build_impl(variant="asan"):
    """static library of /repo's current sources, hook guard on; content addressed"""
    comp, flags = VARIANTS[variant]
    h = tree_hash(variant)
    d = os.path.join(CACHE, "impl_%s_%s" % (variant, h))
    lib = os.path.join(d, "libimpl.a")
    with Lock("impl_" + variant):
        if os.path.exists(lib):
            os.utime(d)
            return lib, d
        tmp = d + ".tmp%d" % os.getpid()
        shutil.rmtree(tmp, ignore_errors=True)
        os.makedirs(tmp)
        srcs = _impl_sources()

        def one(src):
            obj = os.path.join(tmp, src.replace(REPO, "").strip("/").replace("/", "_") + ".o")
            p = sh([comp] + flags + COMMON_FLAGS + ["-c", src, "-o", obj])
            return obj, p

        with ThreadPoolExecutor(NCPU) as ex:
            res = list(ex.map(one, srcs))
        bad = [(o, p) for o, p in res if p.returncode != 0]
        if bad:
            shutil.rmtree(tmp, ignore_errors=True)
            raise CheckError("the implementation does not compile (%s):\n%s" % (variant, bad[0][1].stderr[-3000:]))
        sh(["ar", "rcs", os.path.join(tmp, "libimpl.a")] + [o for o, _ in res], check=True)
        shutil.rmtree(d, ignore_errors=True)
        os.rename(tmp, d)
        _prune_cache()
        return lib, d


def build_harness(name, variant="asan", extra_flags=(), extra_sources=()):
    """compile harness/<name>.cpp against the implementation library"""
    lib, d = build_impl(variant)
    comp, flags = VARIANTS[variant]
    src = os.path.join(VERIF, "harness", name + ".cpp")
    deps = [src] + [os.path.join(VERIF, "harness", f) for f in sorted(os.listdir(os.path.join(VERIF, "harness")))
                    if f.endswith(".h")] + list(extra_sources)
    hh = _hash_files(deps, extra=" ".join(extra_flags))
    exe = os.path.join(d, "%s_%s" % (name, hh))
    with Lock("harness_" + name + "_" + variant):
        if os.path.exists(exe):
            return exe
        p = sh([comp] + flags + COMMON_FLAGS + list(extra_flags) + [src] + list(extra_sources) +
               ["-o", exe + ".tmp", lib, "-lpthread"])
        if p.returncode != 0:
            raise CheckError("harness %s does not compile against the current tree:\n%s" % (name, p.stderr[-4000:]))
        os.rename(exe + ".tmp", exe)
    return exe


# --------------------------------------------------------------------------- Lean

def write_if_changed(path, text):
    try:
        if open(path).read() == text:
            return False
    except OSError:
        pass
    os.makedirs(os.path.dirname(path), exist_ok=True)
    with open(path, "w") as f:
        f.write(text)
    return True


def lake_build(targets):
    """returns (ok, output)"""
    with Lock("lake"):
        p = sh(["lake", "build"] + list(targets), cwd=LEAN, timeout=3000)
    out = p.stdout + p.stderr
    return p.returncode == 0, out


def driver_exe(prop):
    return os.path.join(LEAN, ".lake", "build", "bin", "driver_" + prop.lower())


def build_driver(prop):
    ok, out = lake_build(["driver_" + prop.lower()])
    if not ok:
        raise CheckError("the Lean driver of %s does not build:\n%s" % (prop, out[-4000:]))
    return driver_exe(prop)


def obligations(prop):
    """names of the theorems that must exist, compile and be axiom-clean for `prop`:
    lean/obligations/<prop>.json plus, when present, lean/obligations/<prop>x.json (cross-model
    composition theorems kept in CppUModel/Props/<prop>x.lean)"""
    out = []
    for name in (prop, prop + "x"):
        try:
            with open(os.path.join(LEAN, "obligations", name + ".json")) as f:
                out += json.load(f)
        except OSError:
            pass
    return out


def props_modules(prop, module=None):
    mods = [module or ("CppUModel.Props." + prop)]
    if os.path.exists(os.path.join(LEAN, "CppUModel", "Props", prop + "x.lean")):
        mods.append("CppUModel.Props." + prop + "x")
    return mods


def grep_forbidden():
    """forbidden constructs outside comments in the Lean sources"""
    hits = []
    for root, _, names in os.walk(LEAN):
        if ".lake" in root:
            continue
        for n in names:
            if not n.endswith(".lean"):
                continue
            path = os.path.join(root, n)
            text = open(path).read()
            # strip block comments and line comments
            text2 = re.sub(r"/-.*?-/", lambda m: "\n" * m.group(0).count("\n"), text, flags=re.S)
            for i, line in enumerate(text2.split("\n"), 1):
                line = line.split("--")[0]
                if FORBIDDEN.search(line):
                    hits.append("%s:%d: %s" % (os.path.relpath(path, VERIF), i, line.strip()))
    return hits


def audit(prop, module=None):
    """check every obligation of `prop`: the theorem exists, compiles, and depends on allowed axioms only.
    returns dict name -> (ok, detail), plus build output"""
    obs = obligations(prop)
    mods = props_modules(prop, module)
    ok, out = lake_build(mods)
    result = {}
    if not ok:
        # when a module fails none of its theorems is re-checked: all are undischarged,
        # the failing declarations are named for the replay file
        failing = sorted(set(re.findall(r"error: ([^\s:]+\.lean:\d+:\d+)", out)))
        for o in obs:
            result[o] = (False, "module %s does not build (errors at %s)" % (" / ".join(mods), ", ".join(failing[:5]) or "?"))
        return result, out
    lines = ["import %s" % m for m in mods] + ["#print axioms %s" % o for o in obs]
    with tempfile.NamedTemporaryFile("w", suffix=".lean", dir=LEAN, delete=False) as f:
        f.write("\n".join(lines) + "\n")
        tmp = f.name
    try:
        p = sh(["lake", "env", "lean", tmp], cwd=LEAN, timeout=600)
    finally:
        os.unlink(tmp)
    text = p.stdout + p.stderr
    for o in obs:
        m = re.search(r"'%s' depends on axioms: \[(.*?)\]" % re.escape(o), text, flags=re.S)
        if m:
            axs = {a.strip() for a in m.group(1).replace("\n", " ").split(",") if a.strip()}
            bad = axs - ALLOWED_AXIOMS
            result[o] = (not bad, "axioms: " + ", ".join(sorted(axs)) if not bad else "forbidden axioms: " + ", ".join(sorted(bad)))
        elif re.search(r"'%s' does not depend on any axioms" % re.escape(o), text):
            result[o] = (True, "no axioms")
        else:
            mm = re.search(r"[Uu]nknown (constant|identifier)[^\n]*%s" % re.escape(o.split(".")[-1]), text)
            result[o] = (False, "theorem not found" if mm else "audit output not understood: " + text[-300:])
    return result, out


def leanchecker(module):
    p = sh(["lake", "env", "leanchecker", module], cwd=LEAN, timeout=3000)
    return p.returncode == 0, (p.stdout + p.stderr)[-2000:]


# --------------------------------------------------------------------------- running cases

class CaseResult:
    __slots__ = ("id", "ops", "impl", "model", "agree", "first_diff", "spec", "crash", "tag")

    def __init__(self):
        self.agree = True
        self.first_diff = None
        self.spec = None
        self.crash = None
        self.tag = ""


def format_cases(cases):
    """cases: list of (id, [op lines])"""
    out = []
    for cid, ops in cases:
        out.append("case %s" % cid)
        out.extend(ops)
        out.append("end")
    return "\n".join(out) + "\n"


def split_cases(text):
    """harness/driver output -> {id: [lines]} (lines between case and end, exclusive)"""
    res, cur, cid = {}, None, None
    order = []
    for l in text.split("\n"):
        if l.startswith("case "):
            cid = l.split()[1]
            cur = []
        elif l.strip() == "end":
            if cid is not None:
                res[cid] = cur
                order.append(cid)
            cid, cur = None, None
        elif cur is not None and l.strip():
            cur.append(l.rstrip())
    if cid is not None:   # truncated
        res[cid] = cur
        order.append(cid)
    return res, order


def run_harness(exe, cases, timeout=3600, env=None, chunk=None):
    """run the harness over cases in parallel chunks; returns combined stdout, stderr"""
    if not cases:
        return "", ""
    chunk = chunk or max(1, (len(cases) + NCPU - 1) // NCPU)
    parts = [cases[i:i + chunk] for i in range(0, len(cases), chunk)]

    def one(part):
        p = sh([exe], input=format_cases(part), timeout=timeout, env=env)
        return p.stdout, p.stderr, p.returncode

    with ThreadPoolExecutor(NCPU) as ex:
        res = list(ex.map(one, parts))
    for o, e, rc in res:
        if rc != 0:
            raise CheckError("harness exited with %s:\n%s" % (rc, e[-3000:]))
    return "".join(r[0] for r in res), "".join(r[1] for r in res)


def run_driver(prop, trace_text, timeout=3600):
    exe = driver_exe(prop)
    if not os.path.exists(exe):
        build_driver(prop)
    p = sh([exe], input=trace_text, timeout=timeout)
    if p.returncode != 0:
        raise CheckError("driver of %s failed: %s" % (prop, p.stderr[-2000:]))
    return p.stdout


def compare(cases, impl_text, model_text, ignore=None):
    """line-by-line comparison per case. `ignore(line)` drops implementation lines that the model does
    not produce by design (e.g. informational)."""
    impl, _ = split_cases(impl_text)
    model, _ = split_cases(model_text)
    results = []
    for cid, ops in cases:
        r = CaseResult()
        r.id, r.ops = cid, ops
        il = impl.get(cid)
        ml = model.get(cid)
        if il is None:
            r.impl, r.model = [], ml or []
            r.agree, r.first_diff, r.crash = False, "no implementation output for this case", "missing"
            results.append(r)
            continue
        cr = [l for l in il if l.startswith("crash ")]
        if cr:
            r.crash = cr[0]
        il2 = [l for l in il if not (ignore and ignore(l))]
        r.impl = il2
        ml = ml or []
        spec = [l for l in ml if l.startswith("spec ")]
        r.spec = spec[0] if spec else "spec missing"
        ml2 = [l for l in ml if not l.startswith("spec ")]
        r.model = ml2
        if il2 != ml2:
            r.agree = False
            n = min(len(il2), len(ml2))
            k = next((i for i in range(n) if il2[i] != ml2[i]), n)
            # find the op the difference belongs to
            op = next((il2[j] for j in range(min(k, len(il2) - 1), -1, -1) if il2[j].startswith("> ")), "?") if il2 else "?"
            r.first_diff = "at line %d (%s): implementation `%s` / model `%s`" % (
                k, op, il2[k] if k < len(il2) else "<nothing>", ml2[k] if k < len(ml2) else "<nothing>")
        results.append(r)
    return results


def ddmin(ops, fails, keep_first=0, max_tests=400):
    """delta debugging over operation lines; `fails(ops)` -> bool. The first `keep_first` lines stay."""
    head, body = ops[:keep_first], ops[keep_first:]
    tests = [0]

    def f(b):
        tests[0] += 1
        return fails(head + b)

    n = 2
    while len(body) >= 2 and tests[0] < max_tests:
        size = max(1, len(body) // n)
        chunks = [body[i:i + size] for i in range(0, len(body), size)]
        reduced = False
        for i in range(len(chunks)):
            cand = [x for j, c in enumerate(chunks) if j != i for x in c]
            if f(cand):
                body = cand
                n = max(n - 1, 2)
                reduced = True
                break
        if not reduced:
            if n >= len(body):
                break
            n = min(len(body), n * 2)
    if len(body) == 1 and tests[0] < max_tests and f([]):
        body = []
    return head + body


# --------------------------------------------------------------------------- known findings

def known_findings(prop):
    path = os.path.join(VERIF, "known_findings.json")
    try:
        with open(path) as f:
            data = json.load(f)
    except OSError:
        return []
    return [e for e in data.get("findings", []) if e.get("property") == prop]


# --------------------------------------------------------------------------- evidence / reporting

class Report:
    """collects what a check run did and turns it into evidence + exit status"""

    def __init__(self, prop, tier, seed):
        self.prop, self.tier, self.seed = prop, tier, seed
        self.t0 = time.time()
        self.violations = []          # (kind, text, replay_path, no_input)
        self.known_lines = []
        self.obligations = {}
        self.coverage = {}
        self.samples = []
        self.assumptions = []
        self.trusted = []
        self.evaluations = 0
        self.distinct = set()
        self.traces = 0
        self.hist = {}
        self.notes = []
        self.checker_cmd = ""
        self.rule = ""
        self.exhaustive = None

    def count(self, key, n=1):
        self.hist[key] = self.hist.get(key, 0) + n

    def write_replay(self, name, payload):
        os.makedirs(REPLAYS, exist_ok=True)
        path = os.path.join(REPLAYS, "%s_%s_%s.txt" % (self.prop, name, self.seed))
        with open(path, "w") as f:
            f.write(payload)
        return path

    def violation(self, what, replay_text, name="violation", no_input=False):
        path = self.write_replay(name + str(len(self.violations)), replay_text)
        self.violations.append((what, path, no_input))

    def known(self, text):
        self.known_lines.append(text)

    def finish(self):
        for k in self.known_lines:
            print("KNOWN-FINDING: property=%s %s" % (self.prop, k))
        n_ob = len(self.obligations)
        n_ok = sum(1 for v in self.obligations.values() if v[0])
        cov = {
            "obligations": n_ob, "discharged": n_ok,
            "checker_cmd": self.checker_cmd, "trusted_base": self.trusted,
            "evaluations": self.evaluations, "distinct_nontrivial": len(self.distinct),
            "rule": self.rule, "samples": self.samples[:8],
            "traces_validated_against_impl": self.traces,
            "histogram": self.hist,
            "obligation_status": {k: v[1] for k, v in self.obligations.items()},
            "known_findings_reproduced": self.known_lines,
            "notes": self.notes,
        }
        if self.exhaustive is not None:
            cov["exhaustive"] = self.exhaustive
        cov.update(self.coverage)
        if not isinstance(cov.get("exhaustive", False), bool):     # schema: boolean; keep the detail beside it
            cov["exhaustive_detail"] = cov["exhaustive"]
            cov["exhaustive"] = True
        ev = {
            "property_id": self.prop, "tier": self.tier, "seed": self.seed, "level": "proof",
            "coverage": cov, "assumptions": self.assumptions,
            "wall_s": round(time.time() - self.t0, 2), "violations": len(self.violations),
        }
        os.makedirs(EVIDENCE, exist_ok=True)
        with open(os.path.join(EVIDENCE, self.prop + ".json"), "w") as f:
            json.dump(ev, f, indent=1, sort_keys=True)
            f.write("\n")
        for what, path, no_input in self.violations:
            print("%s" % what)
            print("VIOLATION property=%s replay=%s%s" % (self.prop, path, " no-failing-input-found" if no_input else ""))
        return 1 if self.violations else 0
