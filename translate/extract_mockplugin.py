"""Regenerates lean/CppUModel/Gen/MockPlugin.lean from src/CppUTestExt/MockSupportPlugin.cpp: the guard
expression of the end-of-test expectation check in MockSupportPlugin::postTestAction.  The statement
sequence around it (install the plugin's reporter, guarded mock().checkExpectations(), mock().clear()
unconditionally, uninstall) and the reporter (adds the failure to the result of the test it was made
for, does not leave the test) are shape-checked: anything else is a TranslateError."""
import os, re
from .common import *

SRC = "src/CppUTestExt/MockSupportPlugin.cpp"


def squeeze(t):
    return re.sub(r"\s+", "", t)


def extract():
    src = strip_comments(read(SRC))
    body = squeeze(function_body(src, r"void\s+MockSupportPlugin::postTestAction\s*\(\s*UtestShell\s*&\s*test\s*,\s*TestResult\s*&\s*result\s*\)"))
    m = re.match(r"^MockSupportPluginReporterreporter\(test,result\);"
                 r"mock\(\)\.setMockFailureStandardReporter\(&reporter\);"
                 r"if\(([^;{}]*)\)mock\(\)\.checkExpectations\(\);"
                 r"mock\(\)\.clear\(\);"
                 r"mock\(\)\.setMockFailureStandardReporter\(NULLPTR\);"
                 r"mock\(\)\.removeAllComparatorsAndCopiers\(\);$", body)
    if not m:
        raise TranslateError("MockSupportPlugin::postTestAction changed shape: " + body)
    guard = m.group(1)
    cls = re.search(r"class\s+MockSupportPluginReporter\s*:\s*public\s+MockFailureReporter\s*\{(.*?)\n\};", src, re.S)
    if not cls:
        raise TranslateError("class MockSupportPluginReporter not found")
    c = squeeze(cls.group(1))
    if "virtualvoidfailTest(constMockFailure&failure)CPPUTEST_OVERRIDE{result_.addFailure(failure);}" not in c:
        raise TranslateError("MockSupportPluginReporter::failTest is no longer `result_.addFailure(failure);`")
    if "virtualUtestShell*getTestToFail()CPPUTEST_OVERRIDE{return&test_;}" not in c:
        raise TranslateError("MockSupportPluginReporter::getTestToFail is no longer `return &test_;`")
    if "MockSupportPluginReporter(UtestShell&test,TestResult&result):test_(test),result_(result){}" not in c:
        raise TranslateError("MockSupportPluginReporter constructor changed")
    pre = squeeze(function_body(src, r"void\s+MockSupportPlugin::preTestAction\s*\("))
    if pre != "mock().installComparatorsAndCopiers(repository_);":
        raise TranslateError("MockSupportPlugin::preTestAction changed: " + pre)
    text = HEADER % ("translate/extract_mockplugin.py", SRC)
    text += "namespace Gen.MockPlugin\n"
    text += "/-- the condition under which postTestAction calls mock().checkExpectations() (whitespace removed) -/\n"
    text += 'def postGuard : String := "%s"\n' % guard.replace("\\", "\\\\").replace('"', '\\"')
    text += "end Gen.MockPlugin\n"
    return text


def run():
    text = extract()
    core.write_if_changed(os.path.join(core.LEAN, "CppUModel", "Gen", "MockPlugin.lean"), text)
    return []
