"""cxx2lean for the C-library-like primitives of src/CppUTest/SimpleString.cpp (C13).

Regenerates lean/CppUModel/Gen/StringPrims.lean on every check run from clang's typed JSON AST of
  isDigit isSpace isUpper isControl isControlWithShortEscapeSequence ToLower
  StrLen StrCmp StrNCmp StrNCpy StrStr MemCmp AtoU AtoI.

Subset understood (anything else raises TranslateError, which the check treats like a broken obligation):
  statements  CompoundStmt, DeclStmt (scalars / pointers with initialiser), ReturnStmt, IfStmt, WhileStmt, DoStmt,
              ForStmt (without init declaration), expression statements
  expressions literals, locals/parameters, `*p` (read) and `*p = v` (write) through char / unsigned char pointers,
              ++/-- (prefix and postfix) on pointers and size_t, =, +=, *=, + - * unary -, comparisons, && || !, ?:,
              the casts clang inserts (LValueToRValue, IntegralCast, IntegralToBoolean, NoOp, BitCast of pointers,
              NullToPointer), calls of the functions of this list.

Semantics of the emitted Lean (namespace Gen.StrPrims; helpers in Model/CPrimSem.lean):
  * a pointer variable `p` is a pair: a buffer `mem_<root>` (root = the pointer PARAMETER p was derived from) and the
    offset `p : Nat`; `*p` is `CStr.rd mem p` (fails with Err.oob outside the allocation), `*p = v` is `CStr.wr`;
    a pointer parameter that the body compares with NULL gets a flag `null_<p> : Bool` and is accessed with rdN / wrN;
  * char / unsigned char are UInt8; char -> int is `sx8` (sign extension: char is signed here), unsigned char -> int is
    `zx8`; int -> char is `i2c`; int -> unsigned is `i2u32`;
  * int is Int; an int operation whose operands are not provably small is range-checked with `ckInt`
    (signed overflow = undefined behaviour = Err.overflow); unsigned is Nat reduced mod 2^32 after every operation,
    size_t is Nat reduced mod 2^64;
  * control flow is translated in continuation-passing style by substitution (no `let`): every loop becomes a
    function that is structurally recursive on a fuel argument (Err.fuel when it runs out) and takes all variables in
    scope; code after a loop is inlined at the loop's exit; `return e` is `.ok e`;
  * evaluation order: left to right, && / || short-circuit, the right operand of `=` before the left one (C++17).
"""
import json, os, re, subprocess
from .common import TranslateError, HEADER, core

SRC = "src/CppUTest/SimpleString.cpp"
PURE_FUNCS = ["isDigit", "isSpace", "isUpper", "isControl", "isControlWithShortEscapeSequence", "ToLower"]
LOOP_FUNCS = ["StrLen", "StrCmp", "StrNCmp", "StrNCpy", "MemCmp", "StrStr", "AtoU", "AtoI"]
ALL = PURE_FUNCS + LOOP_FUNCS
# allocation-free methods: straight-line compositions of the primitives (emitted as m_<name>; `this` = buffer mem_this)
METHODS = ["size", "isEmpty", "at", "contains", "startsWith", "endsWith", "findFrom", "find"]
BUFFER_GETTERS = ("getBuffer", "asCharString")

# the signatures the driver and the proofs are written against: a source change that alters one (e.g. a dropped NULL test
# removes the `null_s1` flag) is reported as TranslateError instead of producing a module its users cannot be compiled with
INTERFACE = {
    "isDigit": "(ch : UInt8) : Bool",
    "isSpace": "(ch : UInt8) : Bool",
    "isUpper": "(ch : UInt8) : Bool",
    "isControl": "(ch : UInt8) : Bool",
    "isControlWithShortEscapeSequence": "(ch : UInt8) : Bool",
    "ToLower": "(ch : UInt8) : UInt8",
    "StrLen": "(fuel0 : Nat) (mem_str : Buf) (str : Nat) : Except Err Nat",
    "StrCmp": "(fuel0 : Nat) (mem_s1 : Buf) (s1 : Nat) (mem_s2 : Buf) (s2 : Nat) : Except Err Int",
    "StrNCmp": "(fuel0 : Nat) (mem_s1 : Buf) (s1 : Nat) (mem_s2 : Buf) (s2 : Nat) (n : Nat) : Except Err Int",
    "StrNCpy": "(fuel0 : Nat) (null_s1 : Bool) (mem_s1 : Buf) (s1 : Nat) (mem_s2 : Buf) (s2 : Nat) (n : Nat) : Except Err ((Option Nat) × Buf)",
    "MemCmp": "(fuel0 : Nat) (mem_s1 : Buf) (s1 : Nat) (mem_s2 : Buf) (s2 : Nat) (n : Nat) : Except Err Int",
    "StrStr": "(fuel0 : Nat) (mem_s1 : Buf) (s1 : Nat) (mem_s2 : Buf) (s2 : Nat) : Except Err (Option Nat)",
    "AtoU": "(fuel0 : Nat) (mem_str : Buf) (str : Nat) : Except Err Nat",
    "AtoI": "(fuel0 : Nat) (mem_str : Buf) (str : Nat) : Except Err Int",
    "m_size": "(fuel0 : Nat) (mem_this : Buf) : Except Err Nat",
    "m_isEmpty": "(fuel0 : Nat) (mem_this : Buf) : Except Err Bool",
    "m_at": "(fuel0 : Nat) (mem_this : Buf) (pos : Nat) : Except Err UInt8",
    "m_contains": "(fuel0 : Nat) (mem_this : Buf) (mem_other : Buf) : Except Err Bool",
    "m_startsWith": "(fuel0 : Nat) (mem_this : Buf) (mem_other : Buf) : Except Err Bool",
    "m_endsWith": "(fuel0 : Nat) (mem_this : Buf) (mem_other : Buf) : Except Err Bool",
    "m_findFrom": "(fuel0 : Nat) (mem_this : Buf) (starting_position : Nat) (ch : UInt8) : Except Err Nat",
    "m_find": "(fuel0 : Nat) (mem_this : Buf) (ch : UInt8) : Except Err Nat",
}

INT_MIN, INT_MAX = -2 ** 31, 2 ** 31 - 1
M32, M64 = 2 ** 32, 2 ** 64
PASS = ("ParenExpr", "ExprWithCleanups", "CXXStaticCastExpr", "CStyleCastExpr", "ImplicitCastExpr", "CXXFunctionalCastExpr")


def clang_ast():
    src = os.path.join(core.REPO, SRC)
    cmd = ["clang++-14", "-std=gnu++17", "-fsyntax-only", "-w",
           "-I" + os.path.join(core.REPO, "include"), "-I" + os.path.join(core.VERIF, "harness", "config"),
           "-DHAVE_CONFIG_H", "-Xclang", "-ast-dump=json", "-Xclang", "-ast-dump-filter=SimpleString::", src]
    try:
        p = subprocess.run(cmd, stdout=subprocess.PIPE, stderr=subprocess.PIPE, text=True, timeout=300)
    except OSError as e:
        raise TranslateError("clang++-14 cannot be run: %s" % e)
    if p.returncode != 0:
        raise TranslateError("clang cannot parse %s: %s" % (SRC, p.stderr[-1500:]))
    docs, dec, i, s = [], json.JSONDecoder(), 0, p.stdout
    n = len(s)
    while True:
        while i < n and s[i].isspace():
            i += 1
        if i >= n:
            break
        o, i = dec.raw_decode(s, i)
        docs.append(o)
    return docs


def where(node):
    r = node.get("range", {}).get("begin", {})
    line = r.get("line") or r.get("expansionLoc", {}).get("line") or r.get("spellingLoc", {}).get("line")
    return " (near line %s)" % line if line else ""


def kind_of_type(q):
    """C type -> kind used by the translator"""
    q = q.strip()
    if q in ("const SimpleString &", "const SimpleString"):
        return ("obj",)
    if q.endswith("*const"):
        q = q[:-5].strip()
    if q.endswith("*"):
        base = q[:-1].strip()
        const = base.startswith("const ") or base.endswith(" const")
        base = base.replace("const ", "").replace(" const", "").strip()
        if base not in ("char", "unsigned char", "void"):
            raise TranslateError("pointer to %s is outside the subset" % base)
        return ("ptr", base, const)
    if q.startswith("const "):
        q = q[6:].strip()
    table = {"char": "char", "unsigned char": "uchar", "bool": "bool", "int": "int", "unsigned int": "uint",
             "unsigned long": "ulong", "size_t": "ulong", "unsigned": "uint", "std::nullptr_t": "nullptr"}
    if q not in table:
        raise TranslateError("type %s is outside the subset" % q)
    return table[q]


def ntype(node):
    t = node.get("type", {})
    return kind_of_type(t.get("desugaredQualType", t.get("qualType", "")))


LEAN_TY = {"char": "UInt8", "uchar": "UInt8", "bool": "Bool", "int": "Int", "uint": "Nat", "ulong": "Nat"}


class NeedCheck(Exception):
    pass


class V:
    """a translated value: Lean term + C kind (+ interval for ints, constant if known, pointer root)"""

    def __init__(self, code, ty, lo=None, hi=None, const=None, root=None, pointee=None, null=False):
        self.code, self.ty, self.lo, self.hi, self.const, self.root, self.pointee, self.null = code, ty, lo, hi, const, root, pointee, null

    @staticmethod
    def k(value, ty):
        if ty in ("char", "uchar"):
            value %= 256
            return V("(%d : UInt8)" % value, ty, value, value, value)
        if ty == "int":
            if not INT_MIN <= value <= INT_MAX:
                raise TranslateError("int constant out of range")
            return V("(%d : Int)" % value, ty, value, value, value)
        if ty == "uint":
            value %= M32
            return V("%d" % value, ty, value, value, value)
        if ty == "ulong":
            value %= M64
            return V("%d" % value, ty, value, value, value)
        if ty == "bool":
            return V("true" if value else "false", ty, const=1 if value else 0)
        raise TranslateError("constant of kind %s" % ty)


def paren(c):
    return c if (c.startswith("(") and c.endswith(")") and c.count("(") == 1) or c.replace("_", "a").isalnum() else "(" + c + ")"


class Fn:
    def __init__(self, decl, kinds):
        self.decl = decl
        self.is_method = decl["name"] in METHODS
        self.name = ("m_" if self.is_method else "") + decl["name"]
        self.ret_roots = set()
        self.kinds = kinds                     # name -> "pure" | "loop" (+ signature) of already translated callees
        self.params = [c for c in decl.get("inner", []) if c.get("kind") == "ParmVarDecl"]
        self.body = [c for c in decl.get("inner", []) if c.get("kind") == "CompoundStmt"][0]
        q = decl["type"]["qualType"]
        self.ret = kind_of_type(q[:q.index("(")])
        self.defs = []                         # finished auxiliary loop definitions
        self.nloops = 0
        self.njoin = 0
        self.in_body = 0                       # > 0 while translating a loop body
        self.ntmp = 0
        self.order = []                        # scalar variables in scope, declaration order: (name, kind)
        self.roots = {}                        # pointer variable -> root parameter name
        self.pointee = {}                      # pointer variable -> pointee kind at declaration
        self.nullable = set()
        self.written = set()                   # root buffers written through
        self.uses_fuel = False
        self.impure = False                    # reads memory / can fail
        self.scan()

    # ----- pre-scan: which pointer parameters are compared with NULL, which roots are written
    def scan(self):
        pnames = {p["name"] for p in self.params}

        def strip(n):
            while n.get("kind") in PASS and n.get("castKind") != "NullToPointer":
                n = n["inner"][0]
            return n

        def walk(n):
            if not isinstance(n, dict):
                return
            if n.get("kind") == "BinaryOperator" and n.get("opcode") in ("==", "!="):
                a, b = n["inner"]
                for x, y in ((a, b), (b, a)):
                    if strip(x).get("castKind") == "NullToPointer" or strip(x).get("kind") in ("CXXNullPtrLiteralExpr", "GNUNullExpr"):
                        t = strip(y)
                        if t.get("kind") == "DeclRefExpr" and t["referencedDecl"]["name"] in pnames:
                            self.nullable.add(t["referencedDecl"]["name"])
                        # anything else (a returned pointer) is judged where the comparison is translated
            for c in n.get("inner", []) or []:
                walk(c)
        walk(self.body)
        for p in self.params:
            k = ntype(p)
            if isinstance(k, tuple) and k[0] == "ptr" and not k[2]:
                self.written.add(p["name"])      # non-const pointer parameter: treated as a mutable buffer

    def err(self, msg, node=None):
        raise TranslateError("%s: %s%s" % (self.name, msg, where(node) if node else ""))

    def tmp(self, p="c"):
        self.ntmp += 1
        return "%s%d" % (p, self.ntmp)

    # ----- environment: dict name -> V ; mutable buffers under key "mem_<root>"
    def mem(self, env, root):
        return env["mem_" + root].code if root in self.written else "mem_" + root

    def state_names(self):
        return [n for n, _ in self.order] + ["mem_" + r for r in sorted(self.written)]

    def state_types(self):
        return [LEAN_TY[k] if not isinstance(k, tuple) else "Nat" for _, k in self.order] + ["Buf" for _ in sorted(self.written)]

    def fixed_sig(self):
        out = [("mem_this", "Buf")] if self.is_method else []
        for p in self.params:
            k = ntype(p)
            if k == ("obj",):
                out.append(("mem_" + p["name"], "Buf"))
            elif isinstance(k, tuple):
                if p["name"] in self.nullable:
                    out.append(("null_" + p["name"], "Bool"))
                if p["name"] not in self.written:
                    out.append(("mem_" + p["name"], "Buf"))
        return out

    def ident_env(self):
        env = {}
        for n, k in self.order:
            if isinstance(k, tuple):
                env[n] = V(n, "ptr", root=self.roots[n], pointee=self.pointee[n])
            else:
                env[n] = V(n, k, *(self.full(k)))
        for r in self.written:
            env["mem_" + r] = V("mem_" + r, "mem")
        return env

    @staticmethod
    def full(k):
        return {"int": (INT_MIN, INT_MAX), "char": (0, 255), "uchar": (0, 255), "uint": (0, M32 - 1), "ulong": (0, M64 - 1),
                "bool": (None, None)}[k]

    def ret_code(self, v, env):
        if isinstance(self.ret, tuple):
            if v.null:
                r = "none"
            elif v.ty != "ptr":
                self.err("returns a non-pointer where a pointer is expected")
            elif v.root in self.nullable:
                self.ret_roots.add(v.root)
                r = "(if null_%s then none else some %s)" % (v.root, paren(v.code))
            else:
                self.ret_roots.add(v.root)
                r = "(some %s)" % paren(v.code)
        else:
            v = self.convert(v, self.ret)
            r = v.code
        if self.written:
            r = "(%s, %s)" % (r, ", ".join(env["mem_" + x].code for x in sorted(self.written)))
        return r

    def ret_type(self):
        t = "(Option Nat)" if isinstance(self.ret, tuple) else LEAN_TY[self.ret]
        if self.written:
            t = "(%s × %s)" % (t, " × ".join("Buf" for _ in self.written))
        return t

    # ----- conversions
    def convert(self, v, to):
        if v.ty == to:
            return v
        if v.const is not None and v.ty in ("char", "uchar", "int", "uint", "ulong", "bool") and to != "bool":
            val = v.const
            if v.ty == "char" and val >= 128:
                val -= 256                      # char is signed
            return V.k(val, to)
        if to == "int":
            if v.ty == "char":
                return V("sx8 %s" % paren(v.code), "int", -128, 127)
            if v.ty == "uchar":
                return V("zx8 %s" % paren(v.code), "int", 0, 255)
            if v.ty == "bool":
                return V("(if %s then 1 else 0 : Int)" % v.code, "int", 0, 1)
        if to in ("char", "uchar"):
            if v.ty in ("char", "uchar"):
                return V(v.code, to, 0, 255)
            if v.ty == "int":
                return V("i2c %s" % paren(v.code), to, 0, 255)
        if to == "uint" and v.ty == "int":
            return V("i2u32 %s" % paren(v.code), "uint", 0, M32 - 1)
        if to == "ulong" and v.ty == "int" and v.lo is not None and v.lo >= 0:
            return V("Int.toNat %s" % paren(v.code), "ulong", v.lo, v.hi)
        if to == "bool":
            if v.ty in ("char", "uchar"):
                return V("(%s != 0)" % v.code, "bool")
            if v.ty in ("int", "uint", "ulong"):
                return V("(%s != 0)" % v.code, "bool")
        self.err("conversion %s -> %s is outside the subset" % (v.ty, to))

    # ----- expressions (CPS): k(value, env) -> Lean code
    def expr(self, n, env, k):
        kind = n.get("kind")
        if kind in ("ParenExpr", "ExprWithCleanups"):
            return self.expr(n["inner"][0], env, k)
        if kind in ("IntegerLiteral", "CharacterLiteral"):
            return k(V.k(int(n["value"]), ntype(n)), env)
        if kind == "CXXBoolLiteralExpr":
            return k(V.k(1 if n["value"] else 0, "bool"), env)
        if kind in ("CXXNullPtrLiteralExpr", "GNUNullExpr"):
            return k(V("none", "ptr", null=True), env)
        if kind in ("ImplicitCastExpr", "CStyleCastExpr", "CXXStaticCastExpr", "CXXFunctionalCastExpr"):
            ck = n.get("castKind")
            sub = n["inner"][0]
            if ck == "LValueToRValue":
                return self.rvalue(sub, env, k)
            if ck == "NoOp":
                return self.expr(sub, env, k)
            if ck == "NullToPointer":
                return k(V("none", "ptr", null=True), env)
            if ck == "BitCast":
                t = ntype(n)
                if not isinstance(t, tuple):
                    self.err("BitCast to a non-pointer", n)
                pk = {"char": "char", "unsigned char": "uchar", "void": "void"}[t[1]]
                return self.expr(sub, env, lambda v, e: k(V(v.code, "ptr", root=v.root, pointee=pk, null=v.null), e))
            if ck in ("IntegralCast", "IntegralToBoolean"):
                t = ntype(n)
                return self.expr(sub, env, lambda v, e: k(self.convert(v, t), e))
            self.err("cast %s is outside the subset" % ck, n)
        if kind == "DeclRefExpr":
            self.err("use of an lvalue outside LValueToRValue / assignment", n)
        if kind == "UnaryOperator":
            op = n["opcode"]
            if op in ("++", "--"):
                return self.incdec(n, env, k)
            if op == "-":
                def neg(v, e):
                    if v.ty != "int":
                        self.err("unary - on %s" % v.ty, n)
                    if v.const is not None:
                        return k(V.k(-v.const, "int"), e)
                    return self.checked(V("- %s" % paren(v.code), "int", -v.hi, -v.lo), e, k)
                return self.expr(n["inner"][0], env, neg)
            if op == "!":
                return self.expr(n["inner"][0], env, lambda v, e: k(V("(!%s)" % self.convert(v, "bool").code, "bool"), e))
            self.err("unary operator %s is outside the subset" % op, n)
        if kind == "BinaryOperator":
            return self.binop(n, env, k)
        if kind == "CompoundAssignOperator":
            return self.compound(n, env, k)
        if kind == "ConditionalOperator":
            c, a, b = n["inner"]
            if self.is_pure(n):
                # both arms may be evaluated eagerly only if neither needs an overflow check
                saved, self.no_check = self.no_check, True
                try:
                    probe = []
                    self.expr(c, env, lambda vc, e: self.expr(a, e, lambda va, e2: self.expr(b, e2, lambda vb, e3: probe.append(self.ite(vc, va, vb)) or "")))
                    ok = True
                except NeedCheck:
                    ok = False
                finally:
                    self.no_check = saved
                if ok:
                    return k(probe[0], env)
            return self.cond(c, env, lambda e: self.expr(a, e, k), lambda e: self.expr(b, e, k))
        if kind == "CallExpr":
            return self.call(n, env, k)
        if kind == "CXXMemberCallExpr":
            return self.member_call(n, env, k)
        self.err("expression %s is outside the subset" % kind, n)

    def ite(self, c, a, b):
        if a.ty != b.ty:
            self.err("?: with operands of different kinds")
        lo = None if a.lo is None or b.lo is None else min(a.lo, b.lo)
        hi = None if a.hi is None or b.hi is None else max(a.hi, b.hi)
        return V("(if %s then %s else %s)" % (self.convert(c, "bool").code, a.code, b.code), a.ty, lo, hi, root=a.root, pointee=a.pointee)

    def is_pure(self, n):
        """no memory access, no side effect, no call of a function that can fail"""
        if not isinstance(n, dict):
            return True
        k = n.get("kind")
        if k == "UnaryOperator" and n.get("opcode") in ("*", "++", "--"):
            return False
        if k == "BinaryOperator" and n.get("opcode") == "=":
            return False
        if k == "CompoundAssignOperator":
            return False
        if k == "CallExpr":
            callee = self.callee_name(n)
            if self.kinds.get(callee, ("?",))[0] != "pure":
                return False
            return all(self.is_pure(c) for c in n["inner"][1:])
        return all(self.is_pure(c) for c in n.get("inner", []) or [])

    def checked(self, v, env, k):
        """int value: range check unless the interval shows it cannot overflow"""
        if v.lo is not None and INT_MIN <= v.lo and v.hi <= INT_MAX:
            return k(v, env)
        if self.no_check:
            raise NeedCheck()
        self.impure = True
        t = self.tmp("i")
        return ("match ckInt %s with\n| .error e => .error e\n| .ok %s =>\n" % (paren(v.code), t)
                + indent(k(V(t, "int", INT_MIN, INT_MAX), env)))

    def lvalue_var(self, n):
        while n.get("kind") == "ParenExpr":
            n = n["inner"][0]
        if n.get("kind") == "DeclRefExpr":
            return n["referencedDecl"]["name"]
        return None

    def rvalue(self, n, env, k):
        """value of the lvalue expression n"""
        name = self.lvalue_var(n)
        if name is not None:
            if name == "npos" and name not in env and ntype(n) == "ulong":
                return k(V.k(M64 - 1, "ulong"), env)        # static const size_t npos = (size_t) -1 (shape-checked by extract_string_consts)
            if name not in env:
                self.err("unknown variable %s" % name, n)
            return k(env[name], env)
        while n.get("kind") == "ParenExpr":
            n = n["inner"][0]
        if n.get("kind") == "ArraySubscriptExpr":
            base, idx = n["inner"]

            def sub(p, e):
                def at(i, e2):
                    if p.ty != "ptr" or i.ty != "ulong":
                        self.err("subscript of something that is not pointer[size_t]", n)
                    return self.read(V("%s + %s" % (paren(p.code), paren(i.code)), "ptr", root=p.root, pointee=p.pointee), e2, k, n)
                return self.expr(idx, e, at)
            return self.expr(base, env, sub)
        if n.get("kind") == "UnaryOperator" and n["opcode"] == "*":
            def rd(p, e):
                return self.read(p, e, k, n)
            return self.expr(n["inner"][0], env, rd)
        if n.get("kind") == "UnaryOperator" and n["opcode"] in ("++", "--") and not n.get("isPostfix"):
            return self.incdec(n, env, k)
        self.err("lvalue %s is outside the subset" % n.get("kind"), n)

    def read(self, p, env, k, n):
        if p.ty != "ptr" or p.null or p.pointee not in ("char", "uchar"):
            self.err("dereference of something that is not a char pointer", n)
        self.impure = True
        t = self.tmp("c")
        f = "rdN null_%s" % p.root if p.root in self.nullable else "rd"
        return ("match %s %s %s with\n| .error e => .error e\n| .ok %s =>\n" % (f, paren(self.mem(env, p.root)), paren(p.code), t)
                + indent(k(V(t, p.pointee, 0, 255), env)))

    def incdec(self, n, env, k):
        name = self.lvalue_var(n["inner"][0])
        if name is None or name not in env:
            self.err("++/-- of something that is not a local variable", n)
        v = env[name]
        up = n["opcode"] == "++"
        if v.ty == "ptr":
            if not up:
                self.err("pointer decrement is outside the subset", n)
            nv = V("%s + 1" % v.code, "ptr", root=v.root, pointee=v.pointee)
        elif v.ty == "ulong":
            nv = V("(%s + %d) %% %d" % (v.code, 1 if up else M64 - 1, M64), "ulong", 0, M64 - 1)
        else:
            self.err("++/-- on %s is outside the subset" % v.ty, n)
        e = dict(env)
        e[name] = nv
        return k(v if n.get("isPostfix") else nv, e)

    def assign_var(self, name, v, env, n):
        if name not in env:
            self.err("assignment to unknown variable %s" % name, n)
        old = env[name]
        if old.ty == "ptr":
            if v.ty != "ptr" or v.null or v.root != old.root:
                self.err("pointer assignment that changes the underlying buffer", n)
            nv = V(v.code, "ptr", root=old.root, pointee=old.pointee)
        else:
            nv = self.convert(v, old.ty)
        e = dict(env)
        e[name] = nv
        return nv, e

    def binop(self, n, env, k):
        op = n["opcode"]
        a, b = n["inner"]
        if op == "=":
            def after_rhs(v, e):
                name = self.lvalue_var(a)
                if name is not None:
                    nv, e2 = self.assign_var(name, v, e, n)
                    return k(nv, e2)
                t = a
                while t.get("kind") == "ParenExpr":
                    t = t["inner"][0]
                if t.get("kind") == "UnaryOperator" and t["opcode"] == "*":
                    def wr(p, e2):
                        if p.ty != "ptr" or p.null or p.pointee not in ("char", "uchar") or p.root not in self.written:
                            self.err("write through something that is not a non-const char pointer parameter", n)
                        self.impure = True
                        m = self.tmp("m")
                        val = self.convert(v, p.pointee)
                        f = "wrN null_%s" % p.root if p.root in self.nullable else "wr"
                        e3 = dict(e2)
                        e3["mem_" + p.root] = V(m, "mem")
                        return ("match %s %s %s %s with\n| .error e => .error e\n| .ok %s =>\n"
                                % (f, paren(self.mem(e2, p.root)), paren(p.code), paren(val.code), m) + indent(k(val, e3)))
                    return self.expr(t["inner"][0], e, wr)
                self.err("assignment target is outside the subset", n)
            return self.expr(b, env, after_rhs)          # C++17: right operand first
        if op in ("&&", "||"):
            if self.is_pure(n):
                return self.expr(a, env, lambda va, e: self.expr(b, e, lambda vb, e2: k(
                    V("(%s %s %s)" % (self.convert(va, "bool").code, op, self.convert(vb, "bool").code), "bool"), e2)))
            self.err("&& / || with side effects or memory reads in a value position", n)
        if op == ",":
            self.err("comma operator", n)

        def both(va, e):
            return self.expr(b, e, lambda vb, e2: self.arith(op, va, vb, e2, k, n))
        return self.expr(a, env, both)

    def arith(self, op, a, b, env, k, n):
        if op in ("+", "-") and a.ty == "ptr" and b.ty == "ulong" and not a.null:
            if op == "+":
                return k(V("%s + %s" % (paren(a.code), paren(b.code)), "ptr", root=a.root, pointee=a.pointee), env)
            self.impure = True
            t = self.tmp("q")       # a pointer before the start of its buffer is outside the model: Err.oob
            return ("match psub %s %s with\n| .error e => .error e\n| .ok %s =>\n" % (paren(a.code), paren(b.code), t)
                    + indent(k(V(t, "ptr", root=a.root, pointee=a.pointee), env)))
        if op in ("==", "!=") and (a.ty == "optptr" or b.ty == "optptr"):
            o, p = (a, b) if a.ty == "optptr" else (b, a)
            if p.ty == "ptr" and p.null:
                c = "(%s == none)" % o.code
            elif p.ty == "ptr" and p.root == o.root and p.root not in self.nullable:
                c = "(%s == some %s)" % (o.code, paren(p.code))
            else:
                self.err("comparison of a returned pointer with a pointer into another buffer", n)
            return k(V(c if op == "==" else "(!%s)" % c, "bool"), env)
        if op in ("==", "!=", "<", ">", "<=", ">="):
            if a.ty == "ptr" or b.ty == "ptr":
                if op not in ("==", "!="):
                    self.err("pointer ordering comparison", n)
                p, q = (a, b) if b.null else (b, a)
                if not q.null or p.null or p.root not in self.nullable:
                    self.err("pointer comparison other than parameter == NULL", n)
                c = "null_%s" % p.root
                return k(V(c if op == "==" else "(!%s)" % c, "bool"), env)
            if a.ty != b.ty:
                self.err("comparison of %s with %s (clang should have converted)" % (a.ty, b.ty), n)
            if a.ty in ("char", "uchar"):
                self.err("comparison on an unpromoted char", n)
            if a.const is not None and b.const is not None:
                r = {"==": a.const == b.const, "!=": a.const != b.const, "<": a.const < b.const, ">": a.const > b.const,
                     "<=": a.const <= b.const, ">=": a.const >= b.const}[op]
                return k(V.k(1 if r else 0, "bool"), env)
            lop = {"==": "==", "!=": "!=", "<": "<", ">": ">", "<=": "≤", ">=": "≥"}[op]
            if op in ("==", "!="):
                return k(V("(%s %s %s)" % (a.code, lop, b.code), "bool"), env)
            return k(V("decide (%s %s %s)" % (a.code, lop, b.code), "bool"), env)
        if op in ("+", "-", "*"):
            if a.ty != b.ty or a.ty not in ("int", "uint", "ulong"):
                self.err("arithmetic %s on %s, %s is outside the subset" % (op, a.ty, b.ty), n)
            if a.const is not None and b.const is not None:
                r = {"+": a.const + b.const, "-": a.const - b.const, "*": a.const * b.const}[op]
                return k(V.k(r, a.ty), env)
            code = "%s %s %s" % (paren(a.code), op, paren(b.code))
            if a.ty == "int":
                cands = {"+": [a.lo + b.lo, a.hi + b.hi], "-": [a.lo - b.hi, a.hi - b.lo],
                         "*": [a.lo * b.lo, a.lo * b.hi, a.hi * b.lo, a.hi * b.hi]}[op]
                return self.checked(V(code, "int", min(cands), max(cands)), env, k)
            mod = M32 if a.ty == "uint" else M64
            if op == "-":
                code = "%s + %d - %s" % (paren(a.code), mod, paren(b.code))
            return k(V("(%s) %% %d" % (code, mod), a.ty, 0, mod - 1), env)
        self.err("binary operator %s is outside the subset" % op, n)

    def compound(self, n, env, k):
        op = n["opcode"]
        if op not in ("+=", "-=", "*="):
            self.err("compound assignment %s is outside the subset" % op, n)
        name = self.lvalue_var(n["inner"][0])
        if name is None or name not in env or env[name].ty not in ("int", "uint", "ulong"):
            self.err("compound assignment to something that is not an integer local", n)

        def after(v, e):
            cur = e[name]

            def store(r, e2):
                nv, e3 = self.assign_var(name, r, e2, n)
                return k(nv, e3)
            return self.arith(op[0], cur, self.convert(v, cur.ty) if v.ty != cur.ty else v, e, store, n)
        return self.expr(n["inner"][1], env, after)

    def callee_name(self, n):
        c = n["inner"][0]
        while c.get("kind") in PASS:
            c = c["inner"][0]
        if c.get("kind") != "DeclRefExpr":
            self.err("indirect call", n)
        return c["referencedDecl"]["name"]

    def call(self, n, env, k):
        name = self.callee_name(n)
        if name not in self.kinds:
            self.err("call of %s, which is not one of the translated primitives" % name, n)
        return self.do_call(name, None, n["inner"][1:], n, env, k)

    def member_call(self, n, env, k):
        m = n["inner"][0]
        if m.get("kind") != "MemberExpr":
            self.err("member call through something that is not a member expression", n)
        obj = m["inner"][0]
        while obj.get("kind") in PASS:
            obj = obj["inner"][0]
        if obj.get("kind") == "CXXThisExpr":
            if not self.is_method:
                self.err("use of this in a static function", n)
            root = "this"
        elif obj.get("kind") == "DeclRefExpr" and env.get(obj["referencedDecl"]["name"]) is not None and env[obj["referencedDecl"]["name"]].ty == "obj":
            root = obj["referencedDecl"]["name"]
        else:
            self.err("member call on something that is neither this nor a const SimpleString& parameter", n)
        name = m["name"]
        if name in BUFFER_GETTERS:
            if n["inner"][1:]:
                self.err("%s with arguments" % name, n)
            return k(V("0", "ptr", root=root, pointee="char"), env)      # body shape-checked: `return buffer_;`
        if "m_" + name not in self.kinds:
            self.err("call of method %s, which is not one of the translated methods" % name, n)
        return self.do_call("m_" + name, root, n["inner"][1:], n, env, k)

    def do_call(self, name, this_root, args, n, env, k):
        kind, ptypes, rkind, nullable, written, ret_root = self.kinds[name]
        if written:
            self.err("call of a writing primitive (%s)" % name, n)
        if len(args) != len(ptypes):
            self.err("call of %s with %d arguments" % (name, len(args)), n)

        def go(i, acc, e):
            if i == len(args):
                parts = []
                roots = {}
                if this_root is not None:
                    parts.append("mem_" + this_root)
                    roots["this"] = this_root
                for (pn, pt), v in zip(ptypes, acc):
                    if pt == ("obj",):
                        if v.ty != "obj":
                            self.err("non-object argument for %s" % name, n)
                        parts.append("mem_" + v.root)
                        roots[pn] = v.root
                    elif isinstance(pt, tuple):
                        if v.ty != "ptr" or v.null:
                            self.err("NULL / non-pointer argument for %s" % name, n)
                        if pn in nullable:
                            parts.append("null_%s" % v.root if v.root in self.nullable else "false")
                        parts.append(paren(self.mem(e, v.root)))
                        parts.append(paren(v.code))
                        roots[pn] = v.root
                    else:
                        parts.append(paren(self.convert(v, pt).code))
                if kind == "pure":
                    return k(V("%s %s" % (name, " ".join(parts)), rkind, *self.full(rkind)), e)
                self.impure = True
                self.uses_fuel = True
                t = self.tmp("r")
                if isinstance(rkind, tuple):
                    if ret_root is None or ret_root not in roots:
                        self.err("call of %s: cannot tell which buffer the returned pointer points into" % name, n)
                    res = V(t, "optptr", root=roots[ret_root])
                else:
                    res = V(t, rkind, *self.full(rkind))
                return ("match %s fuel0 %s with\n| .error e => .error e\n| .ok %s =>\n" % (name, " ".join(parts), t) + indent(k(res, e)))
            a = args[i]
            pt = ptypes[i][1]
            if pt == ("obj",):
                t = a
                while t.get("kind") in PASS:
                    t = t["inner"][0]
                if t.get("kind") == "CXXThisExpr" or (t.get("kind") == "UnaryOperator" and t.get("opcode") == "*"):
                    if not self.is_method:
                        self.err("*this in a static function", n)
                    return go(i + 1, acc + [V("this", "obj", root="this")], e)
                if t.get("kind") == "DeclRefExpr" and e.get(t["referencedDecl"]["name"]) is not None:
                    return go(i + 1, acc + [e[t["referencedDecl"]["name"]]], e)
                self.err("object argument that is neither *this nor a parameter", n)
            return self.expr(a, e, lambda v, e2: go(i + 1, acc + [v], e2))
        return go(0, [], env)

    # ----- conditions (short-circuit): kt(env), kf(env) -> code
    def cond(self, n, env, kt, kf):
        kind = n.get("kind")
        if kind == "ParenExpr":
            return self.cond(n["inner"][0], env, kt, kf)
        if kind == "BinaryOperator" and n["opcode"] == "&&" and not self.is_pure(n):
            return self.cond(n["inner"][0], env, lambda e: self.cond(n["inner"][1], e, kt, kf), kf)
        if kind == "BinaryOperator" and n["opcode"] == "||" and not self.is_pure(n):
            return self.cond(n["inner"][0], env, kt, lambda e: self.cond(n["inner"][1], e, kt, kf))
        if kind == "UnaryOperator" and n["opcode"] == "!" and not self.is_pure(n):
            return self.cond(n["inner"][0], env, kf, kt)

        def test(v, e):
            b = self.convert(v, "bool")
            if b.const is not None:
                return kt(e) if b.const else kf(e)
            return "if %s then\n%s\nelse\n%s" % (b.code, indent(kt(e)), indent(kf(e)))
        return self.expr(n, env, test)

    def counts(self, c):
        """how many times cond() instantiates its true / false continuation for condition c"""
        k = c.get("kind")
        if k == "ParenExpr":
            return self.counts(c["inner"][0])
        if self.is_pure(c):
            return (1, 1)
        if k == "BinaryOperator" and c["opcode"] in ("&&", "||"):
            (ta, fa), (tb, fb) = self.counts(c["inner"][0]), self.counts(c["inner"][1])
            return (ta * tb, fa + ta * fb) if c["opcode"] == "&&" else (ta + fa * tb, fa * fb)
        if k == "UnaryOperator" and c["opcode"] == "!":
            t, f = self.counts(c["inner"][0])
            return (f, t)
        return (1, 1)

    def always_returns(self, s):
        k = s.get("kind")
        if k == "ReturnStmt":
            return True
        if k == "CompoundStmt":
            inner = s.get("inner", []) or []
            return bool(inner) and self.always_returns(inner[-1])
        if k == "IfStmt" and len(s["inner"]) == 3:
            return self.always_returns(s["inner"][1]) and self.always_returns(s["inner"][2])
        return False

    def join(self, k, node):
        """the continuation k is needed on several paths: emit it once as a function of the variables in scope"""
        if self.in_body:
            self.err("several paths fall through to the rest of a loop body (join inside a loop is outside the subset)", node)
        self.njoin += 1
        self.impure = True
        name = "%s_k%d" % (self.name, self.njoin)
        names, types = self.state_names(), self.state_types()
        saved = list(self.order)
        code = k(self.ident_env())
        self.order = saved
        fixed = " ".join(n for n, _ in self.fixed_sig())
        sig = " ".join("(%s : %s)" % p for p in [("fuel0", "Nat")] + self.fixed_sig() + list(zip(names, types)))
        self.defs.append("def %s %s : Except Err %s :=\n%s\n" % (name, sig, self.ret_type(), indent(code)))
        return lambda e: "%s fuel0 %s %s" % (name, fixed, " ".join(paren(e[x].code) for x in names))

    is_last = False
    no_check = False

    def leave_body(self, f):
        self.in_body -= 1
        r = f()
        self.in_body += 1
        return r

    # ----- statements: k(env) = what happens when control falls off the end
    def stmts(self, lst, env, k):
        if not lst:
            return k(env)
        s, rest = lst[0], lst[1:]

        def cont(e):
            return self.stmts(rest, e, k)
        return self.stmt(s, env, cont)

    def stmt(self, s, env, k):
        kind = s.get("kind")
        if kind == "CompoundStmt":
            inner = s.get("inner", []) or []
            # locals declared inside a nested block are not supported (none of the primitives has any)
            if any(c.get("kind") == "DeclStmt" for c in inner) and s is not self.body:
                self.err("declaration inside a nested block", s)
            return self.stmts(inner, env, k)
        if kind == "NullStmt":
            return k(env)
        if kind == "ReturnStmt":
            if not s.get("inner"):
                self.err("return without a value", s)
            return self.expr(s["inner"][0], env, lambda v, e: ".ok %s" % paren(self.ret_code(v, e)))
        if kind == "DeclStmt":
            decls = s.get("inner", [])
            if len(decls) != 1 or decls[0].get("kind") != "VarDecl" or not decls[0].get("inner"):
                self.err("declaration without initialiser / several declarators", s)
            d = decls[0]
            name, t = d["name"], ntype(d)
            if name in env:
                self.err("shadowing declaration of %s" % name, s)

            def bind(v, e):
                e2 = dict(e)
                if isinstance(t, tuple):
                    if v.ty != "ptr" or v.null:
                        self.err("pointer local initialised with something that is not derived from a parameter", s)
                    pk = {"char": "char", "unsigned char": "uchar", "void": "void"}[t[1]]
                    self.roots[name], self.pointee[name] = v.root, pk
                    e2[name] = V(v.code, "ptr", root=v.root, pointee=pk)
                else:
                    e2[name] = self.convert(v, t)
                self.order.append((name, t))
                r = k(e2)
                return r
            return self.expr(d["inner"][0], env, bind)
        if kind == "IfStmt":
            inner = s["inner"]
            if len(inner) not in (2, 3) or s.get("hasInit") or s.get("hasVar"):
                self.err("if statement with init / condition variable", s)
            c, th = inner[0], inner[1]
            el = inner[2] if len(inner) == 3 else None
            nt, nf = self.counts(c)
            uses = (0 if self.always_returns(th) else nt) + (nf if el is None or not self.always_returns(el) else 0)
            if uses > 1 and not self.is_last:
                k = self.join(k, s)
            return self.cond(c, env, lambda e: self.stmt(th, e, k), (lambda e: self.stmt(el, e, k)) if el else k)
        if kind in ("WhileStmt", "DoStmt", "ForStmt"):
            return self.loop(s, env, k)
        if kind in ("BreakStmt", "ContinueStmt", "GotoStmt", "SwitchStmt"):
            self.err("%s is outside the subset" % kind, s)
        # expression statement
        return self.expr(s, env, lambda v, e: k(e))

    def loop(self, s, env, k):
        kind = s["kind"]
        self.nloops += 1
        self.uses_fuel = True
        self.impure = True
        lname = "%s_loop%d" % (self.name, self.nloops)
        names, types = self.state_names(), self.state_types()
        depth = len(self.order)
        fixed = " ".join(n for n, _ in self.fixed_sig())
        inner = s["inner"]
        if kind == "WhileStmt":
            if len(inner) != 2:
                self.err("while with a condition variable", s)
            pre, c, inc, body, post_test = None, inner[0], None, inner[1], False
        elif kind == "DoStmt":
            pre, c, inc, body, post_test = None, inner[1], None, inner[0], True
        else:
            if len(inner) != 5 or inner[1]:
                self.err("for statement with a condition variable", s)
            pre, c, inc, body, post_test = inner[0] or None, inner[2] or None, inner[3] or None, inner[4], False
            if pre and pre.get("kind") == "DeclStmt":
                # the loop variable is declared in the enclosing scope of the emitted code (a name clash is refused)
                return self.stmt(pre, env, lambda e: self.loop(dict(s, inner=[None, None] + inner[2:]), e, k))

        def again(e):
            if len(self.order) != depth:
                self.err("declaration inside a loop body", s)
            return "%s fuel0 %s fuel %s" % (lname, fixed, " ".join(paren(e[x].code) for x in names))

        def step(e):
            if inc:
                return self.expr(inc, e, lambda v, e2: again(e2))
            return again(e)

        def run_body(e):
            self.in_body += 1
            r = self.stmt(body, e, step)
            self.in_body -= 1
            return r

        def test(e, kt):
            if c is None:
                return kt(e)
            return self.cond(c, e, kt, k)

        def entry(e):
            return "%s fuel0 %s fuel0 %s" % (lname, fixed, " ".join(paren(e[x].code) for x in names))

        # the code after the loop (k) is inlined into the loop function at its exit; when the condition
        # leaves the loop on several paths it is emitted once as a separate function
        if c is not None and self.counts(c)[1] > 1:
            k = self.join(k, s)
        ident = self.ident_env()
        if post_test:
            self.in_body += 1
            code = self.stmt(body, ident, lambda e: self.leave_body(lambda: test(e, again)))
            self.in_body -= 1
        else:
            code = test(ident, run_body)
        sig = " → ".join(["Nat"] + types + ["Except Err %s" % self.ret_type()])
        pats0 = ", ".join(["0"] + ["_"] * len(names))
        pats1 = ", ".join(["fuel + 1"] + names)
        fx = " ".join("(%s : %s)" % p for p in [("fuel0", "Nat")] + self.fixed_sig())
        self.defs.append("def %s %s : %s\n  | %s => .error .fuel\n  | %s =>\n%s\n" % (lname, fx, sig, pats0, pats1, indent(code, 4)))
        if pre:
            return self.expr(pre, env, lambda v, e: entry(e))
        return entry(env)

    # ----- whole function
    def translate(self):
        env = {}
        sig = []
        for p in self.params:
            name, t = p["name"], ntype(p)
            if t == ("obj",):
                env[name] = V(name, "obj", root=name)
                sig.append(("mem_" + name, "Buf"))
                continue
            if isinstance(t, tuple):
                pk = {"char": "char", "unsigned char": "uchar", "void": "void"}[t[1]]
                self.roots[name], self.pointee[name] = name, pk
                env[name] = V(name, "ptr", root=name, pointee=pk)
                if name in self.nullable:
                    sig.append(("null_" + name, "Bool"))
                sig.append(("mem_" + name, "Buf"))
                sig.append((name, "Nat"))
                if name in self.written:
                    env["mem_" + name] = V("mem_" + name, "mem")
            else:
                env[name] = V(name, t, *self.full(t))
                sig.append((name, LEAN_TY[t]))
            self.order.append((name, t))

        if self.is_method:
            sig.insert(0, ("mem_this", "Buf"))

        def fall(e):
            self.err("control reaches the end of a non-void function")
        code = self.stmt(self.body, env, fall)
        pure = not self.impure
        if pure:
            if not code.startswith(".ok "):
                self.err("internal: pure function did not reduce to a single return")
            head = "def %s %s : %s :=\n%s\n" % (self.name, " ".join("(%s : %s)" % p for p in sig), self.ret_type(), indent(code[4:]))
        else:
            head = "def %s (fuel0 : Nat) %s : Except Err %s :=\n%s\n" % (
                self.name, " ".join("(%s : %s)" % p for p in sig), self.ret_type(), indent(code))
        if len(self.ret_roots) > 1:
            self.err("returns pointers into different buffers")
        info = ("pure" if pure else "loop", [(p["name"], ntype(p)) for p in self.params], self.ret, set(self.nullable), set(self.written),
                (sorted(self.ret_roots) or [None])[0])
        return "\n".join(self.defs) + ("\n" if self.defs else "") + head, info


def indent(code, n=2):
    pad = " " * n
    return "\n".join(pad + l if l else l for l in code.split("\n"))


def sig_types(sig):
    """parameter TYPES and result type of an emitted signature (parameter names may change freely)"""
    return re.sub(r"\((\w+) : ", "(", sig)


def normalized_body(decl_src):
    return "".join(decl_src.split())


def extract():
    docs = clang_ast()
    bodies = {}
    for d in docs:
        if d.get("kind") == "CXXMethodDecl" and d.get("name") in ALL + METHODS + list(BUFFER_GETTERS) \
                and any(c.get("kind") == "CompoundStmt" for c in d.get("inner", [])):
            if d["name"] in bodies:
                raise TranslateError("two definitions of SimpleString::%s" % d["name"])
            bodies[d["name"]] = d
    missing = [f for f in ALL + METHODS + list(BUFFER_GETTERS) if f not in bodies]
    if missing:
        raise TranslateError("definition not found: " + ", ".join(missing))
    # the two buffer getters must be `return buffer_;` / `return getBuffer();`
    def single_return(d):
        body = [c for c in d["inner"] if c.get("kind") == "CompoundStmt"][0].get("inner", [])
        if len(body) != 1 or body[0].get("kind") != "ReturnStmt":
            raise TranslateError("%s is no longer a single return statement" % d["name"])
        t = body[0]["inner"][0]
        while t.get("kind") in PASS:
            t = t["inner"][0]
        return t
    t = single_return(bodies["getBuffer"])
    if t.get("kind") != "MemberExpr" or t.get("name") != "buffer_" or t["inner"][0].get("kind") != "CXXThisExpr":
        raise TranslateError("getBuffer() no longer returns buffer_")
    t = single_return(bodies["asCharString"])
    if t.get("kind") != "CXXMemberCallExpr" or t["inner"][0].get("name") != "getBuffer" or t["inner"][0]["inner"][0].get("kind") != "CXXThisExpr":
        raise TranslateError("asCharString() no longer returns getBuffer()")
    text = HEADER % ("translate/extract_string_prims.py", SRC)
    text += "import CppUModel.Model.CPrimSem\n"
    text += "set_option linter.unusedVariables false\n"
    text += "namespace Gen.StrPrims\nopen CStr CPrim\n\n"
    kinds = {}
    for f in ALL + METHODS:
        fn = Fn(bodies[f], kinds)
        code, info = fn.translate()
        if f in PURE_FUNCS and info[0] != "pure":
            raise TranslateError("%s is no longer a loop-free, memory-free expression" % f)
        kinds[fn.name] = info
        m = re.search(r"^def %s (.*) :=$" % re.escape(fn.name), code, re.M)
        if not m or sig_types(m.group(1)) != sig_types(INTERFACE.get(fn.name, "")):
            raise TranslateError("the interface of %s changed: expected `%s`, the current source gives `%s`"
                                 % (fn.name, INTERFACE.get(fn.name), m.group(1) if m else "?"))
        text += "/-- `SimpleString::%s` -/\n" % f + code + "\n"
    text += "end Gen.StrPrims\n"
    return text


def elaborates(text):
    """the generated module must elaborate before it replaces the previous one (the driver imports it: a module that
    does not compile would turn a verdict into a build error).  Returns None if fine / not checkable, else the error text."""
    path = os.path.join(core.LEAN, "CppUModel", "Gen", "StringPrims.lean")
    try:
        if open(path).read() == text:
            return None
    except OSError:
        pass
    import tempfile
    fd, tmp = tempfile.mkstemp(suffix=".lean", prefix="StringPrimsProbe")
    try:
        with os.fdopen(fd, "w") as f:
            f.write(text)
        p = subprocess.run(["lake", "env", "lean", tmp], cwd=core.LEAN, stdout=subprocess.PIPE, stderr=subprocess.STDOUT, text=True, timeout=600)
    except (OSError, subprocess.TimeoutExpired):
        return None
    finally:
        try:
            os.unlink(tmp)
        except OSError:
            pass
    if p.returncode == 0:
        return None
    errs = [l for l in p.stdout.split("\n") if "error" in l]
    if any("unknown module" in l or "object file" in l or "unknown package" in l for l in errs):
        return None          # library not built yet (fresh checkout): the normal build reports
    return " | ".join(errs[:3])[:600] or p.stdout[-300:]


def run():
    text = extract()
    bad = elaborates(text)
    if bad:
        raise TranslateError("the Lean text generated from the current source does not elaborate (previous Gen/StringPrims.lean kept): " + bad)
    core.write_if_changed(os.path.join(core.LEAN, "CppUModel", "Gen", "StringPrims.lean"), text)
    return []


if __name__ == "__main__":
    print(extract())
