"""Regenerates lean/CppUModel/Gen/FailableCode.lean: Lean definitions TRANSLATED from the bodies of the
functions the C15 model was written from (token-level C front end + symbolic execution of the
loop-free bodies; the two list loops are recognised as idioms whose parametric parts are translated).

    src/CppUTest/TestMemoryAllocator.cpp   LocationToFailAllocNode::{init, failAtAllocNumber, failNthAllocAt, shouldFail}
                                           FailableMemoryAllocator::{failAllocNumber, failNthAllocAt, alloc_memory,
                                           checkAllFailedAllocsWereDone, clearFailedAllocs}, the constructor's initialisers
    src/CppUTest/TestHarness_c.cpp         cpputest_malloc_set_out_of_memory, ..._set_not_out_of_memory,
                                           ..._set_out_of_memory_countdown, countdown, cpputest_malloc_location,
                                           cpputest_malloc_count_reset / get_count, strdup_alloc, cpputest_strdup_location,
                                           cpputest_strndup_location, cpputest_calloc_location, cpputest_realloc_location,
                                           cpputest_free_location, the six <unknown>:0 wrappers

Every definition is compared with the hand model by a theorem of CppUModel/Props/C15.lean (section
"regenerated code"), so an edit of one of these bodies either changes the generated term (the equality
proof breaks) or is not understood (TranslateError); both are handled like a broken obligation.
"""
import os, re
from .common import *

SRC_A = "src/CppUTest/TestMemoryAllocator.cpp"
SRC_C = "src/CppUTest/TestHarness_c.cpp"

# ----------------------------------------------------------------------------- tokens

TOK = re.compile(r'\s*(?:(\d+[uUlL]*)|([A-Za-z_][A-Za-z_0-9]*(?:::~?[A-Za-z_][A-Za-z_0-9]*)*)|("(?:\\.|[^"\\])*")|(\'(?:\\.|[^\'\\])*\')|'
                 r'(\+\+|--|->|==|!=|<=|>=|&&|\|\||[-+*/%!<>=&|(){}\[\];,.?:~]))')

TYPEWORDS = {"char", "int", "void", "size_t", "unsigned", "const", "long", "bool", "static",
             "LocationToFailAllocNode", "UtestShell", "SimpleString", "TestMemoryAllocator"}


def tokenize(text):
    out, i = [], 0
    text = text.rstrip()
    while i < len(text):
        m = TOK.match(text, i)
        if not m:
            if text[i:].strip() == "":
                break
            raise TranslateError("cannot tokenize: %r" % text[i:i + 30])
        i = m.end()
        if m.group(1):
            out.append(("num", int(re.sub(r"[uUlL]", "", m.group(1)))))
        elif m.group(2):
            out.append(("id", m.group(2)))
        elif m.group(3):
            out.append(("str", m.group(3)[1:-1]))
        elif m.group(4):
            out.append(("chr", m.group(4)[1:-1]))
        else:
            out.append(("op", m.group(5)))
    return out


# ----------------------------------------------------------------------------- parser
# expressions: ("num", n) ("str", s) ("chr", c) ("id", name) ("call", fn_expr, [args]) ("mem", obj, field)
#              ("un", op, e) ("post", op, e) ("bin", op, a, b) ("cast", type_text, e) ("assign", lhs, rhs)
#              ("sizeof", text) ("cond", c, a, b) ("index", a, i)
# statements:  ("block", [s]) ("if", c, then, else|None) ("while", c, body) ("return", e|None)
#              ("decl", type_text, name, init|None) ("expr", e)

class Parser:
    def __init__(self, toks):
        self.t, self.i = toks, 0

    def peek(self, k=0):
        return self.t[self.i + k] if self.i + k < len(self.t) else ("eof", None)

    def at(self, kind, val=None, k=0):
        p = self.peek(k)
        return p[0] == kind and (val is None or p[1] == val)

    def eat(self, kind, val=None):
        if not self.at(kind, val):
            raise TranslateError("expected %s %s, found %r" % (kind, val or "", self.peek()))
        self.i += 1
        return self.t[self.i - 1]

    # --- types
    def type_ahead(self, k=0):
        """length (in tokens) of a type at offset k, or 0"""
        n = 0
        while self.at("id", None, k + n) and self.peek(k + n)[1] in TYPEWORDS:
            n += 1
        if n == 0:
            return 0
        while self.at("op", "*", k + n) or (self.at("id", "const", k + n)):
            n += 1
        return n

    def type_text(self, n):
        s = "".join(str(self.t[self.i + j][1]) + ("" if self.t[self.i + j][1] == "*" else " ") for j in range(n)).strip()
        self.i += n
        return s.replace(" *", "*")

    # --- expressions
    def expr(self):
        return self.assign()

    def assign(self):
        lhs = self.cond()
        if self.at("op", "="):
            self.i += 1
            return ("assign", lhs, self.assign())
        return lhs

    def cond(self):
        c = self.binary(0)
        if self.at("op", "?"):
            self.i += 1
            a = self.assign()
            self.eat("op", ":")
            b = self.assign()
            return ("cond", c, a, b)
        return c

    LEVELS = [["||"], ["&&"], ["==", "!="], ["<", "<=", ">", ">="], ["+", "-"], ["*", "/", "%"]]

    def binary(self, lvl):
        if lvl == len(self.LEVELS):
            return self.unary()
        a = self.binary(lvl + 1)
        while self.peek()[0] == "op" and self.peek()[1] in self.LEVELS[lvl]:
            op = self.eat("op")[1]
            b = self.binary(lvl + 1)
            a = ("bin", op, a, b)
        return a

    def unary(self):
        if self.at("op", "("):
            n = self.type_ahead(1)
            if n and self.at("op", ")", 1 + n):
                self.i += 1
                ty = self.type_text(n)
                self.eat("op", ")")
                return ("cast", ty, self.unary())
        for op in ("!", "-", "*", "&", "++", "--"):
            if self.at("op", op):
                self.i += 1
                return ("un", op, self.unary())
        return self.postfix()

    def postfix(self):
        e = self.primary()
        while True:
            if self.at("op", "("):
                self.i += 1
                args = []
                if not self.at("op", ")"):
                    args.append(self.assign())
                    while self.at("op", ","):
                        self.i += 1
                        args.append(self.assign())
                self.eat("op", ")")
                e = ("call", e, args)
            elif self.at("op", "->") or self.at("op", "."):
                op = self.eat("op")[1]
                e = ("mem", e, self.eat("id")[1], op)
            elif self.at("op", "["):
                self.i += 1
                ix = self.expr()
                self.eat("op", "]")
                e = ("index", e, ix)
            elif self.at("op", "++") or self.at("op", "--"):
                e = ("post", self.eat("op")[1], e)
            else:
                return e

    def primary(self):
        p = self.peek()
        if p[0] in ("num", "str", "chr"):
            self.i += 1
            return p
        if p[0] == "id":
            self.i += 1
            if p[1] == "sizeof":
                self.eat("op", "(")
                depth, txt = 1, []
                while depth:
                    q = self.t[self.i]
                    self.i += 1
                    if q == ("op", "("):
                        depth += 1
                    elif q == ("op", ")"):
                        depth -= 1
                        if depth == 0:
                            break
                    txt.append(str(q[1]))
                return ("sizeof", "".join(txt))
            return ("id", p[1])
        if self.at("op", "("):
            self.i += 1
            e = self.expr()
            self.eat("op", ")")
            return e
        raise TranslateError("unexpected token %r" % (p,))

    # --- statements
    def stmt(self):
        if self.at("op", "{"):
            self.i += 1
            body = []
            while not self.at("op", "}"):
                body.append(self.stmt())
            self.i += 1
            return ("block", body)
        if self.at("id", "if"):
            self.i += 1
            self.eat("op", "(")
            c = self.expr()
            self.eat("op", ")")
            th = self.stmt()
            el = None
            if self.at("id", "else"):
                self.i += 1
                el = self.stmt()
            return ("if", c, th, el)
        if self.at("id", "while"):
            self.i += 1
            self.eat("op", "(")
            c = self.expr()
            self.eat("op", ")")
            return ("while", c, self.stmt())
        if self.at("id", "return"):
            self.i += 1
            e = None
            if not self.at("op", ";"):
                e = self.expr()
            self.eat("op", ";")
            return ("return", e)
        if self.at("id") and self.peek()[1] in ("for", "do", "switch", "goto", "break", "continue", "try", "throw"):
            raise TranslateError("statement kind not understood: " + self.peek()[1])
        n = self.type_ahead(0)
        if n and self.at("id", None, n) and (self.at("op", "=", n + 1) or self.at("op", ";", n + 1)):
            ty = self.type_text(n)
            name = self.eat("id")[1]
            init = None
            if self.at("op", "="):
                self.i += 1
                init = self.expr()
            self.eat("op", ";")
            return ("decl", ty, name, init)
        e = self.expr()
        self.eat("op", ";")
        return ("expr", e)

    def body(self):
        out = []
        while not self.at("eof"):
            out.append(self.stmt())
        return out


def parse_body(text):
    return Parser(tokenize(text)).body()


def flat(stmts):
    """blocks flattened (declarations in these functions have function scope anyway)"""
    out = []
    for s in stmts:
        if s[0] == "block":
            out += flat(s[1])
        else:
            out.append(s)
    return out


def canon_locals(stmts):
    """rename the locals declared in a statement list to v0, v1, … in order of declaration (idiom matching must not
    depend on what a local is called)"""
    names = {}

    def collect(s):
        if isinstance(s, tuple):
            if s and s[0] == "decl" and s[2] not in names:
                names[s[2]] = "v%d" % len(names)
            for x in s:
                collect(x)
        elif isinstance(s, list):
            for x in s:
                collect(x)

    def ren(s):
        if isinstance(s, tuple):
            if s and s[0] == "id" and s[1] in names:
                return ("id", names[s[1]])
            if s and s[0] == "decl":
                return ("decl", s[1], names.get(s[2], s[2]), ren(s[3]))
            if s and s[0] == "mem":
                return ("mem", ren(s[1]), s[2], s[3])
            return tuple(ren(x) if i else x for i, x in enumerate(s))
        if isinstance(s, list):
            return [ren(x) for x in s]
        return s
    collect(stmts)
    return ren(stmts)


def show(e):
    """compact text of an expression / statement (for messages and idiom matching)"""
    k = e[0]
    if k in ("num",):
        return str(e[1])
    if k == "str":
        return '"%s"' % e[1]
    if k == "chr":
        return "'%s'" % e[1]
    if k == "id":
        return e[1]
    if k == "call":
        return "%s(%s)" % (show(e[1]), ",".join(show(a) for a in e[2]))
    if k == "mem":
        return "%s%s%s" % (show(e[1]), e[3], e[2])
    if k == "un":
        return "%s%s" % (e[1], show(e[2]))
    if k == "post":
        return "%s%s" % (show(e[2]), e[1])
    if k == "bin":
        return "(%s%s%s)" % (show(e[2]), e[1], show(e[3]))
    if k == "cast":
        return "(%s)%s" % (e[1].replace(" ", ""), show(e[2]))
    if k == "assign":
        return "%s=%s" % (show(e[1]), show(e[2]))
    if k == "sizeof":
        return "sizeof(%s)" % e[1]
    if k == "cond":
        return "(%s?%s:%s)" % (show(e[1]), show(e[2]), show(e[3]))
    if k == "index":
        return "%s[%s]" % (show(e[1]), show(e[2]))
    if k == "block":
        return "{%s}" % "".join(show(s) for s in e[1])
    if k == "if":
        return "if(%s)%s%s" % (show(e[1]), show(e[2]), ("else" + show(e[3])) if e[3] else "")
    if k == "while":
        return "while(%s)%s" % (show(e[1]), show(e[2]))
    if k == "return":
        return "return%s;" % ((" " + show(e[1])) if e[1] else "")
    if k == "decl":
        return "%s %s%s;" % (e[1], e[2], ("=" + show(e[3])) if e[3] else "")
    if k == "expr":
        return show(e[1]) + ";"
    raise TranslateError("show: " + repr(e))


# ----------------------------------------------------------------------------- symbolic execution
# A symbolic state is (base, mods): a Lean term `base` of the record type and a dict field -> Lean term.

class Sym:
    def __init__(self, base, mods=None):
        self.base, self.mods = base, dict(mods or {})

    def get(self, f):
        return self.mods[f] if f in self.mods else "%s.%s" % (self.base if re.fullmatch(r"\w+", self.base) else "(" + self.base + ")", f)

    def set(self, f, v):
        s = Sym(self.base, self.mods)
        s.mods[f] = v
        return s

    def term(self, order):
        if not self.mods:
            return self.base
        return "{ %s with %s }" % (self.base, ", ".join("%s := %s" % (f, self.mods[f]) for f in order if f in self.mods))


def coerce(a, ta, b, tb):
    """make two numeric operands comparable"""
    if ta == tb:
        return a, b, ta
    if {ta, tb} == {"Nat", "Int"}:
        if ta == "Nat":
            a = "((%s : Nat) : Int)" % a
        else:
            b = "((%s : Nat) : Int)" % b
        return a, b, "Int"
    raise TranslateError("operands of types %s / %s" % (ta, tb))


class Exec:
    """symbolic execution of a loop-free body over ONE record (`fields`: C name -> (lean field, type)),
    parameters / bound names (`names`: C name -> (lean term, type)) and translated callees."""

    def __init__(self, what, fields, order, names, consts, calls=None, ret_type=None, getters=None):
        self.what, self.fields, self.order = what, fields, order
        self.names, self.consts = dict(names), consts
        self.calls = calls or {}          # C function name -> lean function applied to the state (state transformer)
        self.getters = getters or {}      # C call text -> (lean term builder(state), type)
        self.ret_type = ret_type

    def err(self, msg):
        raise TranslateError("%s: %s" % (self.what, msg))

    # --- expressions: returns (lean term, type); type Bool means a decidable Prop
    def ex(self, e, st):
        k = e[0]
        if k == "num":
            return str(e[1]), "Lit"
        if k == "id":
            n = e[1]
            if n in self.names:
                return self.names[n]
            if n in self.fields:
                f, ty = self.fields[n]
                return st.get(f), ty
            if n in self.consts:
                return self.consts[n]
            if n in ("NULLPTR", "NULL"):
                return "none", "Null"
            if n in ("true", "false"):
                return ("True" if n == "true" else "False"), "Bool"
            self.err("unknown name " + n)
        if k == "cast":
            return self.ex(e[2], st)      # casts between integer types / pointer types: no wrap inside the assumptions
        if k == "call":
            key = show(e)
            if key in self.getters:
                return self.getters[key](st)
            if show(e[1]) == "SimpleString::StrCmp" and len(e[2]) == 2:
                a, ta = self.ex(e[2][0], st)
                b, tb = self.ex(e[2][1], st)
                if ta != "Str" or tb != "Str":
                    self.err("StrCmp of non-strings")
                return (a, b), "StrCmp"
            self.err("call not understood in an expression: " + key)
        if k == "un" and e[1] == "!":
            a, ta = self.cond(e[2], st)
            return "¬ (%s)" % a, "Bool"
        if k == "bin":
            op = e[1]
            if op in ("&&", "||"):
                a, _ = self.cond(e[2], st)
                b, _ = self.cond(e[3], st)
                return "(%s %s %s)" % (a, "∧" if op == "&&" else "∨", b), "Bool"
            a, ta = self.ex(e[2], st)
            b, tb = self.ex(e[3], st)
            if op in ("==", "!="):
                neg = op == "!="
                if ta == "StrCmp" or tb == "StrCmp":
                    pair, other = (a, b) if ta == "StrCmp" else (b, a)
                    if other != "0":
                        self.err("StrCmp compared with something else than 0")
                    return "(%s %s %s)" % (pair[0], "≠" if neg else "=", pair[1]), "Bool"
                if "Null" in (ta, tb):
                    val, ty = (a, ta) if tb == "Null" else (b, tb)
                    if not ty.startswith("Opt"):
                        self.err("NULL compared with a non-pointer")
                    return "(%s %s none)" % (val, "≠" if neg else "="), "Bool"
                if ta == "Lit":
                    ta = tb
                if tb == "Lit":
                    tb = ta
                a, b, _ = coerce(a, ta, b, tb)
                return "(%s %s %s)" % (a, "≠" if neg else "=", b), "Bool"
            if op in ("<", "<=", ">", ">="):
                if ta == "Lit":
                    ta = tb
                if tb == "Lit":
                    tb = ta
                a, b, _ = coerce(a, ta, b, tb)
                return "(%s %s %s)" % (a, {"<": "<", "<=": "≤", ">": ">", ">=": "≥"}[op], b), "Bool"
            if op in ("+", "-", "*", "/"):
                if ta == "Lit":
                    ta = tb
                if tb == "Lit":
                    tb = ta
                if ta != tb or ta not in ("Nat", "Int", "U64"):
                    self.err("arithmetic on %s / %s" % (ta, tb))
                if ta == "Nat" and op == "-":
                    self.err("subtraction on a natural-number counter")
                return "(%s %s %s)" % (a, op, b), ta
        self.err("expression not understood: " + show(e))

    def cond(self, e, st):
        a, ta = self.ex(e, st)
        if ta == "Bool":
            return a, ta
        if ta.startswith("Opt"):
            return "(%s ≠ none)" % a, "Bool"
        if ta in ("Nat", "Int"):
            return "(%s ≠ 0)" % a, "Bool"
        self.err("condition of type %s: %s" % (ta, show(e)))

    def typed(self, val, ty, want):
        if ty == "Lit":
            return val
        if ty == want:
            return val
        if ty == "Nat" and want == "Int":
            return "((%s : Nat) : Int)" % val
        if want.startswith("Opt") and ty == "Null":
            return "none"
        if want.startswith("Opt") and ty == want[3:]:
            return "some %s" % val
        self.err("cannot store a %s into a %s" % (ty, want))

    # --- statements.  `k(st)` = what the rest of the function yields when control falls off the end
    def run(self, stmts, st, fall):
        if not stmts:
            return fall(st)
        s, rest = stmts[0], stmts[1:]
        k = s[0]
        if k == "block":
            return self.run(list(s[1]) + rest, st, fall)
        if k == "return":
            return self.ret(s[1], st)
        if k == "if":
            c = s[1]
            # `if (ptr)` on an optional field binds the pointee's name in the then-branch
            if c[0] == "id" and c[1] in self.fields and self.fields[c[1]][1] == "OptStr":
                f, _ = self.fields[c[1]]
                saved = dict(self.names)
                self.names[c[1]] = (c[1], "Str")
                th = self.run([s[2]] + rest, st, fall)
                self.names = saved
                el = self.run(([s[3]] if s[3] else []) + rest, st, fall)
                return "(match %s with\n    | some %s => %s\n    | none => %s)" % (st.get(f), c[1], th, el)
            cc, _ = self.cond(c, st)
            th = self.run([s[2]] + rest, st, fall)
            el = self.run(([s[3]] if s[3] else []) + rest, st, fall)
            return "(if %s then %s\n    else %s)" % (cc, th, el)
        if k == "expr":
            return self.run(rest, self.effect(s[1], st), fall)
        self.err("statement not understood: " + show(s))

    def effect(self, e, st):
        k = e[0]
        if k == "post" or (k == "un" and e[1] in ("++", "--")):
            op, tgt = (e[1], e[2])
            if tgt[0] != "id" or tgt[1] not in self.fields:
                self.err("increment of something that is not a modelled variable: " + show(e))
            f, ty = self.fields[tgt[1]]
            if op == "++":
                return st.set(f, "%s + 1" % st.get(f))
            if ty != "Int":
                self.err("decrement of a natural-number counter: " + show(e))
            return st.set(f, "%s - 1" % st.get(f))
        if k == "assign":
            tgt = e[1]
            if tgt[0] != "id" or tgt[1] not in self.fields:
                self.err("assignment to something that is not a modelled variable: " + show(e))
            f, ty = self.fields[tgt[1]]
            v, tv = self.ex(e[2], st)
            return st.set(f, self.typed(v, tv, ty))
        if k == "call":
            name = show(e[1])
            if name in self.calls:
                return self.calls[name](self, e[2], st)
        self.err("effect not understood: " + show(e))

    def ret(self, e, st):
        if self.ret_type is None:
            if e is not None:
                self.err("value returned from a void function")
            return st.term(self.order)
        v, tv = self.cond(e, st) if self.ret_type == "Bool" else self.ex(e, st)
        if self.ret_type == "Bool":
            v = "decide %s" % v if v not in ("True", "False") else v.lower()
        else:
            v = self.typed(v, tv, self.ret_type)
        return "(%s, %s)" % (st.term(self.order), v)

    def function(self, stmts, base):
        st = Sym(base)
        if self.ret_type is None:
            return self.run(stmts, st, lambda s: s.term(self.order))
        return self.run(stmts, st, lambda s: self.err("control reaches the end of a non-void function"))


# ----------------------------------------------------------------------------- the translation proper

NODE_FIELDS = {"allocNumberToFail_": ("number", "Int"), "actualAllocNumber_": ("actual", "Nat"),
               "file_": ("file", "OptStr"), "line_": ("line", "Nat")}
NODE_ORDER = ["number", "actual", "file", "line"]
C_FIELDS = {"malloc_out_of_memory_counter": ("counter", "Int"), "malloc_count": ("count", "Nat"),
            "originalAllocator": ("orig", "OptAlloc")}
C_ORDER = ["counter", "count", "cur", "orig"]
C_CONSTS = {"NO_COUNTDOWN": ("noCountdown", "Int"), "OUT_OF_MEMORRY": ("outOfMemory", "Int")}


def body_of(src, sig, what):
    try:
        return parse_body(function_body(src, sig))
    except TranslateError as e:
        raise TranslateError("%s: %s" % (what, e))


def call_state(fn):
    def f(ex, args, st):
        if args:
            ex.err("%s called with arguments" % fn)
        return Sym("%s %s" % (fn, atom(st.term(ex.order))))
    return f


def atom(t):
    return t if re.fullmatch(r"[\w.]+", t) else "(" + t + ")"


def set_current_malloc_allocator(ex, args, st):
    """setCurrentMallocAllocator(x): x = the null allocator's singleton, or a saved pointer (NULLPTR selects the default)"""
    if len(args) != 1:
        ex.err("setCurrentMallocAllocator: one argument expected")
    a = args[0]
    if show(a) == "NullUnknownAllocator::defaultAllocator()":
        return st.set("cur", "Failable.Alloc.null")
    if a[0] == "id" and a[1] in ex.fields and ex.fields[a[1]][1] == "OptAlloc":
        return st.set("cur", "(match %s with | none => Failable.Alloc.normal | some o => o)" % st.get(ex.fields[a[1]][0]))
    if show(a) in ("NULLPTR", "NULL"):
        return st.set("cur", "Failable.Alloc.normal")
    ex.err("setCurrentMallocAllocator(%s) not understood" % show(a))


def translate_c(c):
    out = []
    getters = {"getCurrentMallocAllocator()": lambda st: (st.get("cur"), "Alloc")}

    def mk(what, calls=None, names=None, ret=None):
        cl = {"setCurrentMallocAllocator": set_current_malloc_allocator}
        cl.update(calls or {})
        return Exec(what, C_FIELDS, C_ORDER, names or {}, C_CONSTS, calls=cl, ret_type=ret, getters=getters)

    # initial values of the three statics
    init = {}
    for var, field in (("malloc_out_of_memory_counter", "counter"), ("malloc_count", "count")):
        m = re.search(r"static\s+int\s+%s\s*=\s*(-?\w+)\s*;" % var, c)
        if not m:
            raise TranslateError("static int %s = …; not found" % var)
        v = m.group(1)
        init[field] = C_CONSTS[v][0] if v in C_CONSTS else str(int(v))
    m = re.search(r"static\s+TestMemoryAllocator\s*\*\s*originalAllocator\s*=\s*(\w+)\s*;", c)
    if not m or m.group(1) not in ("NULLPTR", "NULL", "0"):
        raise TranslateError("static TestMemoryAllocator* originalAllocator = NULLPTR; not found")
    out.append("/-- initial values of `malloc_out_of_memory_counter`, `malloc_count`, `originalAllocator` (the current malloc\n"
               "    allocator of a fresh process is a really allocating one) -/")
    out.append("def cinit : Failable.CState := { counter := %s, count := %s, cur := Failable.Alloc.normal, orig := none }"
               % (init["counter"], init["count"]))

    b = body_of(c, r"void\s+cpputest_malloc_set_out_of_memory\s*\(\s*\)\s*\{", "cpputest_malloc_set_out_of_memory")
    out.append("/-- `cpputest_malloc_set_out_of_memory` -/")
    out.append("def setOutOfMemory (c : Failable.CState) : Failable.CState :=\n  " + mk("cpputest_malloc_set_out_of_memory").function(b, "c"))

    b = body_of(c, r"void\s+cpputest_malloc_set_not_out_of_memory\s*\(\s*\)\s*\{", "cpputest_malloc_set_not_out_of_memory")
    out.append("/-- `cpputest_malloc_set_not_out_of_memory` -/")
    out.append("def setNotOutOfMemory (c : Failable.CState) : Failable.CState :=\n  " + mk("cpputest_malloc_set_not_out_of_memory").function(b, "c"))

    calls = {"cpputest_malloc_set_out_of_memory": call_state("setOutOfMemory")}
    b = body_of(c, r"void\s+cpputest_malloc_set_out_of_memory_countdown\s*\(\s*int\s+count\s*\)\s*\{", "cpputest_malloc_set_out_of_memory_countdown")
    out.append("/-- `cpputest_malloc_set_out_of_memory_countdown(count)` -/")
    out.append("def setCountdown (c : Failable.CState) (count : Int) : Failable.CState :=\n  "
               + mk("cpputest_malloc_set_out_of_memory_countdown", calls, {"count": ("count", "Int")}).function(b, "c"))

    b = body_of(c, r"static\s+void\s+countdown\s*\(\s*\)\s*\{", "countdown")
    out.append("/-- `countdown()` -/")
    out.append("def countdown (c : Failable.CState) : Failable.CState :=\n  " + mk("countdown", calls).function(b, "c"))

    b = body_of(c, r"void\s+cpputest_malloc_count_reset\s*\(\s*(?:void)?\s*\)\s*\{", "cpputest_malloc_count_reset")
    out.append("/-- `cpputest_malloc_count_reset` -/")
    out.append("def countReset (c : Failable.CState) : Failable.CState :=\n  " + mk("cpputest_malloc_count_reset").function(b, "c"))

    b = body_of(c, r"int\s+cpputest_malloc_get_count\s*\(\s*(?:void)?\s*\)\s*\{", "cpputest_malloc_get_count")
    out.append("/-- `cpputest_malloc_get_count` -/")
    t = mk("cpputest_malloc_get_count", ret="Nat").function(b, "c")
    out.append("def getCount (c : Failable.CState) : Failable.CState × Nat :=\n  " + t)

    # cpputest_malloc_location: statements before the final `return <allocating call>(size, file, line);`
    b = flat(body_of(c, r"void\s*\*\s*cpputest_malloc_location\s*\(\s*size_t\s+size\s*,\s*const\s+char\s*\*\s*file\s*,\s*size_t\s+line\s*\)\s*\{",
                     "cpputest_malloc_location"))
    if not b or b[-1][0] != "return" or show(b[-1][1]) != "cpputest_malloc_location_with_leak_detection(size,file,line)":
        raise TranslateError("cpputest_malloc_location does not end with `return cpputest_malloc_location_with_leak_detection(size, file, line);`")
    calls2 = dict(calls)
    calls2["countdown"] = call_state("countdown")
    out.append("/-- `cpputest_malloc_location`: the statements in front of the allocating call "
               "`cpputest_malloc_location_with_leak_detection(size, file, line)`,\n    which asks the CURRENT malloc allocator (field `cur` of the result) -/")
    out.append("def mallocState (c : Failable.CState) : Failable.CState :=\n  " + mk("cpputest_malloc_location", calls2).function(b[:-1], "c"))
    out.append("def mallocNull (c : Failable.CState) : Bool := decide ((mallocState c).cur = Failable.Alloc.null)")

    # strdup_alloc: malloc, NULL test, copy
    b = flat(body_of(c, r"static\s+char\s*\*\s*strdup_alloc\s*\([^)]*\)\s*\{", "strdup_alloc"))
    want = ["char* result=(char*)cpputest_malloc_location(size,file,line);", "if((result==NULLPTR))return NULLPTR;",
            "PlatformSpecificMemCpy(result,str,size);", "result[(size-1)]='\\0';", "return result;"]
    got = [show(s) for s in b]
    if got != want:
        raise TranslateError("strdup_alloc changed shape: " + " ".join(got))
    for fn, sig, lenexpr in (
            ("cpputest_strdup_location", r"char\s*\*\s*cpputest_strdup_location\s*\([^)]*\)\s*\{",
             ["size_t length=(1+test_harness_c_strlen(str));", "return strdup_alloc(str,length,file,line);"]),
            ("cpputest_strndup_location", r"char\s*\*\s*cpputest_strndup_location\s*\([^)]*\)\s*\{",
             ["size_t length=test_harness_c_strlen(str);", "length=((length<n)?length:n);", "length=(length+1);",
              "return strdup_alloc(str,length,file,line);"])):
        got = [show(s) for s in flat(body_of(c, sig, fn))]
        if got != lenexpr:
            raise TranslateError("%s changed shape: %s" % (fn, " ".join(got)))
    b = flat(body_of(c, r"static\s+size_t\s+test_harness_c_strlen\s*\([^)]*\)\s*\{", "test_harness_c_strlen"))
    if [show(s) for s in b] != ["size_t n=0;", "while(*str++)n++;", "return n;"]:
        raise TranslateError("test_harness_c_strlen changed shape")
    out.append("/-- `strdup_alloc` under `cpputest_strdup_location` / `cpputest_strndup_location`: one `cpputest_malloc_location`, NULL handed\n"
               "    through, otherwise `size - 1` bytes of the source followed by a terminator (`size` = 1 + strlen, resp. 1 + min(strlen, n)) -/")
    out.append("def strdup (c : Failable.CState) (str : List UInt8) : Failable.CState × Option (List UInt8) :=\n"
               "  (mallocState c, if mallocNull c then none else some (str.take (1 + str.length - 1) ++ [0]))")
    out.append("def strndup (c : Failable.CState) (str : List UInt8) (n : Nat) : Failable.CState × Option (List UInt8) :=\n"
               "  (mallocState c, if mallocNull c then none else some (str.take ((if str.length < n then str.length else n) + 1 - 1) ++ [0]))")

    # calloc: guard expression translated; then malloc of num*size, zero fill when not NULL
    b = flat(body_of(c, r"void\s*\*\s*cpputest_calloc_location\s*\([^)]*\)\s*\{", "cpputest_calloc_location"))
    if len(b) != 4 or b[0][0] != "if" or show(b[0][2]) != "return NULLPTR;" or b[0][3] is not None:
        raise TranslateError("cpputest_calloc_location: the overflow guard is no longer the first statement")
    rest = [show(s) for s in b[1:]]
    if rest != ["void* mem=cpputest_malloc_location((num*size),file,line);", "if(mem)PlatformSpecificMemset(mem,0,(num*size));", "return mem;"]:
        raise TranslateError("cpputest_calloc_location changed shape: " + " ".join(rest))
    g = Exec("cpputest_calloc_location guard", {}, [], {"size": ("size", "Nat"), "num": ("num", "Nat")}, {},
             getters={})
    guard = translate_guard(g, b[0][1])
    out.append("/-- the overflow guard of `cpputest_calloc_location` (64-bit `size_t`: `(size_t) -1` = 2^64 - 1) -/")
    out.append("def callocOverflows (num size : Nat) : Bool := decide %s" % guard)
    out.append("def calloc (c : Failable.CState) (num size : Nat) : Failable.CState × Option (List UInt8) :=\n"
               "  if callocOverflows num size then (c, none)\n"
               "  else (mallocState c, if mallocNull c then none else some (List.replicate (num * size) 0))")

    # realloc / free do not touch the countdown
    for fn, sig, want in (
            ("cpputest_realloc_location", r"void\s*\*\s*cpputest_realloc_location\s*\([^)]*\)\s*\{",
             ["return cpputest_realloc_location_with_leak_detection(memory,size,file,line);"]),
            ("cpputest_free_location", r"void\s+cpputest_free_location\s*\([^)]*\)\s*\{",
             ["cpputest_free_location_with_leak_detection(buffer,file,line);"])):
        got = [show(s) for s in flat(body_of(c, sig, fn))]
        if got != want:
            raise TranslateError("%s changed shape: %s" % (fn, " ".join(got)))
    out.append("/-- `cpputest_realloc_location` / `cpputest_free_location`: a single forwarding call, no countdown, no count -/")
    out.append("def reallocState (c : Failable.CState) : Failable.CState := c")
    out.append("def freeState (c : Failable.CState) : Failable.CState := c")

    # the <unknown>:0 wrappers forward to the _location functions with every argument in place
    wrappers = []
    for fn, args in (("malloc", "size"), ("strdup", "str"), ("strndup", "str,n"), ("calloc", "num,size"), ("realloc", "ptr,size"), ("free", "buffer")):
        sig = r"\b(?:void\s*\*|char\s*\*|void)\s*cpputest_%s\s*\([^)]*\)\s*\{" % fn
        got = [show(s) for s in flat(body_of(c, sig, "cpputest_" + fn))]
        want = 'cpputest_%s_location(%s,"<unknown>",0)' % (fn, args)
        if got != ["return %s;" % want] and got != [want + ";"]:
            raise TranslateError("cpputest_%s changed shape: %s" % (fn, " ".join(got)))
        wrappers.append(fn)
    out.append("/-- the wrappers without location forward to the `_location` functions with \"<unknown>\", 0 -/")
    out.append("def unknownWrappers : List String := [%s]" % ", ".join('"%s"' % w for w in wrappers))
    return out


def translate_guard(g, e):
    """calloc's guard: `size != 0 && num > ((size_t) -1) / size` over naturals with (size_t)-1 = 2^64 - 1"""
    def ex(e):
        k = e[0]
        if k == "bin" and e[1] in ("&&", "||"):
            return "(%s %s %s)" % (ex(e[2]), "∧" if e[1] == "&&" else "∨", ex(e[3]))
        if k == "bin" and e[1] in ("==", "!=", "<", "<=", ">", ">="):
            return "(%s %s %s)" % (num(e[2]), {"==": "=", "!=": "≠", "<": "<", "<=": "≤", ">": ">", ">=": "≥"}[e[1]], num(e[3]))
        raise TranslateError("calloc guard not understood: " + show(e))

    def num(e):
        k = e[0]
        if k == "num":
            return str(e[1])
        if k == "id" and e[1] in ("num", "size"):
            return e[1]
        if k == "cast" and e[1].replace(" ", "") == "size_t" and show(e[2]) == "-1":
            return "(2 ^ 64 - 1)"
        if k == "bin" and e[1] in ("/", "*", "+"):
            return "(%s %s %s)" % (num(e[2]), e[1], num(e[3]))
        raise TranslateError("calloc guard operand not understood: " + show(e))
    return ex(e)


def translate_a(a):
    out = []
    cls = re.search(r"class\s+LocationToFailAllocNode\s*\{(.*?)\n\};", a, re.S)
    if not cls:
        raise TranslateError("class LocationToFailAllocNode not found")
    cls = cls.group(1)
    # member types as modelled
    for decl in (r"int\s+allocNumberToFail_\s*;", r"int\s+actualAllocNumber_\s*;", r"const\s+char\s*\*\s*file_\s*;", r"size_t\s+line_\s*;",
                 r"LocationToFailAllocNode\s*\*\s*next_\s*;"):
        if not re.search(decl, cls):
            raise TranslateError("LocationToFailAllocNode: member no longer declared as " + decl)

    def node_exec(what, names, calls=None, ret=None):
        return Exec(what, NODE_FIELDS, NODE_ORDER, names, {}, calls=calls or {}, ret_type=ret)

    # init(next): every field set; `next_ = next` is the list link (handled by the list model)
    b = flat(body_of(cls, r"void\s+init\s*\(\s*LocationToFailAllocNode\s*\*\s*next\s*=\s*NULLPTR\s*\)\s*\{", "LocationToFailAllocNode::init"))
    links = [s for s in b if show(s) == "next_=next;"]
    if len(links) != 1 or show(b[-1]) != "next_=next;":
        raise TranslateError("LocationToFailAllocNode::init: `next_ = next;` is not its last statement")
    out.append("/-- `LocationToFailAllocNode::init` on the (uninitialised) memory of a fresh node; the link `next_ = next` is the list structure -/")
    out.append("def nodeInit (nd : Failable.Node) : Failable.Node :=\n  " + node_exec("LocationToFailAllocNode::init", {}).function(b[:-1], "nd"))

    def init_call(ex, args, st):
        if len(args) != 1 or show(args[0]) != "next":
            ex.err("init is not called with `next`")
        return Sym("nodeInit %s" % atom(st.term(ex.order)))

    b = body_of(cls, r"void\s+failAtAllocNumber\s*\(\s*int\s+number\s*,\s*LocationToFailAllocNode\s*\*\s*next\s*\)\s*\{", "LocationToFailAllocNode::failAtAllocNumber")
    out.append("/-- `LocationToFailAllocNode::failAtAllocNumber(number, next)` -/")
    out.append("def nodeFailAtAllocNumber (nd : Failable.Node) (number : Int) : Failable.Node :=\n  "
               + node_exec("LocationToFailAllocNode::failAtAllocNumber", {"number": ("number", "Int")}, {"init": init_call}).function(b, "nd"))
    b = body_of(cls, r"void\s+failNthAllocAt\s*\(\s*int\s+allocationNumber\s*,\s*const\s+char\s*\*\s*file\s*,\s*size_t\s+line\s*,\s*LocationToFailAllocNode\s*\*\s*next\s*\)\s*\{",
                "LocationToFailAllocNode::failNthAllocAt")
    out.append("/-- `LocationToFailAllocNode::failNthAllocAt(allocationNumber, file, line, next)` (file not NULL) -/")
    out.append("def nodeFailNthAllocAt (nd : Failable.Node) (allocationNumber : Int) (file : String) (line : Nat) : Failable.Node :=\n  "
               + node_exec("LocationToFailAllocNode::failNthAllocAt",
                           {"allocationNumber": ("allocationNumber", "Int"), "file": ("file", "Str"), "line": ("line", "Nat")},
                           {"init": init_call}).function(b, "nd"))

    b = body_of(cls, r"bool\s+shouldFail\s*\(\s*int\s+allocationNumber\s*,\s*const\s+char\s*\*\s*file\s*,\s*size_t\s+line\s*\)\s*\{", "LocationToFailAllocNode::shouldFail")
    out.append("/-- `LocationToFailAllocNode::shouldFail(allocationNumber, file, line)`: the node afterwards and the answer -/")
    out.append("def shouldFail (nd : Failable.Node) (allocationNumber : Nat) (file : String) (line : Nat) : Failable.Node × Bool :=\n  "
               + node_exec("LocationToFailAllocNode::shouldFail",
                           {"allocationNumber": ("allocationNumber", "Nat"), "file": ("file", "Str"), "line": ("line", "Nat")},
                           ret="Bool").function(b, "nd"))

    # constructor initialisers
    m = re.search(r"FailableMemoryAllocator::FailableMemoryAllocator\s*\([^)]*\)\s*:\s*TestMemoryAllocator\s*\([^)]*\)\s*,\s*head_\s*\(\s*(\w+)\s*\)\s*,\s*currentAllocNumber_\s*\(\s*(\d+)\s*\)\s*\{\s*\}", a)
    if not m or m.group(1) not in ("NULLPTR", "NULL", "0"):
        raise TranslateError("FailableMemoryAllocator constructor: initialisers head_(NULLPTR), currentAllocNumber_(n) not found")
    out.append("/-- the constructor's member initialisers -/")
    out.append("def init : Failable.State := { nodes := [], current := %d, nextId := 0 }" % int(m.group(2)))

    # failAllocNumber / failNthAllocAt of the allocator: fresh node from allocMemoryLeakNode, initialised by the node method
    # with `head_` as its successor, then made the head
    for fn, sig, method, params, lean_sig, lean_call in (
            ("failAllocNumber", r"void\s+FailableMemoryAllocator::failAllocNumber\s*\(\s*int\s+number\s*\)\s*\{", "failAtAllocNumber",
             ["number"], "(number : Int)", "nodeFailAtAllocNumber"),
            ("failNthAllocAt", r"void\s+FailableMemoryAllocator::failNthAllocAt\s*\(\s*int\s+allocationNumber\s*,\s*const\s+char\s*\*\s*file\s*,\s*size_t\s+line\s*\)\s*\{",
             "failNthAllocAt", ["allocationNumber", "file", "line"], "(allocationNumber : Int) (file : String) (line : Nat)", "nodeFailNthAllocAt")):
        b = canon_locals(flat(body_of(a, sig, "FailableMemoryAllocator::" + fn)))       # newNode = v0
        if len(b) != 3:
            raise TranslateError("FailableMemoryAllocator::%s: three statements expected" % fn)
        if show(b[0]) != "LocationToFailAllocNode* v0=(LocationToFailAllocNode*)(void*)allocMemoryLeakNode(sizeof(LocationToFailAllocNode));":
            raise TranslateError("FailableMemoryAllocator::%s: the node no longer comes from allocMemoryLeakNode(sizeof(LocationToFailAllocNode)): %s" % (fn, show(b[0])))
        call = b[1]
        if call[0] != "expr" or call[1][0] != "call" or show(call[1][1]) != "v0->" + method:
            raise TranslateError("FailableMemoryAllocator::%s: second statement is not newNode->%s(…)" % (fn, method))
        args = [show(x) for x in call[1][2]]
        if args[-1:] != ["head_"] or any(x not in params for x in args[:-1]) or len(args) != len(params) + 1:
            raise TranslateError("FailableMemoryAllocator::%s: arguments of newNode->%s not understood: %s" % (fn, method, args))
        if show(b[2]) != "head_=v0;":
            raise TranslateError("FailableMemoryAllocator::%s: the new node is not made the head" % fn)
        out.append("/-- `FailableMemoryAllocator::%s`: fresh node (memory content `raw` arbitrary), successor = old head, new head -/" % fn)
        out.append("def %s (raw : Failable.Node) (s : Failable.State) %s : Failable.State :=\n"
                   "  { s with nodes := %s { raw with id := s.nextId } %s :: s.nodes, nextId := s.nextId + 1 }"
                   % (fn, lean_sig, lean_call, " ".join(args[:-1])))

    # alloc_memory: [scalar statements] ; cursor declarations ; fail = false ; the walk ; if (fail) return NULLPTR ; return base
    b = flat(body_of(a, r"char\s*\*\s*FailableMemoryAllocator::alloc_memory\s*\(\s*size_t\s+size\s*,\s*const\s+char\s*\*\s*file\s*,\s*size_t\s+line\s*\)\s*\{",
                     "FailableMemoryAllocator::alloc_memory"))
    b = canon_locals(b)          # current = v0, previous = v1, fail = v2, next = v3
    loops = [i for i, s in enumerate(b) if s[0] == "while"]
    if len(loops) != 1:
        raise TranslateError("FailableMemoryAllocator::alloc_memory: exactly one loop expected")
    li = loops[0]
    pre, loop, post = b[:li], b[li], b[li + 1:]
    decls = {"LocationToFailAllocNode* v0=head_;", "LocationToFailAllocNode* v1=NULLPTR;", "bool v2=false;"}
    scalar_pre = [s for s in pre if show(s) not in decls]
    if {show(s) for s in pre if show(s) in decls} != decls:
        raise TranslateError("FailableMemoryAllocator::alloc_memory: cursor initialisation changed: " + " ".join(show(s) for s in pre))
    # scalar statements must come before the cursor is read from head_ (they may only touch the counter)
    st_fields = {"currentAllocNumber_": ("current", "Nat")}
    ex = Exec("FailableMemoryAllocator::alloc_memory (before the loop)", st_fields, ["current"], {}, {})
    out.append("/-- `alloc_memory`: the statements in front of the walk -/")
    out.append("def allocPre (s : Failable.State) : Failable.State :=\n  " + ex.function(scalar_pre, "s"))
    if show(loop[1]) != "v0":
        raise TranslateError("alloc_memory: loop condition is not the cursor")
    lb = flat([loop[2]])
    if len(lb) != 3 or show(lb[0]) != "LocationToFailAllocNode* v3=v0->next_;" or show(lb[2]) != "v0=v3;" or lb[1][0] != "if":
        raise TranslateError("alloc_memory: loop body is not { next = current->next_; if (…) … else …; current = next; }: " + " ".join(show(s) for s in lb))
    iff = lb[1]
    c = iff[1]
    if c[0] != "call" or show(c[1]) != "v0->shouldFail" or len(c[2]) != 3:
        raise TranslateError("alloc_memory: the loop does not test current->shouldFail(a, b, c)")
    argex = Exec("alloc_memory: arguments of shouldFail", st_fields, ["current"],
                 {"file": ("file", "Str"), "line": ("line", "Nat"), "size": ("size", "Nat")}, {})
    args = []
    for x, want in zip(c[2], ("Nat", "Str", "Nat")):
        v, tv = argex.ex(x, Sym("s"))
        if tv != want:
            raise TranslateError("alloc_memory: argument %s of shouldFail has type %s" % (show(x), tv))
        args.append(atom(v))
    out.append("/-- the call in the loop condition, arguments as written (`s` = the state after `allocPre`) -/")
    out.append("def allocVisit (s : Failable.State) (file : String) (line : Nat) (nd : Failable.Node) : Failable.Node × Bool :=\n"
               "  shouldFail nd %s" % " ".join(args))
    th = [show(s) for s in flat([iff[2]])]
    el = [show(s) for s in flat([iff[3]])] if iff[3] else []
    want_th = ["if(v1)v1->next_=v3;elsehead_=v3;", "free_memory((char*)v0,size,__FILE__,__LINE__);", "v2=true;"]
    if sorted(th) != sorted(want_th):
        raise TranslateError("alloc_memory: a firing node is not { unlinked (previous->next_ / head_ = next); freed; fail = true }: " + " ".join(th))
    if el != ["v1=v0;"]:
        raise TranslateError("alloc_memory: a node that does not fire is not simply kept (`else previous = current;`): " + " ".join(el))
    out.append("/-- the walk: every node is visited in list order; a node whose `shouldFail` answers true is unlinked and freed\n"
               "    (second component, in list order), the others stay linked in their order with their updated counters -/")
    out.append("def walk (s : Failable.State) (file : String) (line : Nat) : List Failable.Node → List Failable.Node × List Failable.Node\n"
               "  | [] => ([], [])\n"
               "  | nd :: rest =>\n"
               "    if (allocVisit s file line nd).2 then\n"
               "      ((walk s file line rest).1, (allocVisit s file line nd).1 :: (walk s file line rest).2)\n"
               "    else\n"
               "      ((allocVisit s file line nd).1 :: (walk s file line rest).1, (walk s file line rest).2)")
    got_post = [show(s) for s in post]
    if got_post != ["if(v2)return NULLPTR;", "return TestMemoryAllocator::alloc_memory(size,file,line);"]:
        raise TranslateError("alloc_memory: after the walk: " + " ".join(got_post))
    out.append("/-- `alloc_memory(size, file, line)`: state afterwards, nodes freed, and whether NULL is returned (`fail`); otherwise the\n"
               "    base class allocates with the same size, file and line -/")
    out.append("def allocMemory (s : Failable.State) (file : String) (line : Nat) : Failable.State × List Failable.Node × Bool :=\n"
               "  ({ allocPre s with nodes := (walk (allocPre s) file line (allocPre s).nodes).1 },\n"
               "   (walk (allocPre s) file line (allocPre s).nodes).2,\n"
               "   !(walk (allocPre s) file line (allocPre s).nodes).2.isEmpty)")

    # checkAllFailedAllocsWereDone
    b = flat(body_of(a, r"void\s+FailableMemoryAllocator::checkAllFailedAllocsWereDone\s*\(\s*\)\s*\{", "FailableMemoryAllocator::checkAllFailedAllocsWereDone"))
    if len(b) != 1 or b[0][0] != "if" or show(b[0][1]) != "head_" or b[0][3] is not None:
        raise TranslateError("checkAllFailedAllocsWereDone is not a single `if (head_) { … }`")
    inner = flat([b[0][2]])
    texts = [show(s) for s in inner]
    if len(inner) != 4 or texts[0] != "UtestShell* currentTest=UtestShell::getCurrent();" or texts[1] != "SimpleString failText;" \
            or inner[2][0] != "if" or show(inner[2][1]) != "head_->file_" \
            or texts[3] != "currentTest->failWith(FailFailure(currentTest,currentTest->getName().asCharString(),currentTest->getLineNumber(),failText));":
        raise TranslateError("checkAllFailedAllocsWereDone changed shape: " + " ".join(texts))

    def fmt_of(s, what):
        s = flat([s])
        if len(s) != 1 or s[0][0] != "expr" or s[0][1][0] != "assign" or show(s[0][1][1]) != "failText":
            raise TranslateError("checkAllFailedAllocsWereDone: %s branch does not assign failText" % what)
        call = s[0][1][2]
        if call[0] != "call" or show(call[1]) != "StringFromFormat" or call[2][0][0] != "str":
            raise TranslateError("checkAllFailedAllocsWereDone: %s branch does not use StringFromFormat(\"…\", …)" % what)
        return call[2][0][1], [show(x) for x in call[2][1:]]
    fmt_at, args_at = fmt_of(inner[2][2], "location")
    fmt_num, args_num = fmt_of(inner[2][3], "number")
    FIELD = {"head_->file_": "file_", "(int)head_->line_": "head_.line", "(int)head_->allocNumberToFail_": "head_.number"}
    if [c for c in re.findall(r"%[a-z]+", fmt_at)] != ["%s", "%d"] or len(args_at) != 2 or any(x not in FIELD for x in args_at):
        raise TranslateError("checkAllFailedAllocsWereDone: location text not understood: %r %r" % (fmt_at, args_at))
    if [c for c in re.findall(r"%[a-z]+", fmt_num)] != ["%d"] or len(args_num) != 1 or args_num[0] not in FIELD:
        raise TranslateError("checkAllFailedAllocsWereDone: number text not understood: %r %r" % (fmt_num, args_num))
    la = [FIELD[x] for x in args_at]
    ln = FIELD[args_num[0]]
    if la[0] != "file_" or la[1] == "file_" or ln == "file_":
        raise TranslateError("checkAllFailedAllocsWereDone: %%s / %%d arguments of the wrong kind: %r %r" % (args_at, args_num))
    out.append("/-- the two failure texts of `checkAllFailedAllocsWereDone` -/")
    out.append("def checkFormatAt : String := %s" % lean_str(fmt_at))
    out.append("def checkFormatNumber : String := %s" % lean_str(fmt_num))
    # the line is printed through (int); the designated number is an int already
    out.append("/-- `checkAllFailedAllocsWereDone`: silent without a head node, otherwise ONE failure about the HEAD node, whose text is\n"
               "    `checkFormatAt` filled with (file, line) when the head has a file, `checkFormatNumber` filled with its number otherwise -/")
    at_line = "(%s).toNat" % la[1] if la[1] == "head_.number" else la[1]
    num_arg = ln if ln == "head_.number" else "((%s : Nat) : Int)" % ln
    out.append("def check (s : Failable.State) : Failable.CheckResult :=\n"
               "  match s.nodes with\n"
               "  | [] => .ok\n"
               "  | head_ :: _ =>\n"
               "    match head_.file with\n"
               "    | some file_ => .neverDoneAt file_ %s\n"
               "    | none => .neverDoneNumber %s" % (at_line, num_arg))

    # clearFailedAllocs: free every node head first; afterwards scalar statements
    b = flat(body_of(a, r"void\s+FailableMemoryAllocator::clearFailedAllocs\s*\(\s*\)\s*\{", "FailableMemoryAllocator::clearFailedAllocs"))
    b = canon_locals(b)
    loops = [i for i, s in enumerate(b) if s[0] == "while"]
    if len(loops) != 1:
        raise TranslateError("clearFailedAllocs: exactly one loop expected")
    li = loops[0]
    if [show(s) for s in b[:li]] != ["LocationToFailAllocNode* v0=head_;"]:
        raise TranslateError("clearFailedAllocs: before the loop: " + " ".join(show(s) for s in b[:li]))
    if show(b[li]) != "while(v0){head_=v0->next_;free_memory((char*)v0,0,__FILE__,__LINE__);v0=head_;}":
        raise TranslateError("clearFailedAllocs: the loop is not { head_ = current->next_; free_memory(current); current = head_; }: " + show(b[li]))
    ex = Exec("FailableMemoryAllocator::clearFailedAllocs (after the loop)", st_fields, ["current"], {}, {})
    out.append("/-- `clearFailedAllocs`: the loop frees every node, head first, and leaves `head_` NULL; then the statements after it -/")
    out.append("def clear (s : Failable.State) : Failable.State :=\n  " + ex.function(b[li + 1:], "{ s with nodes := [] }"))
    out.append("def clearFreed (s : Failable.State) : List Failable.Node := s.nodes")
    return out


def lean_str(s):
    return '"' + s.replace("\\", "\\\\").replace('"', '\\"') + '"'


def extract():
    a = strip_comments(read(SRC_A))
    c = strip_comments(read(SRC_C))
    text = HEADER % ("translate/extract_failable_code.py", SRC_A + " and " + SRC_C)
    text += "import CppUModel.Model.Failable\n"
    text += "namespace Gen.Failable\n\n"
    text += "\n".join(translate_a(a)) + "\n\n"
    text += "\n".join(translate_c(c)) + "\n\n"
    text += "end Gen.Failable\n"
    return text


def run():
    text = extract()
    path = os.path.join(core.LEAN, "CppUModel", "Gen", "FailableCode.lean")
    try:
        if open(path).read() == text:
            return []
    except OSError:
        pass
    # The drivers are built on this file: a term that Lean rejects (possible only for a source shape the
    # translator half understands) must not be installed; it is reported like any other untranslatable source.
    import tempfile
    with tempfile.NamedTemporaryFile("w", suffix=".lean", dir=core.LEAN, delete=False) as f:
        f.write(text)
        tmp = f.name
    try:
        p = core.sh(["lake", "env", "lean", tmp], cwd=core.LEAN, timeout=600)
    finally:
        os.unlink(tmp)
    msg = p.stdout + p.stderr
    if p.returncode != 0 and ("object file" in msg or "unknown module prefix" in msg or "unknown package" in msg):
        # the library is not built yet (fresh checkout): nothing to validate against; the build that follows reports problems
        core.write_if_changed(path, text)
        return []
    if p.returncode != 0:
        raise TranslateError("the translation of the current source is not accepted by Lean: " + (p.stdout + p.stderr)[:400].replace("\n", " | "))
    core.write_if_changed(path, text)
    return []
