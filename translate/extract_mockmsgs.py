"""Regenerates lean/CppUModel/Gen/MockMessages.lean: the pieces of the first line of every mock
failure message, taken from the constructors in src/CppUTestExt/MockFailure.cpp.  The shape of
each constructor's first-line construction is checked; a constructor that builds its first line
differently is a TranslateError (handled like a broken obligation)."""
import os, re
from .common import *

SRC = "src/CppUTestExt/MockFailure.cpp"
LIT = r'"((?:\\.|[^"\\])*)"'


def ctor_body(src, cls):
    return function_body(src, r"%s::%s\s*\(" % (cls, cls))


def norm(body):
    """statements of a body with whitespace outside string literals removed"""
    out, i = [], 0
    for m in re.finditer(LIT, body):
        out.append(re.sub(r"\s+", "", body[i:m.start()]))
        out.append(m.group(0))
        i = m.end()
    out.append(re.sub(r"\s+", "", body[i:]))
    return "".join(out)


def need(pattern, text, what):
    m = re.search(pattern, text, re.S)
    if not m:
        raise TranslateError("%s: first line is no longer built as expected: %s" % (what, text[:300]))
    return m


def unesc(s):
    return s.encode().decode("unicode_escape")


def lean_str(s):
    return '"' + s.replace("\\", "\\\\").replace('"', '\\"').replace("\n", "\\n").replace("\t", "\\t") + '"'


def first_line(s, what):
    """a literal that ends the first line: cut at the newline, which must be there"""
    if "\n" not in s:
        raise TranslateError("%s: literal does not end the first line: %r" % (what, s))
    return s[:s.index("\n")]


def extract():
    src = read(SRC)          # literals are needed: do not strip
    src_nc = re.sub(r"//[^\n]*", "", src)
    d = {}
    b = norm(ctor_body(src_nc, "MockExpectedCallsDidntHappenFailure"))
    m = need(r"^message_=" + LIT + r";addExpectationsAndCallHistory\(expectations\);$", b, "ExpectedCallsDidntHappen")
    d["unfulfilled"] = first_line(unesc(m.group(1)), "unfulfilled")

    b = norm(ctor_body(src_nc, "MockUnexpectedCallHappenedFailure"))
    m = need(r"unsignedintamountOfActualCalls=expectations\.amountOfActualCallsFulfilledFor\(name\);"
             r"if\(amountOfActualCalls>0\)\{SimpleStringordinalNumber=StringFromOrdinalNumber\(amountOfActualCalls\+1\);"
             r"message_=StringFromFormat\(" + LIT + r",ordinalNumber\.asCharString\(\)\);\}"
             r"else\{message_=" + LIT + r";\}message_\+=name;message_\+=" + LIT + ";", b, "UnexpectedCallHappened")
    fmt = unesc(m.group(1))
    if fmt.count("%s") != 1 or unesc(m.group(3)) != "\n":
        raise TranslateError("UnexpectedCallHappened: format changed: %r" % fmt)
    d["additionalPre"], d["additionalMid"] = fmt.split("%s")
    d["unexpectedCallPre"] = unesc(m.group(2))

    b = norm(ctor_body(src_nc, "MockCallOrderFailure"))
    m = need(r"message_=" + LIT + r";message_\+=" + LIT + r";addExpectationsAndCallHistory", b, "CallOrder")
    if unesc(m.group(2)) != "\n":
        raise TranslateError("CallOrder: first line changed")
    d["outOfOrder"] = unesc(m.group(1))

    b = norm(ctor_body(src_nc, "MockUnexpectedInputParameterFailure"))
    m = need(r"expectationsForFunctionWithParameterName\.addExpectationsRelatedTo\(functionName,expectations\);"
             r"expectationsForFunctionWithParameterName\.onlyKeepExpectationsWithInputParameterName\(parameter\.getName\(\)\);"
             r"if\(expectationsForFunctionWithParameterName\.isEmpty\(\)\)\{"
             r"message_=" + LIT + r";message_\+=functionName;message_\+=" + LIT + r";message_\+=parameter\.getName\(\);\}"
             r"else\{message_=" + LIT + r";message_\+=parameter\.getName\(\);message_\+=" + LIT + r";message_\+=functionName;"
             r"message_\+=" + LIT + r";message_\+=StringFrom\(parameter\);message_\+=" + LIT + r";\}message_\+=" + LIT + ";",
             b, "UnexpectedInputParameter")
    g = [unesc(x) for x in m.groups()]
    if g[6] != "\n" or not g[4].endswith(": <"):
        raise TranslateError("UnexpectedInputParameter: first line changed")
    d["paramNamePre"], d["paramNameMid"] = g[0], g[1]
    d["paramValuePre"], d["paramValueMid"], d["paramValueEnd"] = g[2], g[3], g[4][:-3]

    b = norm(ctor_body(src_nc, "MockUnexpectedOutputParameterFailure"))
    m = need(r"expectationsForFunctionWithParameterName\.addExpectationsRelatedTo\(functionName,expectations\);"
             r"expectationsForFunctionWithParameterName\.onlyKeepExpectationsWithOutputParameterName\(parameter\.getName\(\)\);"
             r"if\(expectationsForFunctionWithParameterName\.isEmpty\(\)\)\{"
             r"message_=" + LIT + r";message_\+=functionName;message_\+=" + LIT + r";message_\+=parameter\.getName\(\);\}"
             r"else\{message_=" + LIT + r";message_\+=parameter\.getType\(\);message_\+=" + LIT + r";message_\+=parameter\.getName\(\);"
             r"message_\+=" + LIT + r";message_\+=functionName;message_\+=" + LIT + r";\}message_\+=" + LIT + ";",
             b, "UnexpectedOutputParameter")
    g = [unesc(x) for x in m.groups()]
    if g[6] != "\n":
        raise TranslateError("UnexpectedOutputParameter: first line changed")
    d["outNamePre"], d["outNameMid"] = g[0], g[1]
    d["outTypePre"], d["outTypeMid1"], d["outTypeMid2"], d["outTypeEnd"] = g[2], g[3], g[4], g[5]

    b = norm(ctor_body(src_nc, "MockExpectedParameterDidntHappenFailure"))
    m = need(r"^message_=" + LIT + r";message_\+=functionName;message_\+=" + LIT + ";", b, "ExpectedParameterDidntHappen")
    d["missingParamPre"] = unesc(m.group(1))
    d["missingParamEnd"] = first_line(unesc(m.group(2)), "missing parameter")

    b = norm(ctor_body(src_nc, "MockUnexpectedObjectFailure"))
    m = need(r"^message_=StringFromFormat\(" + LIT + LIT + r",functionName\.asCharString\(\),actual\);", b, "UnexpectedObject")
    fmt = first_line(unesc(m.group(1)), "unexpected object")
    if not fmt.endswith("%s") or fmt.count("%") != 1:
        raise TranslateError("UnexpectedObject: format changed: %r" % fmt)
    d["unexpectedObjectPre"] = fmt[:-2]

    b = norm(ctor_body(src_nc, "MockExpectedObjectDidntHappenFailure"))
    m = need(r"^message_=StringFromFormat\(" + LIT + r",functionName\.asCharString\(\)\);", b, "ExpectedObjectDidntHappen")
    fmt = first_line(unesc(m.group(1)), "missing object")
    if fmt.count("%s") != 1 or fmt.count("%") != 1:
        raise TranslateError("ExpectedObjectDidntHappen: format changed: %r" % fmt)
    d["missingObjectPre"], d["missingObjectEnd"] = fmt.split("%s")

    order = ["unfulfilled", "outOfOrder", "unexpectedCallPre", "additionalPre", "additionalMid", "paramNamePre", "paramNameMid",
             "paramValuePre", "paramValueMid", "paramValueEnd", "outNamePre", "outNameMid", "outTypePre", "outTypeMid1",
             "outTypeMid2", "outTypeEnd", "missingParamPre", "missingParamEnd", "unexpectedObjectPre", "missingObjectPre",
             "missingObjectEnd"]
    text = HEADER % ("translate/extract_mockmsgs.py", SRC)
    text += "namespace Gen.MockMsg\n"
    for k in order:
        text += "def %s : String := %s\n" % (k, lean_str(d[k]))
    text += "end Gen.MockMsg\n"
    return text


def run():
    text = extract()
    core.write_if_changed(os.path.join(core.LEAN, "CppUModel", "Gen", "MockMessages.lean"), text)
    return []
